------------------------------- MODULE QMat -------------------------------
(* Quaternion matrices over the integers: a matrix is a sequence of rows,  *)
(* each row a sequence of quaternions (Quat.tla).  All operators are       *)
(* written from the mathematical definitions.                              *)
EXTENDS Quat, FiniteSets

RECURSIVE QSumSeq(_)
QSumSeq(s) == IF s = <<>> THEN QZero ELSE QAdd(Head(s), QSumSeq(Tail(s)))
RECURSIVE ISumSeq(_)
ISumSeq(s) == IF s = <<>> THEN 0 ELSE Head(s) + ISumSeq(Tail(s))

NRows(A) == Len(A)
NCols(A) == IF Len(A) = 0 THEN 0 ELSE Len(A[1])

MZero(m, n) == [i \in 1..m |-> [j \in 1..n |-> QZero]]
Eye(n)      == [i \in 1..n |-> [j \in 1..n |-> IF i = j THEN QOne ELSE QZero]]
(* matrix with the single entry c at (i,j)                                  *)
EntryUnit(m, n, i, j, c) ==
  [r \in 1..m |-> [s \in 1..n |-> IF r = i /\ s = j THEN c ELSE QZero]]

(* C_ij = sum_k A_ik * B_kj  (Hamilton product, order matters)              *)
MMul(A, B) ==
  [i \in 1..NRows(A) |-> [j \in 1..NCols(B) |->
      QSumSeq([k \in 1..NCols(A) |-> QMul(A[i][k], B[k][j])])]]
MAdd(A, B) == [i \in 1..NRows(A) |-> [j \in 1..NCols(A) |-> QAdd(A[i][j], B[i][j])]]
MSub(A, B) == [i \in 1..NRows(A) |-> [j \in 1..NCols(A) |-> QSub(A[i][j], B[i][j])]]
MScale(c, A) == [i \in 1..NRows(A) |-> [j \in 1..NCols(A) |-> QScale(c, A[i][j])]]
MHerm(A) == [j \in 1..NCols(A) |-> [i \in 1..NRows(A) |-> QConj(A[i][j])]]
MTrans(A) == [j \in 1..NCols(A) |-> [i \in 1..NRows(A) |-> A[i][j]]]

Fro2(A) == ISumSeq([i \in 1..NRows(A) |->
                     ISumSeq([j \in 1..NCols(A) |-> QNorm2(A[i][j])])])

IsUpperTri(A)  == \A i \in 1..NRows(A), j \in 1..NCols(A) : i > j => A[i][j] = QZero
IsLowerTri(A)  == \A i \in 1..NRows(A), j \in 1..NCols(A) : i < j => A[i][j] = QZero
IsUnitLower(A) == IsLowerTri(A) /\
                  \A i \in 1..NRows(A) : i <= NCols(A) => A[i][i] = QOne

(* ---------------- integer (real) matrices ----------------                *)
IMMul(A, B) ==
  [i \in 1..Len(A) |-> [j \in 1..Len(B[1]) |->
      ISumSeq([k \in 1..Len(B) |-> A[i][k] * B[k][j]])]]
IMTrans(A) == [j \in 1..Len(A[1]) |-> [i \in 1..Len(A) |-> A[i][j]]]
IMAdd(A, B) == [i \in 1..Len(A) |-> [j \in 1..Len(A[1]) |-> A[i][j] + B[i][j]]]
IFro2(A) == ISumSeq([i \in 1..Len(A) |-> ISumSeq([j \in 1..Len(A[1]) |-> A[i][j]*A[i][j]])])

(* The 4x4 real matrix of LEFT multiplication by q on (w,x,y,z) columns.    *)
LeftBlock(q) ==
  << << q[1], -q[2], -q[3], -q[4] >>,
     << q[2],  q[1], -q[4],  q[3] >>,
     << q[3],  q[4],  q[1], -q[2] >>,
     << q[4], -q[3],  q[2],  q[1] >> >>

(* Entry-interleaved real embedding: block (i,j) is LeftBlock(A_ij).        *)
Chi4I(A) ==
  [r \in 1..4*NRows(A) |-> [c \in 1..4*NCols(A) |->
      LeftBlock(A[((r-1) \div 4) + 1][((c-1) \div 4) + 1])[((r-1) % 4) + 1][((c-1) % 4) + 1]]]
(* Component-blocked real embedding: 4x4 arrangement of m x n planes.       *)
Chi4B(A) ==
  LET m == NRows(A) n == NCols(A) IN
  [r \in 1..4*m |-> [c \in 1..4*n |->
      LeftBlock(A[((r-1) % m) + 1][((c-1) % n) + 1])[((r-1) \div m) + 1][((c-1) \div n) + 1]]]
=============================================================================
