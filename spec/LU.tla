--------------------------------- MODULE LU ---------------------------------
(* C07: Gaussian elimination with partial pivoting on quaternion matrices,  *)
(* one action per critical section of quaternion_lu, in EXACT arithmetic.   *)
(*                                                                          *)
(* Numbers: every matrix entry is stored multiplied by S (= 4), so dyadic    *)
(* quaternions with denominator 4 are integers here and exactly             *)
(* representable doubles in the implementation.                             *)
(*                                                                          *)
(* Init constructs A = P_sigma^T L0 U0 for EVERY permutation sigma of the   *)
(* rows (all m! interchange sequences), with |multipliers| < 1 strictly and  *)
(* unit-modulus pivots, so that the pivot search has exactly one choice at   *)
(* each step: the input forces the interchange sequence.  The mechanism      *)
(* (PivotSearch, Swap, Scale, Update, Assemble3/Assemble2, ZeroPivot) then   *)
(* runs on A alone.  Invariants are the clauses of the property.             *)
EXTENDS QMat, TLC, FiniteSetsExt

CONSTANTS MaxM,        \* largest number of rows
          Variants,    \* set of factor-library variants (1..V)
          Modes        \* subset of {2, 3}: output modes explored

S == 4

VARIABLES m, n, A0, L0, U0, sigma, sing,   \* the constructed case (never changed)
          W, IP, j, l, pc, mode, out
vars == <<m, n, A0, L0, U0, sigma, sing, W, IP, j, l, pc, mode, out>>

NN == IF m < n THEN m ELSE n

(* ---- scaled arithmetic ------------------------------------------------- *)
QDivInt(q, d) == <<q[1] \div d, q[2] \div d, q[3] \div d, q[4] \div d>>
SMulQ(x, y)   == QDivInt(QMul(x, y), S)                  \* (x/S)(y/S) stored
(* x * p^-1 = x * conj(p) / |p|^2, stored                                   *)
SDivQ(x, p)   == QDivInt(QScale(S, QMul(x, QConj(p))), QNorm2(p))
SMMul(X, Y)   == [r \in 1..Len(X) |-> [c \in 1..Len(Y[1]) |->
                   QDivInt(QSumSeq([k \in 1..Len(Y) |-> QMul(X[r][k], Y[k][c])]), S)]]

(* ---- factor library ---------------------------------------------------- *)
(* multipliers: stored values (x4) of quaternions of modulus < 1            *)
Mults == << <<2,0,0,0>>, <<0,2,0,0>>, <<1,0,1,0>>, <<0,0,0,-1>>, <<0,0,0,0>>,
            <<-2,1,0,0>>, <<1,1,1,1>>, <<0,-1,0,2>>, <<3,0,0,0>>, <<0,0,-3,1>> >>
Units == << <<4,0,0,0>>, <<0,4,0,0>>, <<0,0,-4,0>>, <<0,0,0,4>>, <<-4,0,0,0>>, <<0,0,4,0>> >>
Offs  == << <<4,0,8,0>>, <<0,-4,0,0>>, <<12,4,0,0>>, <<0,0,0,8>>, <<-8,0,4,4>>, <<0,0,0,0>>, <<4,4,4,4>> >>
ASSUME \A k \in 1..Len(Mults) : QNorm2(Mults[k]) < S*S
ASSUME \A k \in 1..Len(Units) : QNorm2(Units[k]) = S*S

LibL(mm, N, v) == [r \in 1..mm |-> [c \in 1..N |->
      IF r = c THEN <<S,0,0,0>>
      ELSE IF r < c THEN QZero
      ELSE Mults[((3*r + 5*c + 7*v) % Len(Mults)) + 1]]]
LibU(N, nn, v, z) == [r \in 1..N |-> [c \in 1..nn |->
      IF r = c THEN (IF r = z THEN QZero ELSE Units[((r + 2*v) % Len(Units)) + 1])
      ELSE IF r > c THEN QZero
      ELSE Offs[((2*r + 3*c + v) % Len(Offs)) + 1]]]

Perms(k) == { f \in [1..k -> 1..k] : \A a, b \in 1..k : a # b => f[a] # f[b] }

(* A0[sigma[i]] = (L0 U0)[i]  i.e.  P A0 = L0 U0 with P[i, sigma[i]] = 1     *)
Init ==
  /\ m \in 1..MaxM
  /\ n \in {k \in {m - 1, m, m + 1} : k >= 1}
  /\ \E v \in Variants :
        /\ L0 = LibL(m, NN, v)
        /\ sing \in {0} \cup (IF v = 1 THEN 1..NN ELSE {})   \* singular classes: variant 1 only
        /\ U0 = LibU(NN, n, v, sing)
  /\ sigma \in Perms(m)
  /\ LET LUm == SMMul(L0, U0)
         inv == [r \in 1..m |-> CHOOSE i \in 1..m : sigma[i] = r]
     IN  A0 = [r \in 1..m |-> LUm[inv[r]]]
  /\ W = A0 /\ IP = [i \in 1..m |-> i] /\ j = 1 /\ l = 0
  /\ pc = "search" /\ mode \in Modes /\ out = <<>>

(* ---- mechanism --------------------------------------------------------- *)
(* first row of maximal modulus in column j, rows j..m (numpy.argmax)       *)
PivotSearch ==
  /\ pc = "search"
  /\ LET cand == { r \in j..m : \A q \in j..m : QNorm2(W[q][j]) <= QNorm2(W[r][j]) }
     IN  l' = Min(cand)
  /\ pc' = "swap"
  /\ UNCHANGED <<m, n, A0, L0, U0, sigma, sing, W, IP, j, mode, out>>

Swap ==
  /\ pc = "swap"
  /\ W'  = [W  EXCEPT ![j] = W[l],  ![l] = W[j]]
  /\ IP' = [IP EXCEPT ![j] = IP[l], ![l] = IP[j]]
  /\ pc' = IF j = m THEN "assemble"                       \* last row: no scaling
           ELSE IF QNorm2(W[l][j]) = 0 THEN "raise" ELSE "scale"
  /\ UNCHANGED <<m, n, A0, L0, U0, sigma, sing, j, l, mode, out>>

Scale ==
  /\ pc = "scale"
  /\ W' = [r \in 1..m |-> IF r > j THEN [W[r] EXCEPT ![j] = SDivQ(W[r][j], W[j][j])] ELSE W[r]]
  /\ pc' = IF j = n THEN "assemble" ELSE "update"
  /\ UNCHANGED <<m, n, A0, L0, U0, sigma, sing, IP, j, l, mode, out>>

Update ==
  /\ pc = "update"
  /\ W' = [r \in 1..m |-> [c \in 1..n |->
             IF r > j /\ c > j THEN QSub(W[r][c], SMulQ(W[r][j], W[j][c])) ELSE W[r][c]]]
  /\ j' = j + 1
  /\ pc' = IF j + 1 > NN THEN "assemble" ELSE "search"
  /\ UNCHANGED <<m, n, A0, L0, U0, sigma, sing, IP, l, mode, out>>

ZeroPivot ==
  /\ pc = "raise"
  /\ out' = [raised |-> TRUE, at |-> j]
  /\ pc' = "done"
  /\ UNCHANGED <<m, n, A0, L0, U0, sigma, sing, W, IP, j, l, mode>>

LowerUnit == [r \in 1..m |-> [c \in 1..NN |->
                IF r > c THEN W[r][c] ELSE IF r = c THEN <<S,0,0,0>> ELSE QZero]]
Upper     == [r \in 1..NN |-> [c \in 1..n |-> IF r <= c THEN W[r][c] ELSE QZero]]

(* three outputs: L, U and the permutation as a vector (P[i, IP[i]] = 1)    *)
Assemble3 ==
  /\ pc = "assemble" /\ mode = 3
  /\ out' = [raised |-> FALSE, L |-> LowerUnit, U |-> Upper, IP |-> IP]
  /\ pc' = "done"
  /\ UNCHANGED <<m, n, A0, L0, U0, sigma, sing, W, IP, j, l, mode>>
(* two outputs: L2 = P^T L, i.e. row IP[i] of L2 is row i of L              *)
Assemble2 ==
  /\ pc = "assemble" /\ mode = 2
  /\ LET LL == LowerUnit
         at == [r \in 1..m |-> CHOOSE i \in 1..m : IP[i] = r]
     IN  out' = [raised |-> FALSE, L |-> [r \in 1..m |-> LL[at[r]]], U |-> Upper, IP |-> IP]
  /\ pc' = "done"
  /\ UNCHANGED <<m, n, A0, L0, U0, sigma, sing, W, IP, j, l, mode>>

Next == PivotSearch \/ Swap \/ Scale \/ Update \/ ZeroPivot \/ Assemble3 \/ Assemble2
Spec == Init /\ [][Next]_vars

(* ---- the property's clauses as invariants of the mechanism -------------- *)
Returned == pc = "done" /\ ~out.raised
PermRows(B, ip) == [i \in 1..Len(ip) |-> B[ip[i]]]
PA_eq_LU   == Returned /\ mode = 3 => PermRows(A0, out.IP) = SMMul(out.L, out.U)
A_eq_L2U   == Returned /\ mode = 2 => A0 = SMMul(out.L, out.U)
UnitLower3 == Returned /\ mode = 3 =>
                 \A r \in 1..m, c \in 1..NN :
                    /\ (r = c => out.L[r][c] = <<S,0,0,0>>)
                    /\ (r < c => out.L[r][c] = QZero)
                    /\ (r > c => QNorm2(out.L[r][c]) <= S*S)      \* |multiplier| <= 1
UpperTrap  == Returned => IsUpperTri(out.U)
IsPerm     == Returned => \A a, b \in 1..m : a # b => out.IP[a] # out.IP[b]
(* model sanity: elimination recovers the construction (pivot order forced) *)
Recovers   == Returned /\ mode = 3 => out.L = L0 /\ out.U = U0 /\ out.IP = sigma
(* loud when singular: the mechanism raises exactly when the zero diagonal   *)
(* is met before the last row; a zero in the last row still reproduces A     *)
RaiseIffSingular == pc = "done" => (out.raised <=> (sing # 0 /\ sing < m))
=============================================================================
