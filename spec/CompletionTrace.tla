------------------------- MODULE CompletionTrace -------------------------
(* Trace validation for the image-completion application: one event per iteration, recorded by a hook on          *)
(* matplotlib's pause() - which the script calls once per iteration right after the Quantise step - that reads the   *)
(* script's own variables (X, B_Miss, Q, psnr_history) from the calling frame; plus one Done event with the final     *)
(* state.  The events are stepped against the program counter of Completion.tla; all clauses describe the            *)
(* application (mechanism clauses, reported as drift).                                                                *)
EXTENDS Integers, Sequences, FiniteSets, TLC, Json, IOUtils
TraceLog == ndJsonDeserialize(IOEnv.TRACE_FILE)
VARIABLES l, it, nbad
tvars == <<l, it, nbad>>
Bad(e) ==
  CASE e.ev = "Start" -> {}
    [] e.ev = "Quantise" ->
            { c \in {"M:IterationsInOrder"} : e.it # it + 1 }
       \cup { c \in {"M:KnownPixelsAreData"} : ~e.known_are_data }
       \cup { c \in {"M:MissingPixelsAreEstimates"} : ~e.missing_are_estimates }
       \cup { c \in {"M:HistoryCountsIterations"} : e.hist_len # e.it }
       \cup { c \in {"M:RecordedPsnrIsPsnrOfCurrentImage"} : ~e.psnr_truthful }
    [] e.ev = "Done" ->
            { c \in {"M:RunsAllIterations"} : e.n_iter # it \/ e.hist_len # it }
       \cup { c \in {"M:FinalPsnrIsPsnrOfFinalImage"} : ~e.final_psnr_truthful }
    [] OTHER -> {"UnknownEvent"}
TInit == l = 1 /\ it = 0 /\ nbad = 0
TNext ==
  /\ l <= Len(TraceLog)
  /\ LET e == TraceLog[l]
         f == Bad(e)
     IN  /\ \A c \in f : PrintT(<<"V", "bad", e.tid, c>>)
         /\ nbad' = nbad + Cardinality(f)
         /\ it' = IF e.ev = "Start" THEN 0 ELSE IF e.ev = "Quantise" THEN e.it ELSE it
  /\ l' = l + 1
Report == l = Len(TraceLog) + 1 => PrintT(<<"V", "consumed", l - 1>>)
=============================================================================
