----------------------------- MODULE SketchTrace -----------------------------
(* Property monitor for recorded runs of the sketch-and-project, hybrid and     *)
(* CGNE solvers (C13).  One Return event per run; reals on the Lg grid.          *)
EXTENDS Integers, Sequences, FiniteSets, TLC, Json, IOUtils
CONSTANTS LgK,        \* converged => true residual <= tol * 2^(LgK/64)
          HistSlack   \* reported last history entry = proxy recomputed for the returned X
FloorLg == -2816
TraceLog == ndJsonDeserialize(IOEnv.TRACE_FILE)
VARIABLES l, nbad
tvars == <<l, nbad>>
Near(a, b, s) == a - b <= s /\ b - a <= s
Bad(e) ==
     { c \in {"Finite"} : ~e.finite }
  \cup { c \in {"M:FlagIsLastBelowTol"} : e.converged # (e.hist_len > 0 /\ e.last_le_tol) }
  \cup { c \in {"M:ItersIsHistLen"} : e.iters # e.hist_len }
  \cup { c \in {"HistoryOfReturnedIterate"} : e.finite /\ e.hist_len > 0 /\ e.proxy_known
                                              /\ (e.last_lg > FloorLg + e.cond_lg \/ e.proxy_true_lg > FloorLg + e.cond_lg)      \* above rounding noise (eps * cond)
                                              /\ ~Near(e.last_lg, e.proxy_true_lg, HistSlack) }
  \cup { c \in {"ConvergedSound"} : e.finite /\ e.converged /\ e.true_res_lg > e.tol_lg + LgK }
  \cup { c \in {"ConvergedNearPinv"} : e.finite /\ e.converged /\ e.dist_lg > e.tol_lg + e.cond_lg + LgK }
  \cup { c \in {"CGNEReturnsPinvToTolerance"} : e.solver = "cgne" /\ e.expect_converge /\ e.true_res_lg > e.tol_lg + LgK }
  \cup { c \in {"CGNEResidualsNonIncreasing"} : e.solver = "cgne" /\ e.expect_converge /\ ~e.hist_nonincreasing }
  \cup { c \in {"ConfigurationUnchanged"} : ~e.config_unchanged }
       (* every successful micro-solve is followed by exactly one update and one history entry; a failed   *)
       (* (skipped) step leaves the history alone: |hist| = number of successful micro-solves               *)
  \cup { c \in {"M:HistoryMatchesUpdates"} : e.updates >= 0 /\ e.hist_len # e.updates }
  \cup { c \in {"M:FallbackOnlyAfterCgFailure"} : e.solver # "cgne" /\ e.micro.ns_fallback # e.micro.spd_fail }
  \cup { c \in {"M:InjectedFaultsTaken"} : (e.inject # <<>> /\ "spd_fail_every" \in DOMAIN e.inject /\ e.micro.spd_ok + e.micro.spd_fail >= 2 /\ e.micro.spd_fail = 0) }
TInit == l = 1 /\ nbad = 0
TNext ==
  /\ l <= Len(TraceLog)
  /\ LET e == TraceLog[l]
         f == Bad(e)
     IN  /\ \A c \in f : PrintT(<<"V", "bad", e.tid, c>>)
         /\ nbad' = nbad + Cardinality(f)
  /\ l' = l + 1
Report == l = Len(TraceLog) + 1 => PrintT(<<"V", "consumed", l - 1>>)
=============================================================================
