-------------------------- MODULE NewtonSchulzTrace --------------------------
(* Trace validation for the Newton-Schulz solvers (C03).  A run of the real    *)
(* code on A = U diag(s) V^H is projected onto the singular basis and recorded  *)
(* as   Start  Iter(0)  Iter(1) ... Iter(K)  [Hist(k)]*  [Return]              *)
(* where Iter(k) carries t_i(k) in 2^-15 fixed point and Lg(1 - t_i(k)).        *)
(* This module replays the scalar recurrences of NewtonSchulz.tla along the     *)
(* recorded trajectory: each step must lie in the interval image of the         *)
(* previous recorded state (fixed point while 1-t >= 2^-9, logarithmic law      *)
(* below that, down to the rounding floor).                                     *)
EXTENDS Integers, Sequences, FiniteSets, TLC, Json, IOUtils

CONSTANTS DeltaFx,     \* fixed-point slack per step
          DeltaLg,     \* Lg slack per step of the logarithmic law
          FloorLg,     \* Lg below which 1 - t is rounding noise
          OffBound,    \* off-diagonal mass / model distance, units (grows with k, see GrowthLg)
          HistSlack,   \* Lg slack: reported history = true value of that iterate
          ErrSlack     \* Lg slack on ||X - A^+|| <= tol / s_min^2
S == 32768
FloorV == -2560
TraceLog == ndJsonDeserialize(IOEnv.TRACE_FILE)

VARIABLES l, par, pt, plg, pk, pe1, nbad
tvars == <<l, par, pt, plg, pk, pe1, nbad>>

RECURSIVE SumF(_, _, _)
SumF(f, a, b) == IF a > b THEN 0 ELSE f[a] + SumF(f, a + 1, b)
Abs(x) == IF x < 0 THEN -x ELSE x
T0(sv) == LET tot == SumF([i \in 1..Len(sv) |-> sv[i] * sv[i]], 1, Len(sv))
          IN [i \in 1..Len(sv) |-> IF tot = 0 THEN 0 ELSE (sv[i] * sv[i] * S) \div tot]
(* gamma in fixed point gfx = gamma * S *)
DampedLo(x, gfx) == x + (gfx * ((x * (S - x)) \div S)) \div S
Cubic(x) == LET u == S - x  u2 == (u * u) \div S  u3 == (u2 * u) \div S IN S - u3
Model(x, p) == IF p.solver = "damped" THEN DampedLo(x, p.gfx) ELSE Cubic(x)
(* logarithmic law for the error e = 1 - t close to convergence              *)
LawLg(elg, p) == IF p.solver = "cubic" THEN 3 * elg
                 ELSE IF p.gfx = S THEN 2 * elg
                 ELSE elg + p.lg1mg                     \* + Lg(1 - gamma)
Near(a, b, d) == a - b <= d /\ b - a <= d

StepBad(e, p) ==
  LET r == Len(p.s) IN
     { c \in {"M:IterOrder"} : e.k # pk + 1 }
  \cup { c \in {"Recurrence"} :
           e.k = pk + 1 /\ \E i \in 1..r :
             /\ p.s[i] # 0
             /\ IF S - pt[i] >= 64
                THEN ~Near(e.t[i], Model(pt[i], p), DeltaFx)
                ELSE /\ plg[i] > FloorLg /\ LawLg(plg[i], p) > FloorLg
                     /\ ~Near(e.lg1mt[i], LawLg(plg[i], p), DeltaLg) }
  \cup { c \in {"ZeroSingularValuesStayZero"} : \E i \in 1..r : p.s[i] = 0 /\ Abs(e.t[i]) > DeltaFx }
  \cup { c \in {"TMonotone"} : e.k = pk + 1 /\ \E i \in 1..r : e.t[i] < pt[i] - DeltaFx }
  \cup { c \in {"XIsSpectralModel"} : e.model_units > OffBound }
  \cup { c \in {"E1NeverIncreases"} : e.k = pk + 1 /\ pe1 > FloorLg /\ e.e1_lg > pe1 + 2 }

Bad(e) ==
  CASE e.ev = "Start" -> {}
    [] e.ev = "Iter" ->
         IF e.k = 0
         THEN { c \in {"InitialScaling"} : \E i \in 1..Len(par.s) : ~Near(e.t[i], T0(par.s)[i], DeltaFx) }
              \cup { c \in {"XIsSpectralModel"} : e.model_units > OffBound }
         ELSE StepBad(e, par)
    [] e.ev = "Hist" ->
         { c \in {"ResidualHistoryTruthful"} : e.has_res /\ e.res_true_lg > FloorLg /\ ~Near(e.res_rep_lg, e.res_true_lg, HistSlack) }
         \cup { c \in {"CovarianceHistoryTruthful"} : e.cov_true_lg > FloorLg /\ ~Near(e.cov_rep_lg, e.cov_true_lg, HistSlack) }
         \cup { c \in {"HistoryLength"} : e.len_res # e.want_res \/ e.len_cov # e.want_cov }
    [] e.ev = "Return" ->
         { c \in {"StopOnTolIsAccurate"} : e.stopped_on_tol /\ e.err_lg > e.bound_lg + ErrSlack /\ e.err_lg > FloorLg }
         \cup { c \in {"ConvergesToPinv"} : e.expect_converged /\ e.err_lg > e.conv_bound_lg }
         \cup { c \in {"Finite"} : ~e.finite }
         \cup { c \in {"SparseSameAsDense"} : ~e.sparse_same }
    [] OTHER -> {"UnknownEvent"}

TInit == l = 1 /\ par = <<>> /\ pt = <<>> /\ plg = <<>> /\ pk = -1 /\ pe1 = 0 /\ nbad = 0
TNext ==
  /\ l <= Len(TraceLog)
  /\ LET e == TraceLog[l]
         f == Bad(e)
     IN  /\ \A c \in f : PrintT(<<"V", "bad", e.tid, c>>)
         /\ nbad' = nbad + Cardinality(f)
         /\ CASE e.ev = "Start" -> par' = e /\ pt' = <<>> /\ plg' = <<>> /\ pk' = -1 /\ pe1' = 0
              [] e.ev = "Iter"  -> pt' = e.t /\ plg' = e.lg1mt /\ pk' = e.k /\ pe1' = e.e1_lg /\ UNCHANGED par
              [] OTHER          -> UNCHANGED <<par, pt, plg, pk, pe1>>
  /\ l' = l + 1
Report == l = Len(TraceLog) + 1 => PrintT(<<"V", "consumed", l - 1>>)
=============================================================================
