----------------------------- MODULE NormsTrace -----------------------------
(* Property monitor for norm values measured on float inputs (C15).  Each     *)
(* inequality is logged as an integer margin: viol = (lhs - rhs) in units of   *)
(* 2^-52 * scale (<= 0 when the inequality holds exactly).                    *)
EXTENDS Integers, Sequences, FiniteSets, TLC, Json, IOUtils
CONSTANT UnitsBound
TraceLog == ndJsonDeserialize(IOEnv.TRACE_FILE)
VARIABLES l, nbad
tvars == <<l, nbad>>
Failed(e) ==
  CASE e.op = "ineq" -> { c \in {e.clause} : e.viol > UnitsBound }
    [] e.op = "eq"   -> { c \in {e.clause} : e.units > UnitsBound }
    [] e.op = "flag" -> { c \in {e.clause} : ~e.ok }
    [] OTHER -> {"UnknownEvent"}
TInit == l = 1 /\ nbad = 0
TNext ==
  /\ l <= Len(TraceLog)
  /\ LET e == TraceLog[l]
         f == Failed(e)
     IN  /\ \A c \in f : PrintT(<<"V", "bad", e.tid, c>>)
         /\ nbad' = nbad + Cardinality(f)
  /\ l' = l + 1
Report == l = Len(TraceLog) + 1 => PrintT(<<"V", "consumed", l - 1>>)
=============================================================================
