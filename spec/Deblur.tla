------------------------------- MODULE Deblur -------------------------------
(* Case space of C17.  Blurring is bilinear in (psf, image), so single-tap     *)
(* kernels at every tap position x impulses at every pixel x all sizes          *)
(* determine the operator; a catalogue of asymmetric integer kernels and        *)
(* images is added.  Blur computes the expected blurred image and the          *)
(* explicit operator matrix; the invariants are the operator laws.             *)
EXTENDS DeblurDefs, TLC
CONSTANTS MaxH, MaxW, WithMatrix
VARIABLES kind, psf, X, pc, out
vars == <<kind, psf, X, pc, out>>

CatPsf == { << <<1, 2>>, <<0, 3>> >>,                       \* 2x2 (even), asymmetric
            << <<0, 1, 0>>, <<2, 4, 0>>, <<0, 0, 3>> >>,    \* 3x3 L-shape
            << <<1, 2, 3>> >>,                              \* 1x3 horizontal motion, asymmetric weights
            << <<3>>, <<1>> >>,                             \* 2x1 vertical, even
            << <<5>> >> }                                   \* 1x1
CatImg(H, W) == [i \in 1..H |-> [j \in 1..W |-> ((3 * i + 5 * j + i * j) % 7) - 2]]

Init ==
  /\ pc = "case" /\ out = <<>>
  /\ \E H \in 1..MaxH, W \in 1..MaxW :
       \/ /\ kind = "basis"
          /\ \E kH \in 1..H, kW \in 1..W : \E u \in 0..kH-1, v \in 0..kW-1 : psf = SingleTap(kH, kW, u, v)
          /\ \E p \in 0..H-1, q \in 0..W-1 : X = Impulse(H, W, p, q)
       \/ /\ kind = "cat"
          /\ psf \in { k \in CatPsf : Hh(k) <= H /\ Ww(k) <= W }
          /\ X = CatImg(H, W)

Blur ==
  /\ pc = "case"
  /\ out' = [ B |-> CircConv(X, psf),
              A |-> IF WithMatrix /\ Hh(X) * Ww(X) <= 12 THEN ConvMatrix(psf, Hh(X), Ww(X)) ELSE <<>> ]
  /\ pc' = "done" /\ UNCHANGED <<kind, psf, X>>
Next == Blur
Spec == Init /\ [][Next]_vars

Done == pc = "done"
MassPreserved == Done => Sum2(out.B) = Sum2(psf) * Sum2(X)
(* an impulse at (p,q) is mapped to the PSF centred there: tap (u,v) lands on   *)
(* (p + u - cH, q + v - cW) mod (H,W)                                            *)
ImpulseToCentredPsf ==
  Done /\ kind = "basis" =>
    LET H == Hh(X) W == Ww(X) kH == Hh(psf) kW == Ww(psf)
        p == CHOOSE p \in 0..H-1 : \E q \in 0..W-1 : At(X, p, q) = 1
        q == CHOOSE q \in 0..W-1 : At(X, p, q) = 1
        u == CHOOSE u \in 0..kH-1 : \E v \in 0..kW-1 : At(psf, u, v) = 1
        v == CHOOSE v \in 0..kW-1 : At(psf, u, v) = 1
    IN out.B = Impulse(H, W, (p + u - (kH \div 2)) % H, (q + v - (kW \div 2)) % W)
MatrixIsOperator == Done /\ out.A # <<>> => MatVec(out.A, Vec(X)) = Vec(out.B)
=============================================================================
