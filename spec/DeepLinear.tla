---------------------------- MODULE DeepLinear ----------------------------
(* Control structure of DeepLinearNewtonSchulz.compute(X, layers) - beyond the twenty listed properties; *)
(* part of the growing system specification (DESIGN 6).  Block coordinate descent over the weights       *)
(* W_1 .. W_d, d = Len(layers) - 1, for  min || X W_1 ... W_d - I ||_F :                                 *)
(*   one SWEEP updates layer 1, 2, .., d in this order (Gauss-Seidel: layer i sees the NEW W_1..W_{i-1}   *)
(*   and the OLD W_{i+1}..W_d); a layer update is repeated Inner times; one update asks the inner         *)
(*   Newton-Schulz solver for pinv(Xhat_i), Xhat_i = X W_1..W_{i-1}  (AskX), then - unless i = d - for    *)
(*   pinv(What_i), What_i = W_{i+1}..W_d (AskW), and assigns W_i := pinv(Xhat_i) pinv(What_i) (Assign);  *)
(*   after its last repetition the layer is clipped to Frobenius norm 3 (Clip); after the sweep the       *)
(*   reconstruction error is appended to the history (Record) and the run stops when it is below tol or   *)
(*   after MaxIter sweeps.                                                                                *)
(* The state is written as a record so that DeepLinearTrace.tla steps the SAME operators along recorded   *)
(* runs of the real solver.                                                                              *)
EXTENDS DeepLinearDefs
CONSTANTS MaxD, MaxInner, MaxSweeps

(* ---- the specification --------------------------------------------------------------------------- *)
VARIABLES cfg, st, stop_at, lastask
vars == <<cfg, st, stop_at, lastask>>
Init == /\ cfg \in [d : 1..MaxD, inner : 1..MaxInner, max_iter : 0..MaxSweeps]
        /\ stop_at \in 0..MaxSweeps               \* the sweep after which the error is below tol (0: never)
        /\ st = Start(cfg)
        /\ lastask = [kind |-> "none", layer |-> 0, deps |-> [j \in {} |-> 0]]
DoAskX == st.pc = "askX" /\ st' = AskX(cfg, st) /\ lastask' = [kind |-> "X", layer |-> st.layer, deps |-> XDeps(cfg, st)] /\ UNCHANGED <<cfg, stop_at>>
DoAskW == st.pc = "askW" /\ st' = AskW(cfg, st) /\ lastask' = [kind |-> "W", layer |-> st.layer, deps |-> WDeps(cfg, st)] /\ UNCHANGED <<cfg, stop_at>>
DoAssign == st.pc = "assign" /\ st' = Assign(cfg, st) /\ UNCHANGED <<cfg, stop_at, lastask>>
DoClip == st.pc = "clip" /\ st' = Clip(cfg, st) /\ UNCHANGED <<cfg, stop_at, lastask>>
DoRecord == st.pc = "record" /\ st' = Record(cfg, st, st.sweep = stop_at) /\ UNCHANGED <<cfg, stop_at, lastask>>
DoReturn == st.pc = "return" /\ st' = [st EXCEPT !.pc = "done"] /\ UNCHANGED <<cfg, stop_at, lastask>>
Next == DoAskX \/ DoAskW \/ DoAssign \/ DoClip \/ DoRecord \/ DoReturn
Spec == Init /\ [][Next]_vars /\ WF_vars(Next)

(* ---- properties ------------------------------------------------------------------------------------ *)
TypeOK == /\ st.pc \in {"askX", "askW", "assign", "clip", "record", "return", "done"}
          /\ st.layer \in 1..cfg.d /\ st.rep \in 1..cfg.inner /\ st.sweep \in 1..(MaxSweeps + 1)
(* Gauss-Seidel: when layer i is worked on in sweep k, earlier layers have all k rounds of updates, later ones k - 1 *)
GaussSeidel == st.pc \in {"askX", "askW", "assign"} =>
                 /\ \A j \in 1..(st.layer - 1) : st.ver[j] = st.sweep * cfg.inner
                 /\ \A j \in (st.layer + 1)..cfg.d : st.ver[j] = (st.sweep - 1) * cfg.inner
                 /\ st.ver[st.layer] = (st.sweep - 1) * cfg.inner + (st.rep - 1)
(* the last layer never asks for a right factor *)
LastLayerHasNoRightFactor == st.pc = "askW" => st.layer < cfg.d
(* one history entry per completed sweep; every layer has been assigned Inner times per sweep *)
HistoryCountsSweeps == st.pc \in {"return", "done"} /\ cfg.max_iter > 0 =>
                          /\ st.nh = st.sweep
                          /\ \A j \in 1..cfg.d : st.ver[j] = st.nh * cfg.inner
BudgetRespected == st.nh <= cfg.max_iter
(* the run stops exactly at the first sweep whose error is below tol, or when the budget is used up *)
StopRule == st.pc \in {"return", "done"} /\ cfg.max_iter > 0 =>
               st.nh = IF stop_at \in 1..cfg.max_iter THEN stop_at ELSE cfg.max_iter
ZeroBudgetReturnsInitialWeights == cfg.max_iter = 0 => (st.nh = 0 /\ \A j \in 1..cfg.d : st.ver[j] = 0)
Terminates == <>(st.pc = "done")
=============================================================================
