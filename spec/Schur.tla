-------------------------------- MODULE Schur --------------------------------
(* C10: every Schur variant as one abstract machine.                           *)
(*   sub[i]  level of the sub-diagonal entry (i+1, i):  "big", "small"          *)
(*           (<= deflation threshold) or "zero" (deflated)                       *)
(*   low     "clean" if every entry below the first sub-diagonal is negligible,  *)
(*           "dirty" otherwise (a sweep that is not an exact Hessenberg QR step  *)
(*           may fill them)                                                      *)
(*   defl    number of deflations so far: each adds at most tol*scale to the      *)
(*           similarity error, sweeps add none (they are unitary similarities)    *)
(* DeclareConverged is enabled ONLY when every strictly-lower entry is            *)
(* negligible - that is the property's reading of "the diagnostics report         *)
(* convergence".  BudgetExhausted returns with the flag down.                     *)
EXTENDS Integers, Sequences, FiniteSets, TLC
CONSTANTS MaxN, MaxBudget
VARIABLES n, budget, k, sub, low, defl, flag, pc
vars == <<n, budget, k, sub, low, defl, flag, pc>>
Levels == {"big", "small", "zero"}

Init == /\ n \in 1..MaxN /\ budget \in 0..MaxBudget /\ k = 0
        /\ sub \in [1..n-1 -> {"big", "small"}] /\ low = "clean" /\ defl = 0
        /\ flag = FALSE /\ pc = "iter"
Sweep == /\ pc = "iter" /\ k < budget
         /\ sub' \in [1..n-1 -> Levels]
         /\ low' \in {"clean", "dirty"}
         /\ k' = k + 1 /\ UNCHANGED <<n, budget, defl, flag, pc>>
Deflate(i) == /\ pc = "iter" /\ sub[i] = "small"
              /\ sub' = [sub EXCEPT ![i] = "zero"] /\ defl' = defl + 1
              /\ UNCHANGED <<n, budget, k, low, flag, pc>>
AllLowerNegligible == low = "clean" /\ \A i \in 1..n-1 : sub[i] = "zero"
DeclareConverged == /\ pc = "iter" /\ AllLowerNegligible
                    /\ flag' = TRUE /\ pc' = "done" /\ UNCHANGED <<n, budget, k, sub, low, defl>>
BudgetExhausted == /\ pc = "iter" /\ k = budget /\ ~AllLowerNegligible
                   /\ flag' = FALSE /\ pc' = "done" /\ UNCHANGED <<n, budget, k, sub, low, defl>>
Next == Sweep \/ (\E i \in 1..n-1 : Deflate(i)) \/ DeclareConverged \/ BudgetExhausted
Spec == Init /\ [][Next]_vars

FlagSound      == pc = "done" /\ flag => AllLowerNegligible
(* similarity error budget: only deflations contribute                          *)
SimilarityBudget == defl <= (n - 1) * (k + 1)
IterBound      == k <= budget
Terminates     == pc = "done" => (flag \/ k = budget)
=============================================================================
