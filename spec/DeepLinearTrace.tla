------------------------- MODULE DeepLinearTrace -------------------------
(* Trace validation for DeepLinearNewtonSchulz.compute: the recorded calls of the inner Newton-Schulz      *)
(* solver (interposed from the harness: the solver object's NSPSolver attribute is replaced by a recording  *)
(* proxy - no source hook) are stepped through the operators of DeepLinear.tla.                             *)
(*   Start(d, inner, max_iter, layers, nsamples)                                                           *)
(*   Pinv(kind, rows, cols, match, mirror_layer, mirror_sweep)*     one per call of NSPSolver.compute       *)
(*   Return(nh, below, flags...)                                                                           *)
(* Assign and Clip have no observable event (the weights are local to compute): they are composed silently  *)
(* after the Ask that enables them; Record is composed in front of the first Pinv of the next sweep and in   *)
(* front of Return.  Clauses prefixed "M:" describe DeepLinear itself, which is outside the twenty listed    *)
(* properties: they are reported as drift.  The three unprefixed clauses are C14's.                          *)
EXTENDS DeepLinearDefs, TLC, Json, IOUtils
TraceLog == ndJsonDeserialize(IOEnv.TRACE_FILE)
VARIABLES l, tcfg, ts, lay, ns, broken, nbad
tvars == <<l, tcfg, ts, lay, ns, broken, nbad>>

(* silent steps: Assign, then Clip when the repetitions of the layer are over *)
Settle(c, s) == LET a == IF s.pc = "assign" THEN Assign(c, s) ELSE s
                IN  IF a.pc = "clip" THEN Clip(c, a) ELSE a
(* a Pinv event while the sweep is over means the error was not below tol: Record(FALSE) first *)
Resume(c, s) == IF s.pc = "record" THEN Record(c, s, FALSE) ELSE s

PinvBad(c, s0, e) ==
  LET s == Resume(c, s0) IN
       { x \in {"M:BudgetRespected"} : s0.pc = "record" /\ s.pc = "return" }
  \cup { x \in {"M:Schedule"} : s.pc \in {"askX", "askW"} /\ e.kind # (IF s.pc = "askX" THEN "X" ELSE "W") }
  \cup { x \in {"M:Schedule"} : s.pc \notin {"askX", "askW", "return"} }
  \cup { x \in {"M:FactorShape"} : s.pc = "askX" /\ e.kind = "X" /\ <<e.rows, e.cols>> # <<ns, lay[s.layer]>> }
  \cup { x \in {"M:FactorShape"} : s.pc = "askW" /\ e.kind = "W" /\ <<e.rows, e.cols>> # <<lay[s.layer + 1], lay[c.d + 1]>> }
  \cup { x \in {"M:MirrorInStep"} : s.pc \in {"askX", "askW"} /\ (e.mirror_layer # s.layer \/ e.mirror_sweep # s.sweep) }
  \cup { x \in {"M:FactorIsCurrentProduct"} : ~e.match }
PinvStep(c, s0, e) ==
  LET s == Resume(c, s0) IN
  IF s.pc = "askX" /\ e.kind = "X" THEN Settle(c, AskX(c, s))
  ELSE IF s.pc = "askW" /\ e.kind = "W" THEN Settle(c, AskW(c, s))
  ELSE s

ReturnBad(c, s0, e) ==
  LET lastbelow == IF e.nh > 0 /\ Len(e.below) = e.nh THEN e.below[e.nh] ELSE FALSE
      s == IF s0.pc = "record" THEN Record(c, s0, lastbelow) ELSE s0 IN
       { x \in {"M:Schedule"} : s0.pc \notin {"record", "return"} }                   \* returned in the middle of a sweep
  \cup { x \in {"M:StopRule"} : s0.pc = "record" /\ s.pc # "return" }                   \* neither below tol nor out of budget
  \cup { x \in {"M:HistoryCountsSweeps"} : s0.pc \in {"record", "return"} /\ e.nh # s.nh }
  \cup { x \in {"M:HistoryCountsSweeps"} : Len(e.below) # e.nh }
  \cup { x \in {"M:StopsAtFirstBelowTol"} : \E k \in 1..(Len(e.below) - 1) : e.below[k] }
  \cup { x \in {"M:ReconstructionErrorTruthful"} : ~e.truthful }
  \cup { x \in {"M:WeightsAreLastAssigned"} : ~e.weights_match }
  \cup { x \in {"M:WeightShapesFollowLayers"} : ~e.shapes_ok }
  \cup { x \in {"M:ClippedToNorm3"} : ~e.norms_ok }
  \cup { x \in {"M:ResidualsEqualDeviations"} : ~e.hist_equal }
  \cup { x \in {"ArgumentsUnchanged"} : ~e.args_unchanged }
  \cup { x \in {"ConfigStable"} : ~e.config_unchanged }
  \cup { x \in {"SameAsFreshObject"} : ~e.same_as_fresh }

TInit == /\ l = 1 /\ nbad = 0 /\ broken = FALSE /\ ns = 0 /\ lay = <<>>
         /\ tcfg = [d |-> 1, inner |-> 1, max_iter |-> 0] /\ ts = Start([d |-> 1, inner |-> 1, max_iter |-> 0])
TNext ==
  /\ l <= Len(TraceLog)
  /\ LET e == TraceLog[l] IN
     CASE e.ev = "Start" ->
            LET c == [d |-> e.d, inner |-> e.inner, max_iter |-> e.max_iter] IN
            /\ tcfg' = c /\ ts' = Start(c) /\ lay' = e.layers /\ ns' = e.nsamples /\ broken' = FALSE /\ nbad' = nbad
       [] e.ev = "Pinv" ->
            LET f == IF broken THEN {} ELSE PinvBad(tcfg, ts, e) IN
            /\ \A x \in f : PrintT(<<"V", "bad", e.tid, x>>)
            /\ nbad' = nbad + Cardinality(f)
            /\ broken' = (broken \/ \E x \in f : x \in {"M:Schedule", "M:BudgetRespected"})
            /\ ts' = IF broken' THEN ts ELSE PinvStep(tcfg, ts, e)
            /\ UNCHANGED <<tcfg, lay, ns>>
       [] e.ev = "Return" ->
            LET f == IF broken THEN ReturnBad(tcfg, ts, e) \ {"M:Schedule", "M:StopRule", "M:HistoryCountsSweeps"} ELSE ReturnBad(tcfg, ts, e) IN
            /\ \A x \in f : PrintT(<<"V", "bad", e.tid, x>>)
            /\ nbad' = nbad + Cardinality(f)
            /\ UNCHANGED <<tcfg, ts, lay, ns, broken>>
       [] OTHER -> /\ PrintT(<<"V", "bad", e.tid, "UnknownEvent">>) /\ nbad' = nbad + 1 /\ UNCHANGED <<tcfg, ts, lay, ns, broken>>
  /\ l' = l + 1
Report == l = Len(TraceLog) + 1 => PrintT(<<"V", "consumed", l - 1>>)
=============================================================================
