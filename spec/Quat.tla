------------------------------- MODULE Quat -------------------------------
(* Quaternions over the integers (Lipschitz quaternions) as 4-tuples       *)
(* <<w, x, y, z>> = w + x i + y j + z k.  Everything here is written from  *)
(* the defining relations i^2 = j^2 = k^2 = ijk = -1, not from the code.   *)
EXTENDS Integers, Sequences

QZero == <<0, 0, 0, 0>>
QOne  == <<1, 0, 0, 0>>
QI    == <<0, 1, 0, 0>>
QJ    == <<0, 0, 1, 0>>
QK    == <<0, 0, 0, 1>>

QAdd(p, q) == <<p[1] + q[1], p[2] + q[2], p[3] + q[3], p[4] + q[4]>>
QSub(p, q) == <<p[1] - q[1], p[2] - q[2], p[3] - q[3], p[4] - q[4]>>
QNeg(p)    == <<-p[1], -p[2], -p[3], -p[4]>>
QScale(c, p) == <<c * p[1], c * p[2], c * p[3], c * p[4]>>
QConj(p)   == <<p[1], -p[2], -p[3], -p[4]>>

(* Hamilton product: 16 signed terms.                                      *)
(*   ij = k, jk = i, ki = j,  ji = -k, kj = -i, ik = -j                    *)
QMul(p, q) ==
  << p[1]*q[1] - p[2]*q[2] - p[3]*q[3] - p[4]*q[4],
     p[1]*q[2] + p[2]*q[1] + p[3]*q[4] - p[4]*q[3],
     p[1]*q[3] - p[2]*q[4] + p[3]*q[1] + p[4]*q[2],
     p[1]*q[4] + p[2]*q[3] - p[3]*q[2] + p[4]*q[1] >>

QNorm2(p) == p[1]*p[1] + p[2]*p[2] + p[3]*p[3] + p[4]*p[4]

(* The eight units, and the four basis units.                              *)
Basis == <<QOne, QI, QJ, QK>>
Q8    == { QOne, QI, QJ, QK, QNeg(QOne), QNeg(QI), QNeg(QJ), QNeg(QK) }

QCube(r) == { <<a, b, c, d>> : a \in -r..r, b \in -r..r, c \in -r..r, d \in -r..r }

(* Lemmas, checked by TLC on a bounded cube (spec QuatLemmas.tla).         *)
LemmaDefining  == /\ QMul(QI, QI) = QNeg(QOne) /\ QMul(QJ, QJ) = QNeg(QOne)
                  /\ QMul(QK, QK) = QNeg(QOne)
                  /\ QMul(QMul(QI, QJ), QK) = QNeg(QOne)
                  /\ QMul(QI, QJ) = QK /\ QMul(QJ, QI) = QNeg(QK)
LemmaAssoc(S)  == \A p \in S, q \in S, r \in S :
                     QMul(QMul(p, q), r) = QMul(p, QMul(q, r))
LemmaConj(S)   == \A p \in S, q \in S :
                     QConj(QMul(p, q)) = QMul(QConj(q), QConj(p))
LemmaNorm(S)   == \A p \in S, q \in S :
                     QNorm2(QMul(p, q)) = QNorm2(p) * QNorm2(q)
LemmaDistrib(S) == \A p \in S, q \in S, r \in S :
                     /\ QMul(p, QAdd(q, r)) = QAdd(QMul(p, q), QMul(p, r))
                     /\ QMul(QAdd(p, q), r) = QAdd(QMul(p, r), QMul(q, r))
=============================================================================
