--------------------------- MODULE SketchSolvers ---------------------------
(* C13: sketch-and-project / hybrid / CGNE pseudoinverse solvers as one         *)
(* abstract machine over residual LEVELS (0 = at tolerance or below).            *)
(*  Draw        a random sketch is drawn                                          *)
(*  MicroSolve  the small system is solved by one of: "qr", "spd-cg",             *)
(*              "ns-fallback" (CG failed, Newton-Schulz inverse used) or          *)
(*              "failed" (the step is SKIPPED: X and the history are unchanged)    *)
(*  Update      X changes, then the proxy residual OF THE NEW X is appended        *)
(*  Hyperpower  (hybrid) an exact Newton-Schulz step, proxy appended               *)
(* The flag and the counters are functions of the history:                         *)
(*     converged <=> hist # <<>> /\ Last(hist) = 0 ;  iterations = Len(hist)       *)
(* and Last(hist) is the level of the RETURNED iterate.                            *)
EXTENDS Integers, Sequences, TLC
CONSTANTS MaxIter, Levels
VARIABLES k, lvl, hist, micro, pc, ret
vars == <<k, lvl, hist, micro, pc, ret>>
Init == k = 0 /\ lvl \in 1..Levels /\ hist = <<>> /\ micro = "none" /\ pc = "draw" /\ ret = <<>>
Draw == pc = "draw" /\ k < MaxIter /\ pc' = "micro" /\ UNCHANGED <<k, lvl, hist, micro, ret>>
MicroSolve == /\ pc = "micro"
              /\ micro' \in {"qr", "spd-cg", "ns-fallback", "failed"}
              /\ pc' = IF micro' = "failed" THEN "skip" ELSE "update"
              /\ UNCHANGED <<k, lvl, hist, ret>>
Skip == pc = "skip" /\ k' = k + 1 /\ pc' = "draw" /\ UNCHANGED <<lvl, hist, micro, ret>>   \* X, hist untouched
Update == /\ pc = "update"
          /\ \E nl \in 0..Levels : lvl' = nl /\ hist' = Append(hist, nl)      \* sketch-and-project is not monotone per step
          /\ k' = k + 1
          /\ pc' = IF lvl' = 0 THEN "return" ELSE "draw"
          /\ UNCHANGED <<micro, ret>>
Budget == pc = "draw" /\ k = MaxIter /\ pc' = "return" /\ UNCHANGED <<k, lvl, hist, micro, ret>>
Return == /\ pc = "return"
          /\ ret' = [converged |-> (hist # <<>> /\ hist[Len(hist)] = 0), iterations |-> Len(hist),
                     last |-> IF hist = <<>> THEN -1 ELSE hist[Len(hist)], xlvl |-> lvl]
          /\ pc' = "done" /\ UNCHANGED <<k, lvl, hist, micro>>
Next == Draw \/ MicroSolve \/ Skip \/ Update \/ Budget \/ Return
Spec == Init /\ [][Next]_vars
Done == pc = "done"
FlagIsLastBelowTol == Done => (ret.converged <=> (ret.iterations > 0 /\ ret.last = 0))
HistoryOfReturnedIterate == Done /\ ret.iterations > 0 => ret.last = ret.xlvl
ConvergedSound == Done /\ ret.converged => ret.xlvl = 0
ItersIsHistLen == Done => ret.iterations = Len(hist) /\ ret.iterations <= MaxIter
SkippedLeavesStateUnchanged == [][pc = "skip" => (lvl' = lvl /\ hist' = hist)]_vars
=============================================================================
