----------------------------- MODULE LibraryDefs -----------------------------
(* Abstract matrix descriptors and the composed contracts of the public         *)
(* operations: Out(op, a, b) is the set of result-descriptor sequences the        *)
(* operation may produce for operand descriptors a (and b).  Used by Library.tla   *)
(* (actions choose from Out) and LibraryTrace.tla (recorded results must be in Out). *)
EXTENDS Integers, Sequences, FiniteSets
Min2(a, b) == IF a < b THEN a ELSE b
Max2(a, b) == IF a > b THEN a ELSE b
D(m, n, r, o, h, t) == [m |-> m, n |-> n, r |-> r, orth |-> o, herm |-> h, tri |-> t]
WellFormed(d) == /\ d.m >= 1 /\ d.n >= 1 /\ d.r >= 0 /\ d.r <= Min2(d.m, d.n)
                 /\ (d.orth => d.r = d.n /\ d.m >= d.n)
                 /\ (d.herm => d.m = d.n)
Ops1 == {"herm", "gram", "qr", "svd", "null", "pinv", "hess", "eig", "lu", "tridiag", "nullL", "trunc1", "schur"}
Enabled1(op, a) ==
  CASE op = "null" -> a.r < a.n
    [] op = "nullL" -> a.r < a.m
    [] op = "hess" -> a.m = a.n
    [] op = "schur" -> a.m = a.n
    [] op = "eig"  -> a.herm
    [] op = "tridiag" -> a.herm /\ a.n >= 2
    [] op = "lu"   -> a.r = Min2(a.m, a.n)          \* documented domain: every column of the leading block has a pivot
    [] op = "trunc1" -> a.r >= 1
    [] OTHER -> TRUE
(* flags that are not determined by the contract are left free (BOOLEAN)        *)
Out1(op, a) ==
  LET k == Min2(a.m, a.n) IN
  CASE op = "herm" -> { << D(a.n, a.m, a.r, o, a.herm, t) >> : o \in (IF a.orth /\ a.m = a.n THEN {TRUE} ELSE BOOLEAN), t \in BOOLEAN }
    [] op = "gram" -> { << D(a.n, a.n, a.r, o, TRUE, t) >> : o \in BOOLEAN, t \in BOOLEAN }
    [] op = "qr"   -> { << D(a.m, k, k, TRUE, h1, t1), D(k, a.n, a.r, o2, h2, TRUE) >> :
                           h1 \in BOOLEAN, t1 \in BOOLEAN, o2 \in BOOLEAN, h2 \in BOOLEAN }
    [] op = "svd"  -> { << D(a.m, a.m, a.m, TRUE, h1, t1), D(a.n, a.n, a.n, TRUE, h2, t2) >> :
                           h1 \in BOOLEAN, t1 \in BOOLEAN, h2 \in BOOLEAN, t2 \in BOOLEAN }
    [] op = "null" -> { << D(a.n, a.n - a.r, a.n - a.r, o, h, t) >> : o \in BOOLEAN, h \in BOOLEAN, t \in BOOLEAN }
    [] op = "pinv" -> { << D(a.n, a.m, a.r, o, h, t) >> :
                           o \in (IF a.orth /\ a.m = a.n THEN {TRUE} ELSE BOOLEAN),
                           h \in (IF a.herm THEN {TRUE} ELSE BOOLEAN), t \in BOOLEAN }
    [] op = "hess" -> { << D(a.n, a.n, a.n, TRUE, h1, t1), D(a.n, a.n, a.r, o2, h2, t2) >> :
                           h1 \in BOOLEAN, t1 \in BOOLEAN, o2 \in BOOLEAN,
                           h2 \in (IF a.herm THEN {TRUE} ELSE BOOLEAN), t2 \in BOOLEAN }
    [] op = "eig"  -> { << D(a.n, a.n, a.n, TRUE, h, t) >> : h \in BOOLEAN, t \in BOOLEAN }
    (* P A = L U: L unit lower trapezoidal (full column rank), U upper trapezoidal of the rank of A, P a permutation  *)
    [] op = "lu"   -> { << D(a.m, k, k, o1, h1, t1), D(k, a.n, a.r, o2, h2, TRUE), D(a.m, a.m, a.m, TRUE, h3, t3) >> :
                           o1 \in BOOLEAN, h1 \in BOOLEAN, t1 \in BOOLEAN, o2 \in BOOLEAN, h2 \in BOOLEAN, h3 \in BOOLEAN, t3 \in BOOLEAN }
    (* P A P^H = B: unitary P, Hermitian (real tridiagonal) B of the same rank                                          *)
    [] op = "tridiag" -> { << D(a.n, a.n, a.n, TRUE, h1, t1), D(a.n, a.n, a.r, o2, TRUE, t2) >> :
                           h1 \in BOOLEAN, t1 \in BOOLEAN, o2 \in BOOLEAN, t2 \in BOOLEAN }
    [] op = "nullL" -> { << D(a.m, a.m - a.r, a.m - a.r, o, h, t) >> : o \in BOOLEAN, h \in BOOLEAN, t \in BOOLEAN }
    (* leading singular triple: unit-norm left and right vectors                                                         *)
    [] op = "trunc1" -> { << D(a.m, 1, 1, TRUE, h1, t1), D(a.n, 1, 1, TRUE, h2, t2) >> :
                           h1 \in BOOLEAN, t1 \in BOOLEAN, h2 \in BOOLEAN, t2 \in BOOLEAN }
    (* A = Q T Q^H whether or not the iteration converged: unitary Q, T of the rank of A                                 *)
    [] op = "schur" -> { << D(a.n, a.n, a.n, TRUE, h1, t1), D(a.n, a.n, a.r, o2, h2, t2) >> :
                           h1 \in BOOLEAN, t1 \in BOOLEAN, o2 \in BOOLEAN, h2 \in BOOLEAN, t2 \in BOOLEAN }
OutMul(a, b) ==
  { << D(a.m, b.n, r, o, h, t) >> :
      r \in { x \in Max2(0, a.r + b.r - a.n)..Min2(a.r, b.r) :
                 /\ (b.orth /\ b.m = b.n => x = a.r) /\ (a.orth /\ a.m = a.n => x = b.r)
                 /\ (a.orth => x = b.r) },                                   \* orthonormal columns on the left keep the rank
      o \in (IF a.orth /\ b.orth THEN {TRUE} ELSE BOOLEAN), h \in BOOLEAN,
      t \in (IF a.tri /\ b.tri THEN {TRUE} ELSE BOOLEAN) }
AllWF(ds) == \A k \in 1..Len(ds) : WellFormed(ds[k])
Out1W(op, a) == { ds \in Out1(op, a) : AllWF(ds) }
OutMulW(a, b) == { ds \in OutMul(a, b) : AllWF(ds) }
(* scalar results: rank / number of non-zero singular values / eigenvalues       *)
ValueOK(op, a, v) ==
  CASE op = "rank" -> v.nonzero = a.r
    [] op = "svd"  -> v.nonzero = a.r /\ v.count = Min2(a.m, a.n)
    [] op = "eig"  -> v.nonzero = a.r /\ v.count = a.n
    [] op = "det"  -> v.nonzero = (IF a.r = a.n THEN 1 ELSE 0)        \* zero iff singular
    [] OTHER -> TRUE
=============================================================================
