--------------------------- MODULE AlgebraTrace ---------------------------
(* Validates recorded executions of the real product / conjugate-transpose  *)
(* / norm routines against the definitions of QMat.tla.  One ndjson line    *)
(* per call; TLC recomputes every exact result.  Verdicts are total: a bad  *)
(* line adds <<tid, clause>> and the trace goes on.                          *)
EXTENDS QMat, TLC, Json, IOUtils

CONSTANTS UnitsBound   \* bound (units of 2^-52*scale*size) for float events

TraceLog == ndJsonDeserialize(IOEnv.TRACE_FILE)

VARIABLES l, nbad
tvars == <<l, nbad>>

(* JSON arrays arrive as sequences; a matrix is seq of seq of 4-seq         *)
Failed(e) ==
  CASE e.op = "mul" ->
         (* every storage path returned e.C for operands e.A, e.B          *)
         { c \in {"ProductIsHamilton"} : e.C # MMul(e.A, e.B) }
           \cup { c \in {"ProductShape"} : Len(e.C) # Len(e.A) \/ Len(e.C[1]) # Len(e.B[1]) }
    [] e.op = "herm" ->
         { c \in {"HermIsConjTranspose"} : e.H # MHerm(e.A) }
    [] e.op = "fro" ->
         (* e.n2 = round(norm^2) measured on an integer matrix             *)
         { c \in {"FroIsRootSumSquares"} : e.n2 # Fro2(e.A) }
    [] e.op = "funit" ->
         (* float operands: deviation between path result and oracle       *)
         { c \in {"PathsAgreeToRounding"} : e.units > UnitsBound }
    [] OTHER -> {"UnknownEvent"}

TInit == l = 1 /\ nbad = 0
TNext ==
  /\ l <= Len(TraceLog)
  /\ LET e == TraceLog[l]
         f == Failed(e)
     IN  /\ \A c \in f : PrintT(<<"V", "bad", e.tid, c>>)
         /\ nbad' = nbad + Cardinality(f)
  /\ l' = l + 1
TSpec == TInit /\ [][TNext]_tvars
Report == l = Len(TraceLog) + 1 => PrintT(<<"V", "consumed", l - 1>>)
=============================================================================
