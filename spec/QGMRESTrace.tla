----------------------------- MODULE QGMRESTrace -----------------------------
(* Trace validation for Q-GMRES.  Each solve of the real code is recorded as  *)
(*   Start(N, g, cap, tol, prec, ...)  Cycle(m, res)*  Return(...)            *)
(* plus cross-run events (Pair: preconditioner / scaling independence; Opt:   *)
(* per-cycle optimality).  Reals are logged as Lg = round(64 log2 x).         *)
(* Two kinds of verdicts, both total:                                        *)
(*   property clauses (P)   -> <<"V","bad",tid,clause>>   VIOLATION           *)
(*   mechanism steps  (M)   -> clause names starting "M:" DRIFT               *)
EXTENDS Integers, Sequences, FiniteSets, TLC, Json, IOUtils

CONSTANTS SlackTruth,   \* Lg slack for info.residual = true residual
          SlackConv,    \* Lg slack for converged => true residual <= tol
          SlackMono,    \* Lg slack for the history never increasing
          Floor,        \* Lg value below which residuals are rounding noise
          OptSlack      \* 2^-15 fixed point slack on the optimality ratio

NoCap == 99
FloorV == -2816
FxOne == 32768
TraceLog == ndJsonDeserialize(IOEnv.TRACE_FILE)

VARIABLES l, pc, m, last, par, nbad
tvars == <<l, pc, m, last, par, nbad>>

Max2(a, b) == IF a > b THEN a ELSE b
Small(x, tol) == x <= Max2(tol, Floor)

(* property clauses on a Return event, given the Start parameters p          *)
RetBad(e, p) ==
     { c \in {"Finite"}      : ~e.finite }
  \cup { c \in {"Truthful"}  : e.finite /\ ~( \/ (e.info_lg <= Floor + p.condA_lg /\ e.true_lg <= Floor + p.condA_lg)   \* both at the rounding level eps*cond(A) of forming b - A x
                                              \/ (e.info_lg - e.true_lg <= SlackTruth /\ e.true_lg - e.info_lg <= SlackTruth) ) }
  \cup { c \in {"ConvSound"} : e.finite /\ e.converged /\ ~Small(e.true_lg, p.tol_lg + SlackConv + p.cond_lg) }
  \cup { c \in {"AtMostN"}   : e.finite /\ p.cap = NoCap /\ ~p.bzero /\ p.tol_lg >= Floor + p.cond_lg
                                 /\ ~(e.converged /\ Small(e.true_lg, p.tol_lg + SlackConv + p.cond_lg) /\ e.iters <= p.N) }
  \cup { c \in {"ZeroRhsZero"} : p.bzero /\ ~(e.xzero /\ e.finite) }
  \cup { c \in {"IterBound"} : e.iters > p.N \/ (p.cap # NoCap /\ e.iters > p.cap + 1) }
(* mechanism: Return is enabled only when the stop test holds               *)
RetDrift(e, p) ==
     { c \in {"M:ReturnEnabled"} : ~p.bzero /\ ~(pc = "test" /\ (last < p.tol_lg \/ m > p.cap \/ m = p.N)) }
  \cup { c \in {"M:ItersIsM"}    : ~p.bzero /\ e.iters # m }
  \cup { c \in {"M:ConvergedIsLastBelowTol"} : ~p.bzero /\ pc = "test" /\ e.converged # (last < p.tol_lg) }
  \cup { c \in {"M:ZeroRhsNoCycle"} : p.bzero /\ m # 0 }
  \cup { c \in {"M:GradeCycles"} : ~p.bzero /\ p.tol_lg <= Floor + 640 /\ p.cap = NoCap /\ p.geff > 0 /\ p.condA_lg <= 256   \* exact-arithmetic statement: well-conditioned systems only
                                  /\ e.iters # p.geff }

Bad(e) ==
  CASE e.ev = "Start"  -> {}
    [] e.ev = "Cycle"  ->
         { c \in {"HistMono"}    : pc = "test" /\ last > Floor /\ e.res_lg > last + SlackMono }
         \cup { c \in {"M:CycleOrder"} : e.m # m + 1 \/ ~(pc \in {"cycle", "test"}) }
         (* a cycle cut short (Hessenberg system smaller than m) claims an invariant Krylov space: its  *)
         (* iterate must then solve the system to ROUNDING level, not merely to the tolerance           *)
         \cup { c \in {"ShortCycleOnlyWhenInvariant"} : e.kdim < e.m /\ e.res_lg > Floor + par.condA_lg + 256 }
         \cup { c \in {"M:KdimAtMostM"} : e.kdim > e.m }
         \cup { c \in {"M:BreakdownAtGrade"} : e.kdim < e.m /\ par.condA_lg <= 256 /\ e.kdim # par.geff }
         \cup { c \in {"M:CycleAfterStop"} : pc = "test" /\ (last < par.tol_lg \/ m > par.cap \/ m = par.N) }
    [] e.ev = "Return" -> RetBad(e, par) \cup RetDrift(e, par)
    [] e.ev = "Pair"   -> { c \in {"PrecIndependent"}  : e.kind = "prec"  /\ e.diff_lg > e.bound_lg }
                          \cup { c \in {"ScaleIndependent"} : e.kind = "scale" /\ e.diff_lg > e.bound_lg }
                          \cup { c \in {"StorageIndependent"} : e.kind = "sparse" /\ e.diff_lg > e.bound_lg }
                          \cup { c \in {"ReusedSolverAnswersCurrentSystem"} : e.kind = "reuse" /\ e.diff_lg > e.bound_lg }
    [] e.ev = "Opt"    -> { c \in {"CycleOptimal"} : e.res_lg > Floor + e.cond_lg + 128 /\ e.ratio_fx > FxOne + OptSlack }   \* above the rounding level of the oracle's own least-squares solve
    [] OTHER -> {"UnknownEvent"}

TInit == l = 1 /\ pc = "idle" /\ m = 0 /\ last = 0 /\ par = <<>> /\ nbad = 0

TNext ==
  /\ l <= Len(TraceLog)
  /\ LET e == TraceLog[l]
         f == Bad(e)
     IN  /\ \A c \in f : PrintT(<<"V", "bad", e.tid, c>>)
         /\ nbad' = nbad + Cardinality(f)
         /\ CASE e.ev = "Start"  -> pc' = "cycle" /\ m' = 0 /\ last' = 0 /\ par' = e
              [] e.ev = "Cycle"  -> pc' = "test" /\ m' = e.m /\ last' = e.res_lg /\ UNCHANGED par
              [] e.ev = "Return" -> pc' = "idle" /\ UNCHANGED <<m, last, par>>
              [] OTHER           -> UNCHANGED <<pc, m, last, par>>
  /\ l' = l + 1
Report == l = Len(TraceLog) + 1 => PrintT(<<"V", "consumed", l - 1>>)
=============================================================================
