---------------------------- MODULE NewtonSchulz ----------------------------
(* C03: the Newton-Schulz pseudoinverse iterations in the singular basis.     *)
(* For A = U diag(s) V^H and X0 = A^H / ||A||_F^2 every iterate is             *)
(* X_k = V diag(t_i(k) / s_i) U^H with one scalar per singular value:         *)
(*     t_i(0) = s_i^2 / sum_j s_j^2                                            *)
(*     damped (gamma = g/4):   t <- t (1 + gamma (1 - t))                      *)
(*     third order:            t <- 1 - (1 - t)^3                              *)
(* zero singular values stay at t = 0.  Reals in [0,1] are 2^-15 fixed point   *)
(* (S = 32768 is 1.0); the maps are evaluated with upward rounding, so a grid  *)
(* point is a fixed point iff the real map fixes it.                           *)
(* History conventions of the implementation (named, and checked on traces):  *)
(*   covariance entry k is || X_k A - I || of the iterate ENTERING step k+1,    *)
(*   residual entry k is measured on the iterate AFTER step k+1.               *)
EXTENDS Integers, Sequences, FiniteSets, TLC

CONSTANTS MaxRank, SVals, Gammas, MaxK
S == 32768

VARIABLES solver, g, s, t, k, hist, pc
vars == <<solver, g, s, t, k, hist, pc>>

RECURSIVE SumF(_, _, _)
SumF(f, a, b) == IF a > b THEN 0 ELSE f[a] + SumF(f, a + 1, b)
CeilDiv(a, b) == (a + b - 1) \div b
NonIncr(f) == \A i \in 1..Len(f) - 1 : f[i] >= f[i + 1]

T0(sv) == LET tot == SumF([i \in 1..Len(sv) |-> sv[i] * sv[i]], 1, Len(sv))
          IN [i \in 1..Len(sv) |-> IF tot = 0 THEN 0 ELSE (sv[i] * sv[i] * S) \div tot]
Damped(x, gg) == x + CeilDiv(gg * x * (S - x), 4 * S)
(* 1 - (1-t)^3 : u = S - t ; u^3 / S^2 computed in two steps to stay in 32 bits *)
Cubic(x) == LET u == S - x  u2 == (u * u) \div S  u3 == (u2 * u) \div S IN S - u3
(* E1^2 = sum s_i^2 (1 - t_i)^2, scaled: (S-t) >> 5 keeps the sum in range    *)
E1sq(sv, tv) == SumF([i \in 1..Len(sv) |-> sv[i] * sv[i] * (((S - tv[i]) \div 32) * ((S - tv[i]) \div 32))], 1, Len(sv))

Init ==
  /\ solver \in {"damped", "cubic"}
  /\ g \in Gammas /\ (solver = "cubic" => g = 4)
  /\ \E r \in 0..MaxRank : s \in { f \in [1..r -> SVals] : NonIncr(f) }
  /\ t = T0(s) /\ k = 0 /\ hist = <<>> /\ pc = "iter"

Step ==
  /\ pc = "iter" /\ k < MaxK
  /\ t' = [i \in 1..Len(s) |-> IF s[i] = 0 THEN 0
                               ELSE IF solver = "damped" THEN Damped(t[i], g) ELSE Cubic(t[i])]
  /\ k' = k + 1
  /\ hist' = Append(hist, E1sq(s, t'))          \* residual history: AFTER the update
  /\ UNCHANGED <<solver, g, s, pc>>
StopBudget == pc = "iter" /\ k = MaxK /\ pc' = "done" /\ UNCHANGED <<solver, g, s, t, k, hist>>
Next == Step \/ StopBudget
Spec == Init /\ [][Next]_vars

InUnit       == \A i \in 1..Len(s) : t[i] \in 0..S
ZeroStays    == \A i \in 1..Len(s) : s[i] = 0 => t[i] = 0
HistLen      == Len(hist) = k
HistMonotone == \A j \in 1..Len(hist) - 1 : hist[j + 1] <= hist[j]
(* action properties: every t_i is non-decreasing, strictly increasing in (0,1) *)
Monotone     == [][\A i \in 1..Len(s) : t'[i] >= t[i]]_vars
OneAttracts  == [][k' = k + 1 => \A i \in 1..Len(s) : (t[i] > 0 /\ t[i] < S) => t'[i] > t[i]]_vars
(* the only fixed points of the maps on the grid are 0 and 1                   *)
ASSUME \A x \in 0..S : \A gg \in 1..4 : (Damped(x, gg) = x) <=> (x = 0 \/ x = S)
ASSUME \A x \in 0..S : (Cubic(x) = x) => (x = 0 \/ x = S \/ (S - x) * (S - x) < 2 * S)
ASSUME \A x \in 0..S : \A gg \in 1..4 : Damped(x, gg) \in x..S
=============================================================================
