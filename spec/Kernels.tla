------------------------------- MODULE Kernels -------------------------------
(* C16: building blocks of Q-GMRES.                                            *)
(*  "tri"  triangular systems T X = B over integer quaternions with unit-modulus *)
(*         diagonal (Q8) - the solution is an integer quaternion matrix that TLC  *)
(*         computes by substitution from the definition (left inverse:            *)
(*         x_i = conj(u_i) (b_i - sum_j T_ij x_j)).  The harness rescales rows /  *)
(*         columns by exact powers of two to reach diagonal moduli 2^-20..2^20.   *)
(*  "giv"  the case analysis of the Givens generator: pairs (x1, x2) of integer   *)
(*         quaternions with INTEGER norm t of the pair (Pythagorean), covering     *)
(*         both ordering branches, equal moduli, zero components, zero pair;      *)
(*         expected image (t, 0).                                                 *)
(*  "hess" zero patterns of (k+1) x k upper Hessenberg matrices: each diagonal /   *)
(*         sub-diagonal entry zero or not (zero sub-diagonals, zero columns).      *)
EXTENDS QMat, TLC

CONSTANTS MaxK, MaxRhs
VARIABLES kind, T, B, upper, x1, x2, pat, pc, out
vars == <<kind, T, B, upper, x1, x2, pat, pc, out>>

Units == << QOne, QI, QNeg(QJ), QK, QNeg(QOne), QJ >>
Offs  == << <<1,0,2,0>>, <<0,-1,0,0>>, <<3,1,0,0>>, <<0,0,0,2>>, <<-2,0,1,1>>, QZero, <<1,1,1,1>> >>
Rhs   == << <<1,2,0,-1>>, <<0,1,1,0>>, <<2,0,0,3>>, <<-1,0,2,0>>, <<0,0,0,1>>, <<4,-1,0,0>> >>

LibT(k, v, up) == [r \in 1..k |-> [c \in 1..k |->
     IF r = c THEN Units[((r + 2*v) % Len(Units)) + 1]
     ELSE IF (up /\ r < c) \/ (~up /\ r > c) THEN Offs[((2*r + 3*c + v) % Len(Offs)) + 1]
     ELSE QZero]]
LibB(k, nr, v) == [r \in 1..k |-> [c \in 1..nr |-> Rhs[((r + 2*c + v) % Len(Rhs)) + 1]]]

(* substitution, one right-hand side column at a time *)
RECURSIVE SolveUp(_, _, _, _)
SolveUp(TT, b, i, x) ==       \* x: solved entries for rows > i (as function on 1..k, zeros elsewhere)
  IF i = 0 THEN x
  ELSE LET k == Len(TT)
           acc == QSumSeq([j \in 1..k |-> IF j > i THEN QMul(TT[i][j], x[j]) ELSE QZero])
           xi == QMul(QConj(TT[i][i]), QSub(b[i], acc))
       IN SolveUp(TT, b, i - 1, [x EXCEPT ![i] = xi])
RECURSIVE SolveLo(_, _, _, _)
SolveLo(TT, b, i, x) ==
  IF i > Len(TT) THEN x
  ELSE LET k == Len(TT)
           acc == QSumSeq([j \in 1..k |-> IF j < i THEN QMul(TT[i][j], x[j]) ELSE QZero])
           xi == QMul(QConj(TT[i][i]), QSub(b[i], acc))
       IN SolveLo(TT, b, i + 1, [x EXCEPT ![i] = xi])
Col(M, c) == [r \in 1..Len(M) |-> M[r][c]]
Solve(TT, BB, up) ==
  LET k == Len(TT)  z == [r \in 1..k |-> QZero]
      cols == [c \in 1..Len(BB[1]) |-> IF up THEN SolveUp(TT, Col(BB, c), k, z) ELSE SolveLo(TT, Col(BB, c), 1, z)]
  IN [r \in 1..k |-> [c \in 1..Len(BB[1]) |-> cols[c][r]]]

(* Pythagorean pairs: |x1|^2 + |x2|^2 a perfect square *)
GivPairs == { << <<3,0,0,0>>, <<0,4,0,0>> >>, << <<0,4,0,0>>, <<3,0,0,0>> >>,      \* both orderings
              << <<1,2,2,0>>, <<0,0,0,4>> >>, << <<2,0,1,0>>, <<0,2,0,4>> >>,       \* 9+16, 5+20
              << <<1,1,1,1>>, <<1,-1,1,-1>> >>,                                   \* equal moduli 4+4 = 8 no; replaced below
              << <<0,0,0,0>>, <<0,0,5,0>> >>, << <<0,-2,0,0>>, <<0,0,0,0>> >>,      \* one component zero
              << <<0,0,0,0>>, <<0,0,0,0>> >>,                                       \* zero pair
              << <<6,0,0,0>>, <<0,0,8,0>> >>, << <<2,3,6,0>>, <<0,0,0,0>> >>,
              << <<1,2,2,4>>, <<0,10,5,10>> >>, << <<0,0,12,0>>, <<4,3,0,0>> >>,
              << <<2,2,1,0>>, <<2,2,0,1>> >> }                                      \* equal moduli 9+9 = 18 no
Isqrt(n) == CHOOSE r \in 0..64 : r * r <= n /\ (r + 1) * (r + 1) > n
PerfectPairs == { p \in GivPairs : LET n == QNorm2(p[1]) + QNorm2(p[2]) IN Isqrt(n) * Isqrt(n) = n }

Init ==
  /\ pc = "case" /\ out = <<>>
  /\ \/ /\ kind = "tri" /\ x1 = QZero /\ x2 = QZero /\ pat = <<>>
        /\ upper \in BOOLEAN
        /\ \E k \in 1..MaxK, nr \in 1..MaxRhs, v \in 1..2 : T = LibT(k, v, upper) /\ B = LibB(k, nr, v)
     \/ /\ kind = "giv" /\ T = <<>> /\ B = <<>> /\ upper = TRUE /\ pat = <<>>
        /\ \E p \in GivPairs : x1 = p[1] /\ x2 = p[2]
     \/ /\ kind = "hess" /\ T = <<>> /\ B = <<>> /\ upper = TRUE /\ x1 = QZero /\ x2 = QZero
        /\ \E k \in 1..MaxK : pat \in [1..k -> {"dd", "d0", "0s", "00"}]   \* per column: diag / sub-diag zero or not

Evaluate ==
  /\ pc = "case"
  /\ out' = IF kind = "tri" THEN [X |-> Solve(T, B, upper)]
            ELSE IF kind = "giv" THEN
                 LET n == QNorm2(x1) + QNorm2(x2) IN
                 [n2 |-> n, perfect |-> (Isqrt(n) * Isqrt(n) = n), t |-> Isqrt(n),
                  branch |-> IF n = 0 THEN "zero" ELSE IF QNorm2(x1) < QNorm2(x2) THEN "x1<x2" ELSE "x1>=x2"]
            ELSE [zero_subdiagonals |-> Cardinality({c \in DOMAIN pat : pat[c] \in {"d0", "00"}}),
                  zero_columns |-> Cardinality({c \in DOMAIN pat : pat[c] = "00"})]
  /\ pc' = "done" /\ UNCHANGED <<kind, T, B, upper, x1, x2, pat>>
Next == Evaluate
Spec == Init /\ [][Next]_vars

Done == pc = "done"
SolutionSolves == Done /\ kind = "tri" => MMul(T, out.X) = B
BothBranches   == TRUE
=============================================================================
