----------------------------- MODULE DeblurDefs -----------------------------
(* C17: the documented blur operator, in exact integer arithmetic.            *)
(* Images and point-spread functions are matrices (sequences of rows) of       *)
(* integers, 1-based.  The PSF is centred on its middle tap                     *)
(* (cH, cW) = (kH \div 2, kW \div 2) (0-based), i.e. tap (u,v) has offset        *)
(* (u - cH, v - cW); the boundary is periodic:                                   *)
(*   Blur(X)[i,j] = sum_{u,v} psf[u,v] * X[(i-(u-cH)) mod H, (j-(v-cW)) mod W]   *)
EXTENDS Integers, Sequences

RECURSIVE SumSeq(_)
SumSeq(s) == IF s = <<>> THEN 0 ELSE Head(s) + SumSeq(Tail(s))
Sum2(M) == SumSeq([i \in 1..Len(M) |-> SumSeq(M[i])])

(* 0-based helpers on 1-based sequences *)
At(M, i, j) == M[i + 1][j + 1]
Hh(M) == Len(M)
Ww(M) == Len(M[1])

CircConv(X, psf) ==
  LET H == Hh(X)  W == Ww(X)  kH == Hh(psf)  kW == Ww(psf)
      cH == kH \div 2  cW == kW \div 2
  IN [i \in 1..H |-> [j \in 1..W |->
        SumSeq([u \in 1..kH |-> SumSeq([v \in 1..kW |->
            At(psf, u-1, v-1) * At(X, ((i-1) - ((u-1) - cH)) % H, ((j-1) - ((v-1) - cW)) % W)])])]]

(* explicit operator: row-major vec, N = H*W; entry (r,c) is the coefficient  *)
(* of X[p,q] (c = p*W+q) in Blur(X)[i,j] (r = i*W+j)                           *)
ConvMatrix(psf, H, W) ==
  LET kH == Hh(psf)  kW == Ww(psf)  cH == kH \div 2  cW == kW \div 2  N == H * W
  IN [r \in 1..N |-> [c \in 1..N |->
        LET i == (r-1) \div W  j == (r-1) % W  p == (c-1) \div W  q == (c-1) % W
        IN SumSeq([u \in 1..kH |-> SumSeq([v \in 1..kW |->
              IF (i - ((u-1) - cH)) % H = p /\ (j - ((v-1) - cW)) % W = q
              THEN At(psf, u-1, v-1) ELSE 0])])]]

Vec(X) == [r \in 1..Hh(X) * Ww(X) |-> At(X, (r-1) \div Ww(X), (r-1) % Ww(X))]
MatVec(A, x) == [r \in 1..Len(A) |-> SumSeq([c \in 1..Len(x) |-> A[r][c] * x[c]])]

Impulse(H, W, p, q) == [i \in 1..H |-> [j \in 1..W |-> IF i - 1 = p /\ j - 1 = q THEN 1 ELSE 0]]
SingleTap(kH, kW, u, v) == [a \in 1..kH |-> [b \in 1..kW |-> IF a - 1 = u /\ b - 1 = v THEN 1 ELSE 0]]
=============================================================================
