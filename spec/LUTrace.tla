------------------------------ MODULE LUTrace ------------------------------
(* Property monitor for recorded executions of quaternion_lu on arbitrary   *)
(* (float) inputs.  One line per pair of calls (three-output and two-output *)
(* mode on the same matrix).  Discrete structure is decided here; residuals  *)
(* are logged in units of 2^-52 * scale * size and bounded here.             *)
EXTENDS Integers, Sequences, FiniteSets, TLC, Json, IOUtils

CONSTANTS UnitsBound,   \* reconstruction bound in units
          MultSlack     \* slack on |multiplier| <= 1 in 2^-15 fixed point

TraceLog == ndJsonDeserialize(IOEnv.TRACE_FILE)
VARIABLES l, nbad
tvars == <<l, nbad>>
Range(s) == { s[i] : i \in 1..Len(s) }
FxOne == 32768

Failed(e) ==
  IF e.raised3 \/ e.raised2
  THEN (* raising is allowed only when a column has no non-zero pivot; the   *)
       (* two modes must agree                                              *)
       { c \in {"RaiseOnlyWhenSingular"} : ~e.singular }
       \cup { c \in {"ModesAgreeOnRaise"} : e.raised3 # e.raised2 }
  ELSE
       { c \in {"IsPermutation"} : Range(e.ip) # 1..e.m \/ Len(e.ip) # e.m }
  \cup { c \in {"PA_eq_LU"}  : e.units3 > UnitsBound }
  \cup { c \in {"A_eq_L2U"}  : e.units2 > UnitsBound }
  \cup { c \in {"UnitLower"} : ~e.unitlower }
  \cup { c \in {"UpperTrap"} : ~e.upper }
  \cup { c \in {"MultLeOne"} : e.maxmult > FxOne + MultSlack }
  \cup { c \in {"Shapes"}    : e.shapes # <<e.m, e.N, e.N, e.n, e.m, e.m, e.m, e.N, e.N, e.n>> }
       (* L2 = P^T L : row ip[i] of the two-output L is row i of L           *)
  \cup { c \in {"L2IsPTL"}   : Range(e.ip) = 1..e.m /\ \E i \in 1..e.m : i \notin Range(e.l2src[e.ip[i]]) }

TInit == l = 1 /\ nbad = 0
TNext ==
  /\ l <= Len(TraceLog)
  /\ LET e == TraceLog[l]
         f == Failed(e)
     IN  /\ \A c \in f : PrintT(<<"V", "bad", e.tid, c>>)
         /\ nbad' = nbad + Cardinality(f)
  /\ l' = l + 1
Report == l = Len(TraceLog) + 1 => PrintT(<<"V", "consumed", l - 1>>)
=============================================================================
