CONSTANT R = 1
INIT Init
NEXT Next
