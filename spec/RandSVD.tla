------------------------------- MODULE RandSVD -------------------------------
(* C12: the randomized and the pass-efficient Q-SVD as SHAPE-AND-RANK           *)
(* dataflow machines.  Every intermediate of the two pipelines is a step whose   *)
(* operands must be conformable; qr_qua of an a x b matrix returns               *)
(* Q: a x min(a,b), R: min(a,b) x b; the "sketch wider than the matrix"          *)
(* branches slice the full factors.  TLC explores ALL parameter tuples and       *)
(* checks conformability at every step, the final shapes U: m x R, V: n x R,      *)
(* |s| = R, and the rank flow (rank(A) <= R => the range is captured).            *)
EXTENDS Integers, Sequences, TLC
CONSTANTS MaxDim, MaxP, MaxIter, MaxPass
VARIABLES alg, m, n, R, P, q, rk,      \* the call: algorithm, shape, target rank, oversample, iterations/passes, rank(A)
          pc, i, q1, q2, rr, cap, ok, out
vars == <<alg, m, n, R, P, q, rk, pc, i, q1, q2, rr, cap, ok, out>>
Min2(a, b) == IF a < b THEN a ELSE b
QrQ(a, b) == <<a, Min2(a, b)>>           \* shape of Q
QrR(a, b) == <<Min2(a, b), b>>           \* shape of R

Init ==
  /\ alg \in {"rand", "pass"}
  /\ m \in 1..MaxDim /\ n \in 1..MaxDim /\ R \in 1..Min2(m, n) /\ P \in 0..MaxP
  /\ q \in (IF alg = "rand" THEN 0..MaxIter ELSE 2..MaxPass)
  /\ rk \in 0..Min2(m, n)
  /\ pc = "sketch" /\ i = 0 /\ q1 = <<0, 0>> /\ q2 = <<0, 0>> /\ rr = <<0, 0>> /\ cap = 0 /\ ok = TRUE /\ out = <<>>

(* ---- rand_qsvd ---- *)
RSketch == /\ alg = "rand" /\ pc = "sketch"
           /\ q1' = QrQ(m, R + P)                       \* Q1 = qr(X Omega), X Omega: m x (R+P)
           /\ cap' = Min2(rk, Min2(m, R + P))           \* rank of the captured range
           /\ pc' = "power" /\ UNCHANGED <<alg, m, n, R, P, q, rk, i, q2, rr, ok, out>>
RPower == /\ alg = "rand" /\ pc = "power" /\ i < q
          /\ LET c1 == q1[2]                             \* X^H Q1 : n x c1
                 nq2 == IF n >= c1 THEN QrQ(n, c1) ELSE <<n, Min2(n, c1)>>   \* full Q sliced to c1 columns -> n x n
                 c2 == nq2[2]                            \* X Q2 : m x c2
                 nq1 == IF m >= c2 THEN QrQ(m, c2) ELSE <<m, Min2(m, c2)>>
             IN q2' = nq2 /\ q1' = nq1 /\ ok' = (ok /\ q1[1] = m)
          /\ i' = i + 1 /\ UNCHANGED <<alg, m, n, R, P, q, rk, pc, rr, cap, out>>
RFinal == /\ alg = "rand" /\ pc = "power" /\ i = q
          /\ LET c1 == q1[2] IN
             IF n >= c1 THEN q2' = QrQ(n, c1) /\ rr' = QrR(n, c1)
                        ELSE q2' = <<n, n>> /\ rr' = <<Min2(n, c1), c1>>         \* RR_full[:c1, :] of an n x c1 factor
          /\ pc' = "svd" /\ UNCHANGED <<alg, m, n, R, P, q, rk, i, q1, cap, ok, out>>
(* small SVD of RR (a x b), slices of 4R columns/rows, contraction, lift     *)
RSvd == /\ alg = "rand" /\ pc = "svd"
        /\ LET a == rr[1]  b == rr[2]  mn == Min2(a, b) IN
           /\ ok' = (ok /\ mn >= R                       \* 4R columns / rows exist
                        /\ a = q2[2]                     \* real_contract(V_[:, :4R], cols(Q2), R)
                        /\ b = q1[2])                    \* real_contract(U_[:4R, :].T, cols(Q1), R)
           /\ out' = [U |-> <<q1[1], R>>, V |-> <<q2[1], R>>, ns |-> Min2(mn, R)]
        /\ pc' = "done" /\ UNCHANGED <<alg, m, n, R, P, q, rk, i, q1, q2, rr, cap>>

(* ---- pass_eff_qsvd ---- *)
PStart == /\ alg = "pass" /\ pc = "sketch"
          /\ q1' = <<n, R + P>> /\ cap' = 0 /\ i' = 1 /\ pc' = "pass"
          /\ UNCHANGED <<alg, m, n, R, P, q, rk, q2, rr, ok, out>>
PPass == /\ alg = "pass" /\ pc = "pass" /\ i <= q
         /\ IF i % 2 = 1
            THEN /\ q2' = QrQ(m, q1[2]) /\ rr' = QrR(m, q1[2])          \* Q2, R2 = qr(X Q1)
                 /\ ok' = (ok /\ q1[1] = n) /\ cap' = Min2(rk, Min2(m, q1[2])) /\ UNCHANGED q1
            ELSE /\ q1' = QrQ(n, q2[2]) /\ rr' = QrR(n, q2[2])          \* Q1, R1 = qr(X^H Q2)
                 /\ ok' = (ok /\ q2[1] = m) /\ UNCHANGED <<q2, cap>>
         /\ i' = i + 1 /\ UNCHANGED <<alg, m, n, R, P, q, rk, pc, out>>
PSvd == /\ alg = "pass" /\ pc = "pass" /\ i = q + 1
        /\ LET a == rr[1]  b == rr[2]  mn == Min2(a, b) IN
           /\ ok' = (ok /\ mn >= R
                        /\ (IF q % 2 = 0 THEN a = q1[2] /\ b = q2[2]     \* R1: rows = cols(Q1), cols = cols(Q2)
                                         ELSE a = q2[2] /\ b = q1[2]))   \* R2: rows = cols(Q2), cols = cols(Q1)
           /\ out' = [U |-> <<q2[1], R>>, V |-> <<q1[1], R>>, ns |-> Min2(mn, R)]
        /\ pc' = "done" /\ UNCHANGED <<alg, m, n, R, P, q, rk, i, q1, q2, rr, cap>>

Next == RSketch \/ RPower \/ RFinal \/ RSvd \/ PStart \/ PPass \/ PSvd
Spec == Init /\ [][Next]_vars

Conformable == ok
FinalShapes == pc = "done" => out.U = <<m, R>> /\ out.V = <<n, R>> /\ out.ns = R
(* rank flow: the first range finder already captures rank(A) when rank(A) <= R *)
RangeCaptured == pc = "done" /\ rk <= R => cap = rk
=============================================================================
