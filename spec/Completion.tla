---------------------------- MODULE Completion ----------------------------
(* applications/image_completion/script_*_image_completion.py - the iterative completion loop (beyond the twenty   *)
(* listed properties; growth of the system specification, DESIGN 6).                                               *)
(*   B       the image (quaternion matrix), Q the 0/1 mask of KNOWN pixels, B_Miss = B * Q                          *)
(*   X_0 = B_Miss;  per iteration:  Y = CUR(X)   (any matrix: a low-rank approximation through two Newton-Schulz    *)
(*   pseudoinverses),  X = B_Miss + (1 - Q) * Y  (Fill),  X_im = uint8(rgb(X))  (Quantise, PSNR recorded here),      *)
(*   X = quaternion(blur(X_im))  (Blur: touches every pixel).                                                        *)
(* Pixels carry an abstract tag: "data" (the true value), "zero" (masked out), "est" (estimate), "mix" (blurred).    *)
(* What the loop guarantees, whatever CUR returns: right after Fill (and at the recorded PSNR) every known pixel      *)
(* holds its datum and no missing pixel does; the history has one entry per iteration.                                *)
EXTENDS Integers, Sequences, FiniteSets
CONSTANTS Pixels, MaxIter
VARIABLES mask, X, pc, it, hist
vars == <<mask, X, pc, it, hist>>
Init == /\ mask \in [Pixels -> BOOLEAN]                       \* TRUE: known
        /\ X = [p \in Pixels |-> IF mask[p] THEN "data" ELSE "zero"]          \* X_0 = B_Miss
        /\ pc = "cur" /\ it = 1 /\ hist = <<>>
Cur == pc = "cur" /\ pc' = "fill" /\ UNCHANGED <<mask, X, it, hist>>            \* Y is arbitrary: nothing to record
Fill == /\ pc = "fill"
        /\ X' = [p \in Pixels |-> IF mask[p] THEN "data" ELSE "est"]          \* B_Miss + (1 - Q) * Y
        /\ pc' = "quantise" /\ UNCHANGED <<mask, it, hist>>
Quantise == /\ pc = "quantise" /\ hist' = Append(hist, it) /\ pc' = "blur" /\ UNCHANGED <<mask, X, it>>
Blur == /\ pc = "blur"
        /\ X' = [p \in Pixels |-> "mix"]
        /\ pc' = IF it = MaxIter THEN "done" ELSE "cur"
        /\ it' = IF it = MaxIter THEN it ELSE it + 1
        /\ UNCHANGED <<mask, hist>>
Next == Cur \/ Fill \/ Quantise \/ Blur
Spec == Init /\ [][Next]_vars /\ WF_vars(Next)
KnownPixelsAreData == pc \in {"quantise", "blur"} => \A p \in Pixels : (X[p] = "data") <=> mask[p]
HistoryCountsIterations == Len(hist) = IF pc \in {"blur", "done"} THEN it ELSE it - 1
(* the final image (after the last blur) does NOT keep the known pixels exact: the script reports PSNR of the blurred image *)
FinalImageIsBlurred == pc = "done" => \A p \in Pixels : X[p] = "mix"
Terminates == <>(pc = "done")
=============================================================================
