----------------------------- MODULE SchurTrace -----------------------------
(* Property monitor for recorded runs of every Schur variant (C10).  One event  *)
(* per run; all magnitudes relative to ||A||_F on the Lg grid.                   *)
EXTENDS Integers, Sequences, FiniteSets, TLC, Json, IOUtils
CONSTANTS UnitaryBound,  \* units
          RoundLg,       \* Lg of the rounding floor for relative errors
          SimSlack,      \* Lg slack over the deflation tolerance (x n^2 deflations)
          TriSlack       \* Lg slack for "upper triangular to that tolerance"
RoundV == -2432
TraceLog == ndJsonDeserialize(IOEnv.TRACE_FILE)
VARIABLES l, nbad
tvars == <<l, nbad>>
Max2(a, b) == IF a > b THEN a ELSE b
Bad(e) ==
     { c \in {"Finite"}   : ~e.finite }
  \cup { c \in {"Shapes"}   : ~e.shapes_ok }
  \cup { c \in {"UnitaryQ"} : e.finite /\ e.unitary_units > UnitaryBound }
  \cup { c \in {"SimilarityPreserved"} : e.finite /\ e.sim_lg > Max2(e.tol_lg + SimSlack, RoundLg) }
  \cup { c \in {"ConvergedImpliesUpperTriangular"} : e.finite /\ e.flag /\ e.lower_lg > Max2(e.tol_lg + TriSlack, RoundLg) }
  \cup { c \in {"HermitianConvergedImpliesRealDiagonal"} :
           e.finite /\ e.flag /\ e.hermitian /\ (e.offdiag_lg > Max2(e.tol_lg + TriSlack, RoundLg) \/ e.diagimag_lg > Max2(e.tol_lg + TriSlack, RoundLg)) }
  \cup { c \in {"HermitianConvergedCarriesSpectrum"} :
           e.finite /\ e.flag /\ e.hermitian /\ e.spec_lg > Max2(e.tol_lg + TriSlack, RoundLg) }
  \cup { c \in {"M:IterationsWithinBudget"} : e.iters > e.budget }
  \cup { c \in {"M:FlagDownWhenBudgetZero"} : e.budget = 0 /\ e.flag /\ e.lower_lg > RoundLg }
TInit == l = 1 /\ nbad = 0
TNext ==
  /\ l <= Len(TraceLog)
  /\ LET e == TraceLog[l]
         f == Bad(e)
     IN  /\ \A c \in f : PrintT(<<"V", "bad", e.tid, c>>)
         /\ nbad' = nbad + Cardinality(f)
  /\ l' = l + 1
Report == l = Len(TraceLog) + 1 => PrintT(<<"V", "consumed", l - 1>>)
=============================================================================
