------------------------------- MODULE Tensor -------------------------------
(* C18: case space (all shapes <= MaxDim, all modes) and the check that the   *)
(* documented unfolding layout satisfies the contract of TensorDefs.tla.      *)
EXTENDS TensorDefs
CONSTANT MaxDim
VARIABLES I, J, K, mode, pc, U
vars == <<I, J, K, mode, pc, U>>

Init == /\ I \in 1..MaxDim /\ J \in 1..MaxDim /\ K \in 1..MaxDim /\ mode \in 0..2
        /\ pc = "tensor" /\ U = <<>>
Unfold == pc = "tensor" /\ U' = MUnfold(I, J, K, mode) /\ pc' = "unfolded" /\ UNCHANGED <<I, J, K, mode>>
Next == Unfold
Spec == Init /\ [][Next]_vars
(* the documented layout satisfies the contract for every shape and mode      *)
MechanismMeetsContract == pc = "unfolded" => Contract(U, I, J, K, mode)
=============================================================================
