---------------------------- MODULE HistoryTrace ----------------------------
(* Trace validation for C14.  Events, per solver object (tid):                 *)
(*   Construct(cls, cfg)   Call(step, p, flags...)*                             *)
(* plus stateless events Mutation (a public function called on copies) and      *)
(* Style (package vs flat import).  The flags are differential measurements     *)
(* made by the harness: bitwise equality with a fresh object's result, the      *)
(* object's __dict__ compared with its configuration, argument hashes.          *)
EXTENDS Integers, Sequences, FiniteSets, TLC, Json, IOUtils
TraceLog == ndJsonDeserialize(IOEnv.TRACE_FILE)
VARIABLES l, step, nbad
tvars == <<l, step, nbad>>
Bad(e) ==
  CASE e.ev = "Construct" -> {}
    [] e.ev = "Call" ->
         { c \in {"M:HistoryOrder"}       : e.step # step + 1 }
         \cup { c \in {"SameAsFreshObject"}    : ~e.same_as_fresh }
         \cup { c \in {"ConfigStable"}         : ~e.dict_unchanged }
         \cup { c \in {"ArgumentsUnchanged"}   : ~e.args_unchanged }
         \cup { c \in {"RepeatRepeatsResult"}  : ~e.repeat_same }
    [] e.ev = "Mutation" -> { c \in {"ArgumentsUnchanged"} : ~e.args_unchanged }
                            \cup { c \in {"M:GlobalGeneratorUntouchedByDeterministicRoutine"} : "generator_untouched" \in DOMAIN e /\ ~e.generator_untouched }
                            \cup { c \in {"M:WarningFiltersRestored"} : "errstate_restored" \in DOMAIN e /\ ~e.errstate_restored }
                            \cup { c \in {"FloatingPointErrorStateUnchanged"} : "fp_error_state_unchanged" \in DOMAIN e /\ ~e.fp_error_state_unchanged }
    [] e.ev = "Seeded"   -> { c \in {"ReproducibleUnderSeed"} : ~e.same } \cup { c \in {"SeedMatters"} : ~e.differs_other_seed }
    [] e.ev = "Usage"    -> { c \in {"SameAsFreshObject"} : ~e.same }
    [] e.ev = "Returned" -> { c \in {"ResultBelongsToCaller"} : ~e.same }
    [] e.ev = "Stale"    -> { c \in {"AnswersForCurrentContents"} : ~e.same }
    [] e.ev = "Related"  -> { c \in {"AnswerDependsOnArgumentsOnly"} : ~e.same }
    [] e.ev = "Layout"   -> { c \in {"MemoryLayoutIndependent"} : ~e.same }
    [] e.ev = "Style"    -> { c \in {"ImportStyleIndependent"} : e.digest_package # e.digest_flat }
    [] OTHER -> {"UnknownEvent"}
TInit == l = 1 /\ step = 0 /\ nbad = 0
TNext ==
  /\ l <= Len(TraceLog)
  /\ LET e == TraceLog[l]
         f == Bad(e)
     IN  /\ \A c \in f : PrintT(<<"V", "bad", e.tid, c>>)
         /\ nbad' = nbad + Cardinality(f)
         /\ step' = IF e.ev = "Construct" THEN 0 ELSE IF e.ev = "Call" THEN e.step ELSE step
  /\ l' = l + 1
Report == l = Len(TraceLog) + 1 => PrintT(<<"V", "consumed", l - 1>>)
=============================================================================
