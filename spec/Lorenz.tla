------------------------------ MODULE Lorenz ------------------------------
(* applications/signal_processing/lorenz_attractor_qgmres.py - assembly of the filtering system that is then     *)
(* handed to Q-GMRES (beyond the twenty listed properties; growth of the system specification, DESIGN 6).        *)
(*                                                                                                              *)
(*   ny = mx = N - 1                                                                                            *)
(*   s_pad = vstack([s[-ny:], s, s[:mx]])                       (Python slices; note s[-0:] is ALL of s)         *)
(*   S[i, k*cols + j] = s_pad[ny + i - j, k]     for i < rows = mx + 1, j < cols = ny + 1, k < 4                 *)
(*   A_k = S[:, k*n_cols : (k+1)*n_cols]          with n_cols = S.shape[1] // 4                                  *)
(*                                                                                                              *)
(* The script's comments call this a block-Hankel assembly whose indexing had to be fixed twice.  What it builds *)
(* is the CIRCULANT matrix of the signal: A[i][j] = s[(i - j) mod N], component by component, and every index    *)
(* stays inside s_pad.  TLC checks this for every N <= MaxN with the signal s = <<0, 1, .., N-1>> of distinct     *)
(* symbols (so that an entry of A names the sample it was copied from); the harness checks the matrix the real     *)
(* script hands to the solver against the same law (harness/lorenzapp.py).                                        *)
EXTENDS Integers, Sequences
CONSTANT MaxN

(* Python slicing of a 0-based array held as a 1-based TLA+ sequence *)
Last(s, c) == IF c = 0 THEN s ELSE SubSeq(s, Len(s) - c + 1, Len(s))          \* s[-c:]   (s[-0:] == s[0:] == s)
First(s, c) == SubSeq(s, 1, c)                                                \* s[:c]
Signal(n) == [p \in 1..n |-> p - 1]                                           \* sample numbers 0 .. n-1
Pad(n) == Last(Signal(n), n - 1) \o Signal(n) \o First(Signal(n), n - 1)
At(seq, p) == seq[p + 1]                                                      \* 0-based read

VARIABLES n, i, j, k, pc, entry
vars == <<n, i, j, k, pc, entry>>
Init == n \in 1..MaxN /\ i = 0 /\ j = 0 /\ k = 0 /\ pc = "fill" /\ entry = -1
Idx == (n - 1) + i - j
Cols == (n - 1) + 1
Fill == /\ pc = "fill"
        /\ entry' = At(Pad(n), Idx)                      \* the sample copied into S[i, k*cols + j] (same for every component k)
        /\ pc' = "extract"
        /\ UNCHANGED <<n, i, j, k>>
(* block extraction: column k*cols + j of S lands in column j of A_k exactly when n_cols = cols *)
NCols == (4 * Cols) \div 4
Extract == /\ pc = "extract"
           /\ pc' = IF k < 3 THEN "fill" ELSE IF j < n - 1 THEN "fill" ELSE IF i < n - 1 THEN "fill" ELSE "done"
           /\ k' = IF k < 3 THEN k + 1 ELSE 0
           /\ j' = IF k < 3 THEN j ELSE IF j < n - 1 THEN j + 1 ELSE 0
           /\ i' = IF k < 3 \/ j < n - 1 THEN i ELSE IF i < n - 1 THEN i + 1 ELSE i
           /\ UNCHANGED <<n, entry>>
Next == Fill \/ Extract
Spec == Init /\ [][Next]_vars

(* the pad as piecewise-linear arithmetic: the form in which spec/apalache/MC_Lorenz.tla proves the identity for EVERY N *)
PadSample(m, p) == IF m = 1 THEN 0 ELSE IF p < m - 1 THEN p + 1 ELSE IF p < 2 * m - 1 THEN p - (m - 1) ELSE p - (2 * m - 1)
PadSampleAgrees == \A p \in 0..(Len(Pad(n)) - 1) : At(Pad(n), p) = PadSample(n, p)
IndexInRange == pc = "fill" => Idx \in 0..(Len(Pad(n)) - 1)
PadLength == Len(Pad(n)) = IF n = 1 THEN 2 ELSE 3 * n - 2          \* for n = 1 the first slice s[-0:] is the whole signal
Circulant == pc = "extract" => entry = (i - j) % n
BlockColumn == pc = "extract" => (k * Cols + j) \div NCols = k /\ (k * Cols + j) % NCols = j
Square == Cols = n
=============================================================================
