--------------------------- MODULE MC_DeepLinear ---------------------------
(* Apalache wrapper: the invariants of DeepLinear.tla for UNBOUNDED budgets and repetition counts (TLC checks them  *)
(* for budgets <= 3), by induction:  IndInit => IndInv  (length 0)  and  IndInv /\ Next => IndInv'  (length 1).      *)
(* The number of layers is bounded by 6 (the version vector is a function on 1..d).                                   *)
EXTENDS Integers, Sequences, FiniteSets, Apalache

\* @typeAlias: cfg = { d: Int, inner: Int, max_iter: Int };
\* @typeAlias: state = { pc: Str, sweep: Int, layer: Int, rep: Int, ver: Int -> Int, nh: Int };
DL_aliases == TRUE

VARIABLES
  \* @type: $cfg;
  cfg,
  \* @type: $state;
  st,
  \* @type: Int;
  stop_at

\* ---- the operators of DeepLinearDefs.tla, typed --------------------------------------------------------------
\* @type: ($cfg) => $state;
Start(c) == [pc |-> IF c.max_iter = 0 THEN "return" ELSE "askX", sweep |-> 1, layer |-> 1, rep |-> 1,
             ver |-> [i \in {j \in 1..6 : j <= c.d} |-> 0], nh |-> 0]
\* @type: ($cfg, $state) => $state;
AskX(c, s) == [s EXCEPT !.pc = IF s.layer < c.d THEN "askW" ELSE "assign"]
\* @type: ($cfg, $state) => $state;
AskW(c, s) == [s EXCEPT !.pc = "assign"]
\* @type: ($cfg, $state) => $state;
Assign(c, s) == [s EXCEPT !.ver = [s.ver EXCEPT ![s.layer] = @ + 1],
                          !.pc = IF s.rep = c.inner THEN "clip" ELSE "askX",
                          !.rep = IF s.rep = c.inner THEN 1 ELSE @ + 1]
\* @type: ($cfg, $state) => $state;
Clip(c, s) == [s EXCEPT !.pc = IF s.layer = c.d THEN "record" ELSE "askX",
                        !.layer = IF s.layer = c.d THEN 1 ELSE @ + 1]
\* @type: ($cfg, $state, Bool) => $state;
Record(c, s, below) == [s EXCEPT !.nh = @ + 1,
                                 !.pc = IF below \/ s.sweep = c.max_iter THEN "return" ELSE "askX",
                                 !.sweep = IF below \/ s.sweep = c.max_iter THEN @ ELSE @ + 1]

Init == /\ \E d \in 1..6 : \E inn \in Nat : \E mi \in Nat : inn >= 1 /\ cfg = [d |-> d, inner |-> inn, max_iter |-> mi]
        /\ stop_at \in Nat
        /\ st = Start(cfg)
DoAskX == st.pc = "askX" /\ st' = AskX(cfg, st) /\ UNCHANGED <<cfg, stop_at>>
DoAskW == st.pc = "askW" /\ st' = AskW(cfg, st) /\ UNCHANGED <<cfg, stop_at>>
DoAssign == st.pc = "assign" /\ st' = Assign(cfg, st) /\ UNCHANGED <<cfg, stop_at>>
DoClip == st.pc = "clip" /\ st' = Clip(cfg, st) /\ UNCHANGED <<cfg, stop_at>>
DoRecord == st.pc = "record" /\ st' = Record(cfg, st, st.sweep = stop_at) /\ UNCHANGED <<cfg, stop_at>>
DoReturn == st.pc = "return" /\ st' = [st EXCEPT !.pc = "done"] /\ UNCHANGED <<cfg, stop_at>>
Next == DoAskX \/ DoAskW \/ DoAssign \/ DoClip \/ DoRecord \/ DoReturn

\* ---- the properties of DeepLinear.tla --------------------------------------------------------------------------
GaussSeidel == st.pc \in {"askX", "askW", "assign"} =>
                 /\ \A j \in 1..6 : j < st.layer => st.ver[j] = st.sweep * cfg.inner
                 /\ \A j \in 1..6 : (j > st.layer /\ j <= cfg.d) => st.ver[j] = (st.sweep - 1) * cfg.inner
                 /\ st.ver[st.layer] = (st.sweep - 1) * cfg.inner + (st.rep - 1)
LastLayerHasNoRightFactor == st.pc = "askW" => st.layer < cfg.d
HistoryCountsSweeps == st.pc \in {"return", "done"} /\ cfg.max_iter > 0 =>
                          /\ st.nh = st.sweep
                          /\ \A j \in 1..6 : j <= cfg.d => st.ver[j] = st.nh * cfg.inner
BudgetRespected == st.nh <= cfg.max_iter
StopRule == st.pc \in {"return", "done"} /\ cfg.max_iter > 0 =>
               st.nh = IF stop_at >= 1 /\ stop_at <= cfg.max_iter THEN stop_at ELSE cfg.max_iter
ZeroBudget == cfg.max_iter = 0 => (st.nh = 0 /\ \A j \in 1..6 : j <= cfg.d => st.ver[j] = 0)
Safety == GaussSeidel /\ LastLayerHasNoRightFactor /\ HistoryCountsSweeps /\ BudgetRespected /\ StopRule /\ ZeroBudget

\* ---- the inductive invariant -----------------------------------------------------------------------------------
Running == st.pc \in {"askX", "askW", "assign", "clip", "record"}
TypeInv == /\ cfg.d \in 1..6 /\ cfg.inner >= 1 /\ cfg.max_iter >= 0 /\ stop_at >= 0
           /\ st.pc \in {"askX", "askW", "assign", "clip", "record", "return", "done"}
           /\ DOMAIN st.ver = {j \in 1..6 : j <= cfg.d}
           /\ st.layer >= 1 /\ st.layer <= cfg.d /\ st.rep >= 1 /\ st.rep <= cfg.inner /\ st.sweep >= 1 /\ st.nh >= 0
Shape == /\ (Running => cfg.max_iter > 0 /\ st.sweep <= cfg.max_iter /\ st.nh = st.sweep - 1)
         /\ (Running /\ stop_at >= 1 /\ stop_at <= cfg.max_iter => st.sweep <= stop_at)       \* the stopping sweep has not been passed
         /\ (st.pc = "clip" => st.rep = 1
               /\ (\A j \in 1..6 : j <= st.layer => st.ver[j] = st.sweep * cfg.inner)
               /\ (\A j \in 1..6 : (j > st.layer /\ j <= cfg.d) => st.ver[j] = (st.sweep - 1) * cfg.inner))
         /\ (st.pc = "record" => st.rep = 1 /\ st.layer = 1 /\ \A j \in 1..6 : j <= cfg.d => st.ver[j] = st.sweep * cfg.inner)
         /\ (st.pc = "askW" => st.layer < cfg.d)
         /\ (st.pc \in {"return", "done"} /\ cfg.max_iter = 0 => st.nh = 0 /\ st.sweep = 1 /\ \A j \in 1..6 : j <= cfg.d => st.ver[j] = 0)
IndInv == TypeInv /\ Shape /\ Safety

\* arbitrary state satisfying the invariant (Gen bounds the size of the version vector only)
IndInit == /\ cfg = Gen(1) /\ st = Gen(6) /\ stop_at = Gen(1)
           /\ IndInv
\* vacuity probes: each must be VIOLATED from IndInit (states of that kind satisfy the invariant)
NotClip == ~(st.pc = "clip" /\ st.sweep >= 5 /\ cfg.d = 4 /\ st.layer = 2)
NotDoneLate == ~(st.pc = "done" /\ st.nh >= 7 /\ stop_at = 0)
=============================================================================
