------------------------- MODULE MC_SketchSolvers -------------------------
(* Apalache wrapper: the invariants of SketchSolvers.tla (C13) for an UNBOUNDED iteration budget and an unbounded      *)
(* number of residual levels (TLC checks them for MaxIter = 4, Levels = 2) , by induction.  The history sequence is    *)
(* represented by the two things the returned record is computed from, its length hlen and its last entry hlast         *)
(* (-1 for the empty history); the actions are those of SketchSolvers.tla under that representation, with the same      *)
(* names.  nskip counts skipped steps (micro-solver failed), so that  k = hlen + nskip  - every counted iteration either *)
(* appended one history entry or was a skip that touched nothing - is part of the inductive invariant.                  *)
EXTENDS Integers
VARIABLES
  \* @type: Int;
  maxIter,
  \* @type: Int;
  levels,
  \* @type: Int;
  k,
  \* @type: Int;
  lvl,
  \* @type: Int;
  hlen,
  \* @type: Int;
  hlast,
  \* @type: Int;
  nskip,
  \* @type: Str;
  micro,
  \* @type: Str;
  pc,
  \* @type: { converged: Bool, iterations: Int, last: Int, xlvl: Int };
  ret
NoRet == [converged |-> FALSE, iterations |-> -1, last |-> -1, xlvl |-> -1]
TypeOK == /\ maxIter \in Nat /\ levels \in Nat /\ levels >= 1
          /\ k \in Nat /\ k <= maxIter /\ lvl \in Nat /\ lvl <= levels
          /\ hlen \in Nat /\ hlast \in Int /\ hlast >= -1 /\ hlast <= levels /\ nskip \in Nat
          /\ micro \in {"none", "qr", "spd-cg", "ns-fallback", "failed"}
          /\ pc \in {"draw", "micro", "skip", "update", "return", "done"}
Init == /\ TypeOK /\ k = 0 /\ lvl >= 1 /\ hlen = 0 /\ hlast = -1 /\ nskip = 0 /\ micro = "none" /\ pc = "draw" /\ ret = NoRet
Draw == pc = "draw" /\ k < maxIter /\ pc' = "micro" /\ UNCHANGED <<maxIter, levels, k, lvl, hlen, hlast, nskip, micro, ret>>
MicroSolve == /\ pc = "micro"
              /\ micro' \in {"qr", "spd-cg", "ns-fallback", "failed"}
              /\ pc' = IF micro' = "failed" THEN "skip" ELSE "update"
              /\ UNCHANGED <<maxIter, levels, k, lvl, hlen, hlast, nskip, ret>>
Skip == pc = "skip" /\ k' = k + 1 /\ nskip' = nskip + 1 /\ pc' = "draw" /\ UNCHANGED <<maxIter, levels, lvl, hlen, hlast, micro, ret>>
Update == /\ pc = "update"
          /\ \E nl \in Nat : nl <= levels /\ lvl' = nl /\ hlast' = nl
          /\ hlen' = hlen + 1 /\ k' = k + 1
          /\ pc' = IF lvl' = 0 THEN "return" ELSE "draw"
          /\ UNCHANGED <<maxIter, levels, nskip, micro, ret>>
Budget == pc = "draw" /\ k = maxIter /\ pc' = "return" /\ UNCHANGED <<maxIter, levels, k, lvl, hlen, hlast, nskip, micro, ret>>
Return == /\ pc = "return"
          /\ ret' = [converged |-> (hlen > 0 /\ hlast = 0), iterations |-> hlen, last |-> hlast, xlvl |-> lvl]
          /\ pc' = "done" /\ UNCHANGED <<maxIter, levels, k, lvl, hlen, hlast, nskip, micro>>
Next == Draw \/ MicroSolve \/ Skip \/ Update \/ Budget \/ Return
Done == pc = "done"
FlagIsLastBelowTol == Done => (ret.converged <=> (ret.iterations > 0 /\ ret.last = 0))
HistoryOfReturnedIterate == Done /\ ret.iterations > 0 => ret.last = ret.xlvl
ConvergedSound == Done /\ ret.converged => ret.xlvl = 0
ItersIsHistLen == Done => ret.iterations = hlen /\ ret.iterations <= maxIter
(* strengthening: the last history entry is the level of the current iterate; counted steps = entries + skips;       *)
(* a step in flight (micro / skip / update) has budget left; an early return happens only at level 0                  *)
LastIsLevel == hlen > 0 => hlast = lvl
EmptyHist == hlen = 0 <=> hlast = -1
Counted == k = hlen + nskip
InFlight == pc \in {"micro", "skip", "update"} => k < maxIter
PcMicro == (pc = "skip" => micro = "failed") /\ (pc = "update" => micro \in {"qr", "spd-cg", "ns-fallback"})
ReturnWhy == pc \in {"return", "done"} => (k = maxIter \/ (hlen > 0 /\ hlast = 0))
RetWhenDone == Done => ret = [converged |-> (hlen > 0 /\ hlast = 0), iterations |-> hlen, last |-> hlast, xlvl |-> lvl]
(* honest non-convergence: budget exhausted above tolerance is reported as not converged with exactly maxIter - skips  *)
HonestBudget == Done /\ ~ret.converged => k = maxIter /\ ret.iterations = maxIter - nskip
IndInv == /\ TypeOK /\ LastIsLevel /\ EmptyHist /\ Counted /\ InFlight /\ PcMicro /\ ReturnWhy /\ RetWhenDone
          /\ FlagIsLastBelowTol /\ HistoryOfReturnedIterate /\ ConvergedSound /\ ItersIsHistLen /\ HonestBudget
IndInit == /\ \E c \in BOOLEAN : \E i \in Int : \E l \in Int : \E x \in Int :
                ret = [converged |-> c, iterations |-> i, last |-> l, xlvl |-> x]
           /\ IndInv
(* negative model: the history records the proxy of the iterate BEFORE the update (seed C13o is of this kind:              *)
(* the recorded number is not the residual of the returned iterate).  With this action the induction must FAIL.            *)
UpdateStale == /\ pc = "update"
               /\ \E nl \in Nat : \E ol \in Nat : nl <= levels /\ ol <= levels /\ nl # ol /\ lvl' = nl /\ hlast' = ol
               /\ hlen' = hlen + 1 /\ k' = k + 1
               /\ pc' = IF hlast' = 0 THEN "return" ELSE "draw"
               /\ UNCHANGED <<maxIter, levels, nskip, micro, ret>>
NextStale == Next \/ UpdateStale
(* vacuity probes: each must be violated                                                                              *)
NotLateConverged == ~(Done /\ ret.converged /\ ret.iterations >= 1000 /\ nskip >= 10)
NotBudgetDone == ~(Done /\ ~ret.converged /\ k >= 1000 /\ ret.last >= 5)
NotAllSkipped == ~(Done /\ hlen = 0 /\ k >= 100)
=============================================================================
