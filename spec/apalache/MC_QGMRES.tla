----------------------------- MODULE MC_QGMRES -----------------------------
(* Apalache wrapper: the invariants of QGMRES.tla (C04) for EVERY system size N, grade g <= N, residual grid LMax,     *)
(* tolerance and iteration cap (TLC checks them for MaxN = 4 / 6, LMax = 3), by induction.  The actions are those of        *)
(* QGMRES.tla with the same names; the residual history is represented by its length hlen and last entry hlast          *)
(* (the only parts the clauses read: HistMono becomes the action-level fact that every appended level is <= the last),   *)
(* "no cap" is cap = -1 instead of the sentinel 99, which a large N would collide with.                                   *)
EXTENDS Integers
VARIABLES
  \* @type: Int;
  N,
  \* @type: Int;
  g,
  \* @type: Int;
  cap,
  \* @type: Int;
  tolL,
  \* @type: Int;
  LMax,
  \* @type: Str;
  prec,
  \* @type: Bool;
  luFault,
  \* @type: Bool;
  bzero,
  \* @type: Int;
  geff,
  \* @type: Int;
  m,
  \* @type: Int;
  j,
  \* @type: Int;
  kdim,
  \* @type: Int;
  lvl,
  \* @type: Int;
  hlen,
  \* @type: Int;
  hlast,
  \* @type: Int;
  bd,
  \* @type: Str;
  pc,
  \* @type: { xzero: Bool, lvl: Int, reported: Int, converged: Bool, iters: Int };
  ret
NoCap == -1
params == <<N, g, cap, tolL, LMax, prec, luFault, bzero>>
NoRet == [xzero |-> FALSE, lvl |-> -1, reported |-> -1, converged |-> FALSE, iters |-> -1]
Capped(mm) == cap # NoCap /\ mm > cap
TypeOK ==
  /\ N \in Nat /\ N >= 1 /\ g \in Nat /\ g >= 1 /\ g <= N
  /\ cap \in Int /\ cap >= -1 /\ cap <= N
  /\ LMax \in Nat /\ LMax >= 1 /\ tolL \in Nat /\ tolL >= 1 /\ tolL <= LMax
  /\ prec \in {"none", "left_lu"} /\ luFault \in BOOLEAN /\ bzero \in BOOLEAN
  /\ (luFault => prec = "left_lu")
  /\ geff \in Nat /\ m \in Nat /\ j \in Nat /\ kdim \in Nat /\ lvl \in Nat /\ lvl <= LMax
  /\ hlen \in Nat /\ hlast \in Int /\ bd \in Nat
  /\ pc \in {"start", "cycle", "solve", "test", "done"}
Init == /\ TypeOK /\ geff = g /\ m = 0 /\ j = 0 /\ kdim = 0 /\ lvl = LMax /\ hlen = 0 /\ hlast = LMax /\ bd = 0
        /\ pc = "start" /\ ret = NoRet
ZeroRhs ==
  /\ pc = "start" /\ bzero
  /\ ret' = [xzero |-> TRUE, lvl |-> 0, reported |-> 0, converged |-> TRUE, iters |-> 0]
  /\ pc' = "done"
  /\ UNCHANGED <<params, geff, m, j, kdim, lvl, hlen, hlast, bd>>
Precondition ==
  /\ pc = "start" /\ ~bzero
  /\ geff' = IF prec = "left_lu" /\ ~luFault THEN 1 ELSE g
  /\ m' = 1 /\ pc' = "cycle"
  /\ UNCHANGED <<params, j, kdim, lvl, hlen, hlast, bd, ret>>
ArnoldiStep ==
  /\ pc = "cycle" /\ j < m /\ geff > j + 1
  /\ j' = j + 1
  /\ UNCHANGED <<params, geff, m, lvl, hlen, hlast, bd, kdim, pc, ret>>
LuckyBreakdown ==
  /\ pc = "cycle" /\ j < m /\ geff = j + 1
  /\ j' = j + 1 /\ kdim' = j + 1 /\ bd' = j + 1 /\ pc' = "solve"
  /\ UNCHANGED <<params, geff, m, lvl, hlen, hlast, ret>>
FullCycle ==
  /\ pc = "cycle" /\ j = m
  /\ kdim' = m /\ bd' = 0 /\ pc' = "solve"
  /\ UNCHANGED <<params, geff, m, j, lvl, hlen, hlast, ret>>
SolveSmall ==
  /\ pc = "solve"
  /\ \E nl \in Nat :
        /\ nl <= lvl
        /\ (bd # 0 => nl = 0)
        /\ (bd = 0 => nl >= 1)
        /\ lvl' = nl /\ hlast' = nl /\ hlen' = hlen + 1
  /\ pc' = "test"
  /\ UNCHANGED <<params, geff, m, j, bd, kdim, ret>>
Test ==
  /\ pc = "test"
  /\ IF lvl < tolL \/ Capped(m) \/ m = N
     THEN /\ ret' = [xzero |-> FALSE, lvl |-> lvl, reported |-> lvl, converged |-> (lvl < tolL), iters |-> m]
          /\ pc' = "done" /\ UNCHANGED <<m, j>>
     ELSE /\ m' = m + 1 /\ j' = 0 /\ pc' = "cycle" /\ UNCHANGED ret
  /\ UNCHANGED <<params, geff, kdim, lvl, hlen, hlast, bd>>
Next == ZeroRhs \/ Precondition \/ ArnoldiStep \/ LuckyBreakdown \/ FullCycle \/ SolveSmall \/ Test
(* ---- the clauses of QGMRES.tla ---------------------------------------------------------------------------------- *)
Done == pc = "done"
Truthful   == Done => ret.reported = ret.lvl
ConvSound  == Done => (ret.converged => ret.lvl < tolL)
AtMostN    == Done /\ cap = NoCap => ret.converged /\ ret.iters <= N
ZeroRhsZero == Done /\ bzero => ret.xzero /\ ret.lvl = 0
PrecIndependent == Done /\ cap = NoCap => ret.lvl < tolL
BreakdownEnds == bd # 0 /\ pc = "test" => lvl = 0
ShortCycleIsBreakdown == pc \in {"solve", "test"} /\ kdim < m => bd = kdim /\ kdim = geff
KdimBound == kdim <= m
IterBound  == Done /\ ~bzero => ret.iters <= N /\ (cap # NoCap => ret.iters <= cap + 1)
HistMonoStep == hlen > 0 => hlast = lvl           \* with  nl <= lvl  in SolveSmall: the history never increases
(* ---- strengthening ------------------------------------------------------------------------------------------------ *)
Running == pc \in {"cycle", "solve", "test"}
Shape ==
  /\ (pc = "start" => m = 0 /\ j = 0 /\ kdim = 0 /\ lvl = LMax /\ hlen = 0 /\ bd = 0 /\ ret = NoRet /\ geff = g)
  /\ (Running => ~bzero /\ m >= 1 /\ m <= N /\ geff >= 1 /\ geff <= N /\ ret = NoRet
                 /\ (cap # NoCap => m <= cap + 1))
  /\ (pc \in {"cycle", "solve"} /\ m >= 2 => lvl >= tolL /\ lvl >= 1)                       \* an earlier cycle did not stop the run ...
  /\ (pc = "cycle" => j <= m /\ geff >= j + 1 /\ hlen = m - 1 /\ (m >= 2 => geff > m - 1))
  /\ (Running => geff >= m)
  /\ (pc = "cycle" /\ m >= 2 => bd = 0)                                   \* ... and it had no breakdown
  /\ (pc \in {"solve", "test"} => (bd = 0 => kdim = m /\ geff > m) /\ (bd # 0 => bd = kdim /\ kdim = geff /\ kdim <= m))
  /\ (pc = "solve" => hlen = m - 1)
  /\ (pc = "test" => hlen = m /\ (bd = 0 => lvl >= 1))
  /\ (Done /\ ~bzero => /\ ret = [xzero |-> FALSE, lvl |-> lvl, reported |-> lvl, converged |-> (lvl < tolL), iters |-> m]
                        /\ m >= 1 /\ m <= N /\ hlen = m /\ (cap # NoCap => m <= cap + 1)
                        /\ (lvl < tolL \/ Capped(m) \/ m = N)
                        /\ (m = N /\ bd = 0 => FALSE))                    \* the N-th cycle always breaks down: geff <= N
  /\ (Done /\ ~bzero /\ bd # 0 => lvl = 0)
  /\ (Done /\ bzero => ret = [xzero |-> TRUE, lvl |-> 0, reported |-> 0, converged |-> TRUE, iters |-> 0] /\ hlen = 0)
(* the cycle count is the grade: an uncapped run returns after exactly min(geff, first cycle below tolerance) cycles  *)
StopsAtGrade == Done /\ ~bzero => m <= geff
IndInv == /\ TypeOK /\ Shape /\ StopsAtGrade /\ HistMonoStep
          /\ Truthful /\ ConvSound /\ AtMostN /\ ZeroRhsZero /\ PrecIndependent /\ BreakdownEnds
          /\ ShortCycleIsBreakdown /\ KdimBound /\ IterBound
IndInit == /\ \E a \in BOOLEAN : \E b \in Int : \E c \in Int : \E d \in BOOLEAN : \E e \in Int :
                ret = [xzero |-> a, lvl |-> b, reported |-> c, converged |-> d, iters |-> e]
           /\ IndInv
(* negative model (the defect of the pinned tree repaired in 3c8a2f0): on a lucky breakdown the restart iterate is         *)
(* returned - the level does not move - while the history records 0.  With this action in the next-state relation the    *)
(* induction must FAIL (BreakdownEnds, HistMonoStep).                                                                     *)
SolveSmallStale ==
  /\ pc = "solve" /\ bd # 0
  /\ lvl' = lvl /\ hlast' = 0 /\ hlen' = hlen + 1
  /\ pc' = "test"
  /\ UNCHANGED <<params, geff, m, j, bd, kdim, ret>>
NextStale == Next \/ SolveSmallStale
(* vacuity probes: each must be violated *)
NotBigBreakdown == ~(Done /\ bd >= 500 /\ N >= 1000 /\ ret.converged)
NotCappedUnconverged == ~(Done /\ ~ret.converged /\ m >= 500)
NotPrecOne == ~(Done /\ prec = "left_lu" /\ ~luFault /\ N >= 1000 /\ ret.iters = 1)
NotFaultFallback == ~(Done /\ luFault /\ ret.iters >= 500)
=============================================================================
