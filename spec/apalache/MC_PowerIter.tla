--------------------------- MODULE MC_PowerIter ---------------------------
(* Apalache wrapper: the stop-rule invariants of PowerIter.tla (C19) for EVERY start ratio r0 <= 0, EVERY decay     *)
(* d < 0, EVERY tolerance and an UNBOUNDED iteration budget MaxK (TLC checks them on three-by-four-by-three value     *)
(* sets with MaxK = 400), by induction:  Init => IndInv (length 0)  and  IndInv /\ Next => IndInv' (length 1).         *)
(* The actions are the ones of PowerIter.tla, typed; r0 is a history variable (start value of r) so that the          *)
(* closed form r = r0 + k d - the geometric decay the conformance harness measures on the real iterates - is part     *)
(* of the inductive invariant, and with it the budget bound: a run that is still going after k steps has not yet       *)
(* reached either stop threshold.                                                                                      *)
EXTENDS Integers
VARIABLES
  \* @type: Int;
  r,
  \* @type: Int;
  r0,
  \* @type: Int;
  d,
  \* @type: Str;
  sign,
  \* @type: Int;
  tolLg,
  \* @type: Int;
  k,
  \* @type: Int;
  maxK,
  \* @type: Str;
  stop
LgMilli == -638
TypeOK == /\ r0 \in Int /\ r0 <= 0 /\ d \in Int /\ d < 0 /\ sign \in {"pos", "neg"}
          /\ tolLg \in Int /\ k \in Nat /\ maxK \in Nat /\ k <= maxK
          /\ stop \in {"run", "diff", "stagnation", "budget"} /\ r \in Int
Init == TypeOK /\ r = r0 /\ k = 0 /\ stop = "run"
DiffLg  == IF sign = "pos" THEN r ELSE 64
DeltaLg == IF sign = "pos" THEN r ELSE 2 * r
Step == /\ stop = "run" /\ k < maxK
        /\ ~(DiffLg < tolLg) /\ ~(DeltaLg < tolLg + LgMilli)
        /\ r' = r + d /\ k' = k + 1 /\ UNCHANGED <<r0, d, sign, tolLg, maxK, stop>>
StopDiff == stop = "run" /\ DiffLg < tolLg /\ stop' = "diff" /\ UNCHANGED <<r, r0, d, sign, tolLg, k, maxK>>
StopStagnation == stop = "run" /\ ~(DiffLg < tolLg) /\ DeltaLg < tolLg + LgMilli
                  /\ stop' = "stagnation" /\ UNCHANGED <<r, r0, d, sign, tolLg, k, maxK>>
StopBudget == stop = "run" /\ k = maxK /\ stop' = "budget" /\ UNCHANGED <<r, r0, d, sign, tolLg, k, maxK>>
Next == Step \/ StopDiff \/ StopStagnation \/ StopBudget
AccuracyAtStop == /\ stop = "diff" => r < tolLg
                  /\ stop = "stagnation" /\ sign = "neg" => 2 * r < tolLg + LgMilli
                  /\ stop = "stagnation" /\ sign = "pos" => r < tolLg + LgMilli
NegNeverStopsOnDiff == sign = "neg" /\ tolLg < 64 => stop # "diff"
ClosedForm == r = r0 + k * d
(* a run that took k >= 1 steps had not met a stop threshold one step earlier: stops are never late                  *)
NotLate == k >= 1 /\ sign = "pos" => ~((r - d) < tolLg) /\ ~((r - d) < tolLg + LgMilli)
NotLateNeg == k >= 1 /\ sign = "neg" => ~(2 * (r - d) < tolLg + LgMilli)
BudgetStop == stop = "budget" => k = maxK
IndInv == TypeOK /\ AccuracyAtStop /\ NegNeverStopsOnDiff /\ ClosedForm /\ NotLate /\ NotLateNeg /\ BudgetStop
IndInit == IndInv
(* vacuity probes: each must be violated                                                                               *)
NotLongRun == ~(k >= 100000 /\ stop = "run")
NotStagNeg == ~(stop = "stagnation" /\ sign = "neg" /\ k >= 1000)
NotDiffPos == ~(stop = "diff" /\ sign = "pos" /\ k >= 1000)
=============================================================================
