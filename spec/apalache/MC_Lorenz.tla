----------------------------- MODULE MC_Lorenz -----------------------------
(* Apalache wrapper: the index identity behind Lorenz.tla for EVERY signal length N (TLC checks it for N <= 7 on the     *)
(* actual padded sequence).  PadSample(n, p) is the sample number stored at position p of                              *)
(*   s_pad = s[-(n-1):] ++ s ++ s[:n-1]     (for n = 1 the first slice s[-0:] is all of s, so s_pad = s ++ s)           *)
(* written as piecewise-linear arithmetic; the claim is  PadSample(n, (n-1) + i - j) = (i - j) mod n  with the index in   *)
(* range, for all n >= 1 and 0 <= i, j < n.  One state, no transitions: the invariant is checked on every initial state. *)
EXTENDS Integers
VARIABLES
  \* @type: Int;
  n,
  \* @type: Int;
  i,
  \* @type: Int;
  j
PadLen(m) == IF m = 1 THEN 2 ELSE 3 * m - 2
PadSample(m, p) ==
  IF m = 1 THEN 0
  ELSE IF p < m - 1 THEN p + 1                    \* s[-(m-1):] holds samples 1 .. m-1
  ELSE IF p < 2 * m - 1 THEN p - (m - 1)          \* s
  ELSE p - (2 * m - 1)                            \* s[:m-1]
ModN(m, d) == IF d >= 0 THEN d ELSE d + m         \* (i - j) mod m for |i - j| < m
Init == /\ n \in Nat /\ n >= 1
        /\ i \in Nat /\ i < n
        /\ j \in Nat /\ j < n
Next == UNCHANGED <<n, i, j>>
Idx == (n - 1) + i - j
IndexInRange == Idx >= 0 /\ Idx < PadLen(n)
Circulant == PadSample(n, Idx) = ModN(n, i - j)
Inv == IndexInRange /\ Circulant
(* vacuity probe: must be violated (large n with i < j exists) *)
NotLarge == ~(n >= 1000 /\ i < j)
=============================================================================
