-------------------------------- MODULE ULib --------------------------------
(* The exact unitary library used to construct inputs with known spectra.      *)
(* A reflector  I - 2 v v^H / (v^H v)  with  v^H v = 2^p  has dyadic entries;     *)
(* it is stored here multiplied by 2^(p-1):  Rs = 2^(p-1) I - v v^H  (integers).   *)
(* TLC checks, for every vector of the library, that v^H v is the stated power     *)
(* of two and that Rs^H Rs = Rs Rs^H = 4^(p-1) I, i.e. the reflector is EXACTLY    *)
(* unitary; the harness compares its own floating-point construction entry by      *)
(* entry with the matrices dumped from this module.                                *)
EXTENDS QMat, TLC
VARIABLES idx, out
Q(name) == CASE name = "1" -> <<1,0,0,0>> [] name = "i" -> <<0,1,0,0>> [] name = "j" -> <<0,0,1,0>>
             [] name = "k" -> <<0,0,0,1>> [] name = "1+i" -> <<1,1,0,0>> [] name = "1+j" -> <<1,0,1,0>>
             [] name = "1+k" -> <<1,0,0,1>> [] name = "i+j" -> <<0,1,1,0>> [] name = "1+i+j+k" -> <<1,1,1,1>>
             [] name = "1-i+j-k" -> <<1,-1,1,-1>> [] name = "0" -> <<0,0,0,0>> [] name = "-1" -> <<-1,0,0,0>>
             [] name = "-j" -> <<0,0,-1,0>> [] name = "j+k" -> <<0,0,1,1>> [] name = "1-k" -> <<1,0,0,-1>>
Vecs == << <<"1","i">>, <<"j","k">>, <<"1+i","1+j">>, <<"1","-1">>,
           <<"1","1","1+i">>, <<"i","j","1+k">>, <<"1+j","k","1">>, <<"1+i","1+j","0">>,
           <<"1","i","j","k">>, <<"1","1","1","1">>, <<"1+i","1+j","1+k","i+j">>, <<"k","1","-j","i">>,
           <<"1","1","1","1","1+i+j+k">>, <<"i","j","k","1","1-i+j-k">>, <<"1+i","1+j","1","i","1+k">>,
           <<"1","1","1","1","1+i","1+j">>, <<"i","j","k","1","1+k","j+k">>, <<"1+i","1+j","1+k","i+j","0","0">> >>
VecQ(names) == [r \in 1..Len(names) |-> << Q(names[r]) >>]          \* n x 1 quaternion matrix
Norm2V(names) == Fro2(VecQ(names))
RECURSIVE Pow2(_)
Pow2(e) == IF e = 0 THEN 1 ELSE 2 * Pow2(e - 1)
IsPow2(x) == \E e \in 1..5 : x = Pow2(e)
Half(names) == Norm2V(names) \div 2                                 \* 2^(p-1)
Refl(names) == LET v == VecQ(names) n == Len(names)
               IN MSub(MScale(Half(names), Eye(n)), MMul(v, MHerm(v)))
ASSUME \A t \in 1..Len(Vecs) : IsPow2(Norm2V(Vecs[t]))
ASSUME \A t \in 1..Len(Vecs) :
         LET R == Refl(Vecs[t]) n == Len(Vecs[t]) h == Half(Vecs[t]) IN
         /\ MMul(MHerm(R), R) = MScale(h * h, Eye(n))
         /\ MMul(R, MHerm(R)) = MScale(h * h, Eye(n))
         /\ MHerm(R) = R                                             \* reflectors are Hermitian
Init == idx \in 1..Len(Vecs) /\ out = [names |-> Vecs[idx], half |-> Half(Vecs[idx]), Rs |-> Refl(Vecs[idx])]
Next == UNCHANGED <<idx, out>>
=============================================================================
