------------------------------- MODULE Library -------------------------------
(* System-level specification: the library as ONE transition system over a      *)
(* heap of matrices.  A heap cell is an abstract descriptor (LibraryDefs.tla);    *)
(* an action is one public operation applied to heap cells, appending the          *)
(* descriptors of its results, chosen from the composed contracts Out(...).        *)
(* Outputs of one routine are inputs of the next, so a behaviour checks            *)
(* cross-routine consistency: rank = number of non-zero singular values =           *)
(* n - nullity, QR of an orthonormal matrix, pseudoinverse of a Gram matrix, ...    *)
(* prog is a history variable; the harness executes every explored program on        *)
(* concrete matrices and validates the recorded events with LibraryTrace.tla.        *)
EXTENDS LibraryDefs, TLC
CONSTANTS MaxDim, MaxOps, MaxHeap
VARIABLES heap, prog
vars == <<heap, prog>>
(* the first heap cell comes from the harness ("input": any shape, rank, optionally      *)
(* Hermitian) or from the library's own generators, whose contracts are part of the      *)
(* system: create_test_matrix(m, n, rank) has the prescribed rank,                       *)
(* generate_random_unitary_matrix(n) is unitary.  The origin is the first program entry.  *)
Init ==
  \/ /\ \E m \in 1..MaxDim, n \in 1..MaxDim : \E r \in 0..Min2(m, n) : \E h \in BOOLEAN :
            /\ (h => m = n)
            /\ heap = << D(m, n, r, FALSE, h, FALSE) >>
      /\ prog = << <<"input", 0, 0>> >>
  \/ /\ \E m \in 1..MaxDim, n \in 1..MaxDim : \E r \in 1..Min2(m, n) : heap = << D(m, n, r, FALSE, FALSE, FALSE) >>
      /\ prog = << <<"create_test_matrix", 0, 0>> >>
  \/ /\ \E m \in 1..MaxDim, n \in 1..MaxDim : \E r \in 1..Min2(m, n) : heap = << D(m, n, r, FALSE, FALSE, FALSE) >>
      /\ prog = << <<"create_test_matrix_cond", 0, 0>> >>          \* same contract with a prescribed condition number
  \/ /\ \E n \in 1..MaxDim : heap = << D(n, n, n, TRUE, FALSE, FALSE) >>
      /\ prog = << <<"generate_random_unitary_matrix", 0, 0>> >>
Apply1(op, i) ==
  /\ Enabled1(op, heap[i]) /\ Len(prog) <= MaxOps
  /\ \E ds \in Out1W(op, heap[i]) :
        /\ Len(heap) + Len(ds) <= MaxHeap
        /\ \A k \in 1..Len(ds) : ~ds[k].tri \/ op \in {"qr", "lu"}   \* keep exploration small: free flags down unless promised
        /\ \A k \in 1..Len(ds) : ds[k].herm => (op \in {"gram", "tridiag"} \/ heap[i].herm)
        /\ \A k \in 1..Len(ds) : ds[k].orth => (op \in {"qr", "svd", "hess", "eig", "lu", "tridiag", "trunc1", "schur"} \/ heap[i].orth)
        /\ heap' = heap \o ds
  /\ prog' = Append(prog, <<op, i, 0>>)
ApplyMul(i, j) ==
  /\ heap[i].n = heap[j].m /\ Len(prog) <= MaxOps /\ Len(heap) < MaxHeap
  /\ \E ds \in OutMulW(heap[i], heap[j]) :
        /\ ~ds[1].herm /\ (ds[1].orth => heap[i].orth /\ heap[j].orth) /\ (ds[1].tri => heap[i].tri /\ heap[j].tri)
        /\ heap' = heap \o ds
  /\ prog' = Append(prog, <<"mul", i, j>>)
ApplyRank(i) == Len(prog) <= MaxOps /\ prog' = Append(prog, <<"rank", i, 0>>) /\ UNCHANGED heap
ApplyDet(i) == heap[i].m = heap[i].n /\ Len(prog) <= MaxOps /\ prog' = Append(prog, <<"det", i, 0>>) /\ UNCHANGED heap
Next == \E i \in 1..Len(heap) :
          \/ \E op \in Ops1 : Apply1(op, i)
          \/ ApplyRank(i)
          \/ ApplyDet(i)
          \/ \E j \in 1..Len(heap) : ApplyMul(i, j)
Spec == Init /\ [][Next]_vars
HeapWellFormed == \A i \in 1..Len(heap) : WellFormed(heap[i])
OrthImpliesFullColumnRank == \A i \in 1..Len(heap) : heap[i].orth => heap[i].r = heap[i].n
=============================================================================
