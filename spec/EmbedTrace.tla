----------------------------- MODULE EmbedTrace -----------------------------
(* C02: the real (4m x 4n, interleaved and component-blocked) and complex    *)
(* (2n x 2n adjoint) embeddings are faithful *-homomorphisms.               *)
(*                                                                          *)
(* Conformance is LAW based: the property demands *a* faithful              *)
(* *-homomorphism, not a particular layout.  The harness records the integer *)
(* matrices the code returns for basis elements, signed pairs, catalogue and *)
(* random integer matrices; this module checks the laws on the RECORDED      *)
(* matrices, evaluating every product/transpose/sum itself.  Equality with   *)
(* the layouts documented in QMat.tla (Chi4I, Chi4B, Chi2) is a mechanism    *)
(* clause ("M:" prefix -> DRIFT).                                            *)
EXTENDS QMat, TLC, Json, IOUtils

TraceLog == ndJsonDeserialize(IOEnv.TRACE_FILE)
VARIABLES l, nbad
tvars == <<l, nbad>>

(* ---- complex matrices: entries <<re, im>> ------------------------------ *)
CAdd(a, b) == <<a[1] + b[1], a[2] + b[2]>>
CMul(a, b) == <<a[1]*b[1] - a[2]*b[2], a[1]*b[2] + a[2]*b[1]>>
RECURSIVE CSumSeq(_)
CSumSeq(s) == IF s = <<>> THEN <<0, 0>> ELSE CAdd(Head(s), CSumSeq(Tail(s)))
CMMul(A, B) == [i \in 1..Len(A) |-> [j \in 1..Len(B[1]) |->
                  CSumSeq([k \in 1..Len(B) |-> CMul(A[i][k], B[k][j])])]]
CMHerm(A) == [j \in 1..Len(A[1]) |-> [i \in 1..Len(A) |-> <<A[i][j][1], -A[i][j][2]>>]]
CMAdd(A, B) == [i \in 1..Len(A) |-> [j \in 1..Len(A[1]) |-> CAdd(A[i][j], B[i][j])]]
CFro2(A) == ISumSeq([i \in 1..Len(A) |-> ISumSeq([j \in 1..Len(A[1]) |->
                  A[i][j][1]*A[i][j][1] + A[i][j][2]*A[i][j][2]])])
(* complex adjoint, x-axis subfield:  [[C, D], [-conj D, conj C]],           *)
(* C = w + i x, D = y + i z                                                  *)
Chi2(A) == LET n == NRows(A) IN
  [r \in 1..2*n |-> [c \in 1..2*n |->
     LET q == A[((r-1) % n) + 1][((c-1) % n) + 1] IN
     IF r <= n /\ c <= n THEN <<q[1], q[2]>>
     ELSE IF r <= n /\ c > n THEN <<q[3], q[4]>>
     ELSE IF r > n /\ c <= n THEN <<-q[3], q[4]>>
     ELSE <<q[1], -q[2]>>]]

IsC(e) == e.fn = "complex_adjoint"
Mul(e, X, Y)  == IF IsC(e) THEN CMMul(X, Y) ELSE IMMul(X, Y)
Star(e, X)    == IF IsC(e) THEN CMHerm(X)   ELSE IMTrans(X)
Plus(e, X, Y) == IF IsC(e) THEN CMAdd(X, Y) ELSE IMAdd(X, Y)
N2(e, X)      == IF IsC(e) THEN CFro2(X)    ELSE IFro2(X)
Factor(e)     == IF IsC(e) THEN 2 ELSE 4
Layout(e, A)  == IF e.fn = "real_expand" THEN Chi4I(A)
                 ELSE IF e.fn = "Realp" THEN Chi4B(A) ELSE Chi2(A)

Failed(e) ==
  CASE e.op = "emb" ->
         { c \in {"NormScaling"} : N2(e, e.RA) # Factor(e) * Fro2(e.A) }
         \cup { c \in {"M:Layout"} : e.RA # Layout(e, e.A) }
    [] e.op = "mul" ->
         { c \in {"OracleProduct"}  : e.AB # MMul(e.A, e.B) }
         \cup { c \in {"Multiplicative"} : Mul(e, e.RA, e.RB) # e.RAB }
    [] e.op = "herm" ->
         { c \in {"OracleHerm"} : e.AH # MHerm(e.A) }
         \cup { c \in {"StarPreserving"} : Star(e, e.RA) # e.RAH }
    [] e.op = "add" ->
         { c \in {"OracleSum"} : e.S # MAdd(e.A, e.B) }
         \cup { c \in {"Additive"} : Plus(e, e.RA, e.RB) # e.RS }
    [] e.op = "contract" ->
         { c \in {"RoundTrip"} : e.C # e.A }
    [] e.op = "split" ->
         { c \in {"SplitLossless"} : e.C # e.A }
    [] e.op = "flag" ->
         { c \in {e.clause} : ~e.ok }
    [] OTHER -> {"UnknownEvent"}

TInit == l = 1 /\ nbad = 0
TNext ==
  /\ l <= Len(TraceLog)
  /\ LET e == TraceLog[l]
         f == Failed(e)
     IN  /\ \A c \in f : PrintT(<<"V", "bad", e.tid, c>>)
         /\ nbad' = nbad + Cardinality(f)
  /\ l' = l + 1
Report == l = Len(TraceLog) + 1 => PrintT(<<"V", "consumed", l - 1>>)

(* spec-side sanity of the documented layouts on all basis pairs of 1x1 and  *)
(* a 2x2 case: they are *-homomorphisms themselves                           *)
ASSUME \A p \in Q8, q \in Q8 :
         /\ CMMul(Chi2(<<<<p>>>>), Chi2(<<<<q>>>>)) = Chi2(<<<<QMul(p, q)>>>>)
         /\ CMHerm(Chi2(<<<<p>>>>)) = Chi2(<<<<QConj(p)>>>>)
         /\ IMMul(Chi4B(<<<<p>>>>), Chi4B(<<<<q>>>>)) = Chi4B(<<<<QMul(p, q)>>>>)
ASSUME LET A == << <<<<1,2,0,-1>>, <<0,1,1,0>>>>, <<<<2,0,0,3>>, <<-1,0,2,0>>>> >>
           B == << <<<<0,1,0,2>>, <<1,0,0,0>>>>, <<<<1,1,-1,0>>, <<0,0,3,1>>>> >>
       IN /\ IMMul(Chi4I(A), Chi4I(B)) = Chi4I(MMul(A, B))
          /\ IMMul(Chi4B(A), Chi4B(B)) = Chi4B(MMul(A, B))
          /\ CMMul(Chi2(A), Chi2(B)) = Chi2(MMul(A, B))
          /\ IMTrans(Chi4I(A)) = Chi4I(MHerm(A)) /\ IMTrans(Chi4B(A)) = Chi4B(MHerm(A))
          /\ CMHerm(Chi2(A)) = Chi2(MHerm(A))
=============================================================================
