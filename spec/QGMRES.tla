------------------------------- MODULE QGMRES -------------------------------
(* C04: Q-GMRES as a transition system, abstracted to what the property     *)
(* talks about.  The solver runs cycles m = 1, 2, ..., N; cycle m restarts   *)
(* from the current iterate and minimises the residual over the             *)
(* m-dimensional Krylov space of the current residual.                       *)
(*                                                                          *)
(*   g     grade of the right-hand side w.r.t. the (preconditioned) matrix:  *)
(*         the dimension at which the Krylov space becomes invariant; the    *)
(*         iterate of an invariant space is the exact solution ("lucky       *)
(*         breakdown").  g = 1 for scaled identities and exact               *)
(*         preconditioners, g = number of distinct eigenvalues excited by b  *)
(*         for normal matrices.                                              *)
(*   lvl   residual level on an abstract grid LMax (=|b|) .. 1, 0 = solved   *)
(*         to rounding.  tolL in 1..LMax is the tolerance: "res < tol" is    *)
(*         lvl < tolL.                                                       *)
(*   cap   iteration cap (NoCap = none): the stop test is  m > cap.          *)
EXTENDS Integers, Sequences, TLC

CONSTANTS MaxN, LMax
NoCap == 99

VARIABLES N, g, cap, tolL, prec, luFault, bzero,   \* the call (fixed)
          geff, m, j, kdim, lvl, hist, bd, pc, ret
vars == <<N, g, cap, tolL, prec, luFault, bzero, geff, m, j, kdim, lvl, hist, bd, pc, ret>>
params == <<N, g, cap, tolL, prec, luFault, bzero>>

Init ==
  /\ N \in 1..MaxN /\ g \in 1..N
  /\ cap \in (0..N) \cup {NoCap}
  /\ tolL \in 1..LMax
  /\ prec \in {"none", "left_lu"} /\ luFault \in BOOLEAN /\ bzero \in BOOLEAN
  /\ (luFault => prec = "left_lu")
  /\ geff = g /\ m = 0 /\ j = 0 /\ kdim = 0 /\ lvl = LMax /\ hist = <<>> /\ bd = 0
  /\ pc = "start" /\ ret = <<>>

(* b = 0: the answer is x = 0, no cycle is run                              *)
ZeroRhs ==
  /\ pc = "start" /\ bzero
  /\ ret' = [xzero |-> TRUE, lvl |-> 0, reported |-> 0, converged |-> TRUE, iters |-> 0]
  /\ pc' = "done"
  /\ UNCHANGED <<params, geff, m, j, kdim, lvl, hist, bd>>

(* exact LU preconditioner: M^-1 A = I, grade 1.  A failing LU is swallowed  *)
(* and the solver continues unpreconditioned (named deviation: silent).      *)
Precondition ==
  /\ pc = "start" /\ ~bzero
  /\ geff' = IF prec = "left_lu" /\ ~luFault THEN 1 ELSE g
  /\ m' = 1 /\ pc' = "cycle"
  /\ UNCHANGED <<params, j, kdim, lvl, hist, bd, ret>>

(* one restart cycle of dimension m, step by step.  ArnoldiStep extends the   *)
(* Krylov basis of the current residual while the space is not yet invariant;  *)
(* LuckyBreakdown fires at step j = geff <= m (the next basis vector vanishes: *)
(* the space is invariant) and ends the Arnoldi phase EARLY with kdim = j;      *)
(* SolveSmall is the Givens QR + triangular solve of the (kdim+1) x kdim        *)
(* Hessenberg system: the iterate minimises the residual over the kdim-         *)
(* dimensional space - exactly (level 0) iff that space is invariant.           *)
ArnoldiStep ==
  /\ pc = "cycle" /\ j < m /\ geff > j + 1       \* at j + 1 = geff the step is a breakdown, not a regular step
  /\ j' = j + 1
  /\ UNCHANGED <<params, geff, m, lvl, hist, bd, kdim, pc, ret>>
LuckyBreakdown ==
  /\ pc = "cycle" /\ j < m /\ geff = j + 1
  /\ j' = j + 1 /\ kdim' = j + 1 /\ bd' = j + 1 /\ pc' = "solve"
  /\ UNCHANGED <<params, geff, m, lvl, hist, ret>>
FullCycle ==
  /\ pc = "cycle" /\ j = m                        \* m regular steps done, no breakdown: geff > m
  /\ kdim' = m /\ bd' = 0 /\ pc' = "solve"
  /\ UNCHANGED <<params, geff, m, j, lvl, hist, ret>>
SolveSmall ==
  /\ pc = "solve"
  /\ \E nl \in 0..lvl :
        /\ (bd # 0 => nl = 0)                      \* invariant space: exact
        /\ (bd = 0 => nl >= 1)                     \* otherwise minimised, not yet zero, never larger
        /\ lvl' = nl /\ hist' = Append(hist, nl)
  /\ pc' = "test"
  /\ UNCHANGED <<params, geff, m, j, bd, kdim, ret>>

Test ==
  /\ pc = "test"
  /\ IF lvl < tolL \/ m > cap \/ m = N
     THEN /\ ret' = [xzero |-> FALSE, lvl |-> lvl, reported |-> lvl,
                     converged |-> (lvl < tolL), iters |-> m]
          /\ pc' = "done" /\ UNCHANGED <<m, j>>
     ELSE /\ m' = m + 1 /\ j' = 0 /\ pc' = "cycle" /\ UNCHANGED ret
  /\ UNCHANGED <<params, geff, kdim, lvl, hist, bd>>

Next == ZeroRhs \/ Precondition \/ ArnoldiStep \/ LuckyBreakdown \/ FullCycle \/ SolveSmall \/ Test
Spec == Init /\ [][Next]_vars

(* ---- clauses of the property, as invariants on the returned record ------ *)
Done == pc = "done"
Truthful   == Done => ret.reported = ret.lvl
ConvSound  == Done => (ret.converged => ret.lvl < tolL)
HistMono   == \A k \in 1..Len(hist) - 1 : hist[k + 1] <= hist[k]
AtMostN    == Done /\ cap = NoCap => ret.converged /\ ret.iters <= N
ZeroRhsZero == Done /\ bzero => ret.xzero /\ ret.lvl = 0
(* preconditioning changes the iteration count, never the answer: with no    *)
(* cap both configurations end solved                                        *)
PrecIndependent == Done /\ cap = NoCap => ret.lvl < tolL
(* the breakdown cycle is the last one                                       *)
BreakdownEnds == bd # 0 /\ pc = "test" => lvl = 0
(* a cycle is cut short (kdim < m) only by a breakdown, and then at the grade   *)
ShortCycleIsBreakdown == pc \in {"solve", "test"} /\ kdim < m => bd = kdim /\ kdim = geff
KdimBound == kdim <= m
IterBound  == Done /\ ~bzero => ret.iters <= N /\ (cap # NoCap => ret.iters <= cap + 1)
=============================================================================
