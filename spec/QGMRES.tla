------------------------------- MODULE QGMRES -------------------------------
(* C04: Q-GMRES as a transition system, abstracted to what the property     *)
(* talks about.  The solver runs cycles m = 1, 2, ..., N; cycle m restarts   *)
(* from the current iterate and minimises the residual over the             *)
(* m-dimensional Krylov space of the current residual.                       *)
(*                                                                          *)
(*   g     grade of the right-hand side w.r.t. the (preconditioned) matrix:  *)
(*         the dimension at which the Krylov space becomes invariant; the    *)
(*         iterate of an invariant space is the exact solution ("lucky       *)
(*         breakdown").  g = 1 for scaled identities and exact               *)
(*         preconditioners, g = number of distinct eigenvalues excited by b  *)
(*         for normal matrices.                                              *)
(*   lvl   residual level on an abstract grid LMax (=|b|) .. 1, 0 = solved   *)
(*         to rounding.  tolL in 1..LMax is the tolerance: "res < tol" is    *)
(*         lvl < tolL.                                                       *)
(*   cap   iteration cap (NoCap = none): the stop test is  m > cap.          *)
EXTENDS Integers, Sequences, TLC

CONSTANTS MaxN, LMax
NoCap == 99

VARIABLES N, g, cap, tolL, prec, luFault, bzero,   \* the call (fixed)
          geff, m, lvl, hist, bd, pc, ret
vars == <<N, g, cap, tolL, prec, luFault, bzero, geff, m, lvl, hist, bd, pc, ret>>
params == <<N, g, cap, tolL, prec, luFault, bzero>>

Init ==
  /\ N \in 1..MaxN /\ g \in 1..N
  /\ cap \in (0..N) \cup {NoCap}
  /\ tolL \in 1..LMax
  /\ prec \in {"none", "left_lu"} /\ luFault \in BOOLEAN /\ bzero \in BOOLEAN
  /\ (luFault => prec = "left_lu")
  /\ geff = g /\ m = 0 /\ lvl = LMax /\ hist = <<>> /\ bd = 0
  /\ pc = "start" /\ ret = <<>>

(* b = 0: the answer is x = 0, no cycle is run                              *)
ZeroRhs ==
  /\ pc = "start" /\ bzero
  /\ ret' = [xzero |-> TRUE, lvl |-> 0, reported |-> 0, converged |-> TRUE, iters |-> 0]
  /\ pc' = "done"
  /\ UNCHANGED <<params, geff, m, lvl, hist, bd>>

(* exact LU preconditioner: M^-1 A = I, grade 1.  A failing LU is swallowed  *)
(* and the solver continues unpreconditioned (named deviation: silent).      *)
Precondition ==
  /\ pc = "start" /\ ~bzero
  /\ geff' = IF prec = "left_lu" /\ ~luFault THEN 1 ELSE g
  /\ m' = 1 /\ pc' = "cycle"
  /\ UNCHANGED <<params, lvl, hist, bd, ret>>

(* one restart cycle of dimension m.  If the Krylov space becomes invariant  *)
(* within the cycle (geff <= m) Arnoldi breaks down at step geff and the     *)
(* iterate of THAT space solves the system.  Otherwise the residual is        *)
(* minimised over the cycle's space: it cannot increase and is not yet 0.    *)
Cycle ==
  /\ pc = "cycle"
  /\ \E nl \in 0..lvl :
        /\ (geff <= m => nl = 0)
        /\ (geff > m  => nl >= 1)
        /\ lvl' = nl /\ hist' = Append(hist, nl)
  /\ bd' = IF geff <= m THEN geff ELSE 0
  /\ pc' = "test"
  /\ UNCHANGED <<params, geff, m, ret>>

Test ==
  /\ pc = "test"
  /\ IF lvl < tolL \/ m > cap \/ m = N
     THEN /\ ret' = [xzero |-> FALSE, lvl |-> lvl, reported |-> lvl,
                     converged |-> (lvl < tolL), iters |-> m]
          /\ pc' = "done" /\ UNCHANGED m
     ELSE /\ m' = m + 1 /\ pc' = "cycle" /\ UNCHANGED ret
  /\ UNCHANGED <<params, geff, lvl, hist, bd>>

Next == ZeroRhs \/ Precondition \/ Cycle \/ Test
Spec == Init /\ [][Next]_vars

(* ---- clauses of the property, as invariants on the returned record ------ *)
Done == pc = "done"
Truthful   == Done => ret.reported = ret.lvl
ConvSound  == Done => (ret.converged => ret.lvl < tolL)
HistMono   == \A k \in 1..Len(hist) - 1 : hist[k + 1] <= hist[k]
AtMostN    == Done /\ cap = NoCap => ret.converged /\ ret.iters <= N
ZeroRhsZero == Done /\ bzero => ret.xzero /\ ret.lvl = 0
(* preconditioning changes the iteration count, never the answer: with no    *)
(* cap both configurations end solved                                        *)
PrecIndependent == Done /\ cap = NoCap => ret.lvl < tolL
(* the breakdown cycle is the last one                                       *)
BreakdownEnds == bd # 0 /\ pc = "test" => lvl = 0
IterBound  == Done /\ ~bzero => ret.iters <= N /\ (cap # NoCap => ret.iters <= cap + 1)
=============================================================================
