------------------------------- MODULE History -------------------------------
(* C14: results depend only on configuration and arguments.                   *)
(* One solver object o with constructor configuration cfg is called on a       *)
(* history of problems drawn from a pool (different sizes / ranks).  The       *)
(* object's fields cur must stay equal to cfg, and each call's result must      *)
(* equal F(cfg, p, rng): what a FRESH object with the same configuration        *)
(* returns for p under the same state of the global random generator.           *)
(*                                                                            *)
(* Effective parameters (what F uses) are derived per call and never stored:    *)
(*   effective cap   = size(p)                 when cfg.cap   = NoCap           *)
(*   effective block = min(cfg.block, m, n)                                     *)
(* The deviation "store the effective parameter in the object" is NOT an action  *)
(* of this specification; an implementation that does it produces traces with    *)
(* cur # cfg, which the trace specification rejects.                             *)
EXTENDS Integers, Sequences, FiniteSets, TLC

CONSTANTS Pool,        \* problem ids 1..P
          MaxLen,      \* longest history
          Configs      \* configuration ids
NoCap == 99
(* abstract sizes of the pool problems: id -> <<m, n>>                          *)
Size(p) == CASE p = 1 -> <<2, 2>> [] p = 2 -> <<5, 3>> [] p = 3 -> <<3, 3>> [] OTHER -> <<6, 4>>
Cap(c)   == CASE c = 1 -> NoCap [] c = 2 -> 2 [] OTHER -> NoCap
Block(c) == CASE c = 1 -> 16 [] c = 2 -> 2 [] OTHER -> 3
Min2(a, b) == IF a < b THEN a ELSE b
EffCap(c, p)   == IF Cap(c) = NoCap THEN Size(p)[2] ELSE Cap(c)
EffBlock(c, p) == Min2(Block(c), Min2(Size(p)[1], Size(p)[2]))

VARIABLES cfg, cur, hist, eff, pc
vars == <<cfg, cur, hist, eff, pc>>

Init == /\ cfg \in Configs /\ cur = cfg /\ hist = <<>> /\ eff = <<>> /\ pc = "ready"
Call(p) ==
  /\ pc = "ready" /\ Len(hist) < MaxLen
  /\ hist' = Append(hist, p)
  /\ eff' = Append(eff, <<EffCap(cfg, p), EffBlock(cfg, p)>>)    \* derived, used, forgotten
  /\ UNCHANGED <<cfg, cur, pc>>
Finish == pc = "ready" /\ Len(hist) >= 1 /\ pc' = "done" /\ UNCHANGED <<cfg, cur, hist, eff>>
Next == (\E p \in Pool : Call(p)) \/ Finish
Spec == Init /\ [][Next]_vars

ConfigStable   == cur = cfg
(* the effective parameters of call k depend on cfg and problem k only,        *)
(* not on earlier calls                                                        *)
NoCarryOver    == \A i \in 1..Len(hist) : eff[i] = <<EffCap(cfg, hist[i]), EffBlock(cfg, hist[i])>>
Reproducible   == \A i, j \in 1..Len(hist) : hist[i] = hist[j] => eff[i] = eff[j]
=============================================================================
