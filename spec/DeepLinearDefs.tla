-------------------------- MODULE DeepLinearDefs --------------------------
(* The block-coordinate-descent machine of DeepLinearNewtonSchulz.compute as operators on a state record,  *)
(* shared by the specification DeepLinear.tla (checked by TLC) and by DeepLinearTrace.tla (which steps the   *)
(* same operators along recorded runs of the real solver).  See DeepLinear.tla for the description.          *)
EXTENDS Integers, Sequences, FiniteSets
(* ---- the machine as operators on a state record ---------------------------------------------------- *)
(* cfg = [d, inner, max_iter];  s = [pc, sweep, layer, rep, ver, nh]                                    *)
(* ver[i]: how many times W_i has been assigned;  nh: length of the error history                       *)
Start(cfg) == [pc |-> IF cfg.max_iter = 0 THEN "return" ELSE "askX", sweep |-> 1, layer |-> 1, rep |-> 1,
               ver |-> [i \in 1..cfg.d |-> 0], nh |-> 0]
(* versions the factor asked for must have been built from *)
XDeps(cfg, s) == [j \in 1..(s.layer - 1) |-> s.ver[j]]
WDeps(cfg, s) == [j \in (s.layer + 1)..cfg.d |-> s.ver[j]]
AskX(cfg, s) == [s EXCEPT !.pc = IF s.layer < cfg.d THEN "askW" ELSE "assign"]
AskW(cfg, s) == [s EXCEPT !.pc = "assign"]
Assign(cfg, s) == [s EXCEPT !.ver[s.layer] = @ + 1,
                            !.pc = IF s.rep = cfg.inner THEN "clip" ELSE "askX",
                            !.rep = IF s.rep = cfg.inner THEN 1 ELSE @ + 1]
Clip(cfg, s) == [s EXCEPT !.pc = IF s.layer = cfg.d THEN "record" ELSE "askX",
                          !.layer = IF s.layer = cfg.d THEN 1 ELSE @ + 1]
(* below: the recorded error is below tol *)
Record(cfg, s, below) == [s EXCEPT !.nh = @ + 1,
                                   !.pc = IF below \/ s.sweep = cfg.max_iter THEN "return" ELSE "askX",
                                   !.sweep = IF below \/ s.sweep = cfg.max_iter THEN @ ELSE @ + 1]

=============================================================================
