----------------------------- MODULE QuatLemmas -----------------------------
(* TLC-checked lemmas about Quat.tla / QMat.tla on bounded carriers.        *)
EXTENDS QMat, TLC
CONSTANT R
VARIABLE done
S == QCube(R)
ASSUME LemmaDefining
ASSUME LemmaConj(S)
ASSUME LemmaNorm(S)
ASSUME LemmaAssoc(Q8 \cup {<<1,1,0,0>>, <<0,1,-1,1>>, <<2,0,1,-1>>})   \* trilinear: basis suffices
ASSUME LemmaDistrib(Q8)
ASSUME \A p \in Q8, q \in Q8 : QMul(p, q) \in Q8
ASSUME \E p \in Q8, q \in Q8 : QMul(p, q) # QMul(q, p)
(* the real embeddings are multiplicative on all pairs of 1x1 matrices      *)
ASSUME \A p \in QCube(1), q \in QCube(1) :
          /\ IMMul(Chi4I(<<<<p>>>>), Chi4I(<<<<q>>>>)) = Chi4I(<<<<QMul(p, q)>>>>)
          /\ Chi4I(<<<<QConj(p)>>>>) = IMTrans(Chi4I(<<<<p>>>>))
          /\ Chi4B(<<<<p>>>>) = Chi4I(<<<<p>>>>)
Init == done = FALSE
Next == done' = TRUE
=============================================================================
