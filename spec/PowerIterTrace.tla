--------------------------- MODULE PowerIterTrace ---------------------------
(* Trace validation for power_iteration / power_iteration_nonhermitian (C19).  *)
(*   Start(lam pattern, tol, gap)  Iter(k, r_lg)*  Return(...)                   *)
(* Iter(k) is the vector returned for max_iterations = k under one seed,         *)
(* projected onto the known eigenbasis.                                          *)
EXTENDS Integers, Sequences, FiniteSets, TLC, Json, IOUtils
CONSTANTS DecaySlack, UnitBound, FloorLg, ResSlack
TraceLog == ndJsonDeserialize(IOEnv.TRACE_FILE)
VARIABLES l, par, pr, pk, nbad
tvars == <<l, par, pr, pk, nbad>>
Near(a, b, s) == a - b <= s /\ b - a <= s
Max2(a, b) == IF a > b THEN a ELSE b
LgMilli == -638
FloorV == -2880
Bad(e) ==
  CASE e.ev = "Start" -> {}
    [] e.ev = "Iter" ->
         { c \in {"M:DecayLaw"} : pk >= 1 /\ e.k = pk + 1 /\ ~e.stopped /\ pr > FloorLg /\ e.r_lg > FloorLg
                                   /\ ~Near(e.r_lg - pr, par.gap_lg, DecaySlack) }
         \cup { c \in {"UnitNorm"} : e.unit_units > UnitBound }
    [] e.ev = "Return" ->
         { c \in {"UnitNorm"} : e.unit_units > UnitBound }
         \cup { c \in {"EstimateLeSpectralNorm"} : e.ev_excess_units > UnitBound }
         \cup { c \in {"EstimateIsDominantModulus"} : e.hermitian_gap /\ e.everr_lg > Max2(e.bound_lg + ResSlack, FloorLg) }
         \cup { c \in {"VectorIsEigenvector"} : e.hermitian_gap /\ e.resid_lg > Max2(e.bound_lg + ResSlack, FloorLg) }
         \cup { c \in {"Finite"} : ~e.finite }
    [] e.ev = "NonHerm" ->
         { c \in {"UnitNormAdjointVariant"} : e.unit_units > UnitBound }
         \cup { c \in {"RealEigenvalueForHermitian"} : e.hermitian /\ ~e.eig_real }
         \cup { c \in {"ShapeOfVector"} : ~e.shape_ok }
         \cup { c \in {"M:EigenvalueIndependentOfReturnVector"} : ~e.novec_same }
    [] OTHER -> {"UnknownEvent"}
TInit == l = 1 /\ par = <<>> /\ pr = 0 /\ pk = -1 /\ nbad = 0
TNext ==
  /\ l <= Len(TraceLog)
  /\ LET e == TraceLog[l]
         f == Bad(e)
     IN  /\ \A c \in f : PrintT(<<"V", "bad", e.tid, c>>)
         /\ nbad' = nbad + Cardinality(f)
         /\ CASE e.ev = "Start" -> par' = e /\ pr' = 0 /\ pk' = -1
              [] e.ev = "Iter"  -> pr' = e.r_lg /\ pk' = e.k /\ UNCHANGED par
              [] OTHER -> UNCHANGED <<par, pr, pk>>
  /\ l' = l + 1
Report == l = Len(TraceLog) + 1 => PrintT(<<"V", "consumed", l - 1>>)
=============================================================================
