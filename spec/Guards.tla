------------------------------- MODULE Guards -------------------------------
(* C20: arguments outside an operation's domain are rejected loudly.          *)
(* The table is DERIVED, not listed: each entry point has domain attributes     *)
(* (what it requires of its argument), each argument class has properties, and   *)
(*     Expected(ep, cls) = IF InDomain(ep, cls) THEN "returns" ELSE "raises".    *)
(* A class is applicable to an entry point only if it probes one of the          *)
(* requirements the entry point documents (the check never demands guards the    *)
(* library did not promise), plus the in-domain boundary classes.                *)
EXTENDS Integers, Sequences, FiniteSets, TLC

(* requirements an entry point may have *)
Reqs == {"square", "hermitian", "min2", "tall", "wide", "quat", "dense", "option", "coupled", "order3", "fullrank", "realscalar", "operandtype", "conformable"}

(* entry point -> set of requirements (from the documented guards) *)
EP == [
  induced_matrix_norm_1 |-> {"quat", "dense"},
  induced_matrix_norm_inf |-> {"quat", "dense"},
  spectral_norm_2 |-> {"quat", "dense"},
  matrix_norm |-> {"option"},
  real_expand |-> {"quat"},
  real_contract |-> {"coupled"},
  quaternion_to_complex_adjoint |-> {"square", "quat", "option"},
  ishermitian |-> {"square"},
  det_dieudonne |-> {"square", "option"},
  det_moore |-> {"square", "hermitian"},
  power_iteration |-> {"square"},
  quat_null_space |-> {"option"},
  UtriangleQsparse |-> {"coupled"},
  quaternion_lu |-> {"quat", "fullrank"},      \* documented: raises when a column has no non-zero pivot (C07)
  tridiagonalize |-> {"square", "hermitian", "min2"},
  quaternion_eigendecomposition |-> {"square", "hermitian"},
  quaternion_eigenvalues |-> {"square", "hermitian"},
  quaternion_eigenvectors |-> {"square", "hermitian"},
  hessenbergize |-> {"square"},
  quaternion_schur |-> {"square"},
  quaternion_schur_pure |-> {"square"},
  quaternion_schur_pure_implicit |-> {"square"},
  quaternion_schur_unified |-> {"square"},
  quaternion_schur_experimental |-> {"square"},
  qgmres_solve |-> {"square", "coupled"},
  qgmres_solve_left_lu |-> {"square", "coupled"},
  rsp_column |-> {"tall"},
  rsp_row |-> {"wide"},
  hybrid_compute |-> {"tall"},
  cgne_compute |-> {"tall"},
  deeplinear_compute |-> {"coupled"},            \* DeepLinearNewtonSchulz.compute(X, layers): layers[0] is the number of columns of X
  tensor_unfold |-> {"order3", "quat", "option"},
  tensor_fold |-> {"coupled", "option"},
  tensor_unfold_mode0 |-> {"order3", "quat", "option"},
  tensor_unfold_mode2 |-> {"order3", "quat", "option"},
  tensor_fold_mode0 |-> {"coupled", "option"},
  tensor_fold_mode2 |-> {"coupled", "option"},
  quaternion_modulus |-> {"quat"},
  quaternion_triu |-> {"quat"},
  quaternion_tril |-> {"quat"},
  normQsparse |-> {"option"},
  sparse_scalar_mul |-> {"realscalar"},          \* SparseQuaternionMatrix * c and c * SparseQuaternionMatrix: real scalars only
  sparse_matmul |-> {"operandtype"},             \* SparseQuaternionMatrix @ x: quaternion ndarray or SparseQuaternionMatrix only
  product_planes |-> {"conformable"},            \* timesQsparse(B0..B3, C0..C3): inner dimensions agree
  product_dense |-> {"conformable"},             \* quat_matmat(A, B), dense @ dense
  product_sparse_dense |-> {"conformable"},      \* quat_matmat / @ with a SparseQuaternionMatrix on the left
  product_dense_sparse |-> {"conformable"},      \* quat_matmat with a SparseQuaternionMatrix on the right
  product_sparse_sparse |-> {"conformable"},     \* SparseQuaternionMatrix @ SparseQuaternionMatrix
  apply_blur_fft |-> {"option"},
  qslst_restore_fft |-> {"option"},
  qslst_restore_matrix |-> {"coupled"},
  rgb_to_quat |-> {"coupled"},
  quat_to_rgb |-> {"coupled"},
  householder_vector |-> {"coupled"},
  classical_qsvd_full |-> {},
  classical_qsvd |-> {},
  qr_qua |-> {},
  rank |-> {},
  quat_matmat |-> {},
  quat_frobenius_norm |-> {},
  ns_compute |-> {},
  hon_compute |-> {},
  rsp_compute |-> {}
]
Names == DOMAIN EP

(* argument class -> the requirement it violates ("" for in-domain classes)   *)
Violates == [
  ok_generic |-> "", ok_square_hermitian |-> "", ok_1x1 |-> "", ok_1xn |-> "", ok_nx1 |-> "", ok_rank_deficient |-> "",
  nonsquare |-> "square", nonsquare_wide |-> "square", nonhermitian |-> "hermitian", nonhermitian_diagonal |-> "hermitian",
  nonhermitian_w |-> "hermitian", nonhermitian_x |-> "hermitian", nonhermitian_y |-> "hermitian", nonhermitian_z |-> "hermitian",
  nonhermitian_diagonal_x |-> "hermitian", nonhermitian_diagonal_y |-> "hermitian", nonhermitian_diagonal_z |-> "hermitian", too_small |-> "min2",
  wide_for_tall |-> "tall", tall_for_wide |-> "wide", real_dtype |-> "quat", complex_dtype |-> "quat",
  sparse_storage |-> "dense", unknown_option |-> "option", mismatched_pair |-> "coupled",
  unknown_option_fragment |-> "option", unknown_option_empty |-> "option", unknown_option_case |-> "option", unknown_option_type |-> "option",
  not_order3 |-> "order3",
  complex_scalar |-> "realscalar", numpy_complex_scalar |-> "realscalar", nonnumeric_scalar |-> "realscalar", quaternion_scalar |-> "realscalar",
  unsupported_operand |-> "operandtype",
  inner_mismatch |-> "conformable", inner_mismatch_1x1_right |-> "conformable", inner_mismatch_1x1_left |-> "conformable",
  inner_mismatch_vector |-> "conformable", outer_swapped |-> "conformable"
]
Classes == DOMAIN Violates
(* boundary shapes that are themselves out of the domain of some entry points   *)
ShapeOf == [ok_generic |-> "tall3x2", ok_square_hermitian |-> "sq3h", ok_1x1 |-> "1x1", ok_1xn |-> "1xn", ok_nx1 |-> "nx1", ok_rank_deficient |-> "rankdef4x3"]

InDomain(ep, cls) ==
  IF Violates[cls] # "" THEN FALSE
  ELSE LET sh == ShapeOf[cls] R == EP[ep] IN
       /\ ("square" \in R => sh \in {"1x1", "sq3h"})
       /\ ("min2" \in R => sh # "1x1")
       /\ ("tall" \in R => sh \in {"tall3x2", "1x1", "nx1", "sq3h", "rankdef4x3"})
       /\ ("wide" \in R => sh \in {"1x1", "1xn", "sq3h"})
       /\ ("hermitian" \in R => sh \in {"1x1", "sq3h"})
       /\ ("fullrank" \in R => sh # "rankdef4x3")
Applicable(ep, cls) ==
  \/ Violates[cls] = ""                        \* in-domain boundary classes: every entry point
  \/ Violates[cls] \in EP[ep]                  \* out-of-domain class probing a documented requirement
Expected(ep, cls) == IF InDomain(ep, cls) THEN "returns" ELSE "raises"

(* HOW a guard is written decides under which interpreter it exists.  An explicit `if ...: raise` fires always; an     *)
(* `assert` statement, or a check inside `if __debug__:`, is not compiled under python -O / PYTHONOPTIMIZE=1.          *)
(* Mechanism is the table of the tree under test: on the pinned tree five checks of quatica/qslst.py were asserts      *)
(* (MechanismPinned, kept for the record and for bin/selftest, which requires TLC to REJECT it); since /repo 82cc182   *)
(* every documented guard is explicit.  The harness cannot read the mechanism off the code; it binds this table by      *)
(* evaluating every cell under BOTH interpreters and comparing with Outcome.                                            *)
Interpreters == {"default", "optimized"}
MechanismPinned == [e \in Names |-> IF e \in {"apply_blur_fft", "qslst_restore_fft", "rgb_to_quat", "quat_to_rgb", "qslst_restore_matrix"} THEN "assert" ELSE "explicit"]
MechanismRepaired == [e \in Names |-> "explicit"]
CONSTANT PinnedTree                      \* TRUE only in the negative model of bin/selftest
Mechanism == IF PinnedTree THEN MechanismPinned ELSE MechanismRepaired
Fires(mech, interp) == mech = "explicit" \/ interp = "default"
Outcome(ep, cls, interp) == IF InDomain(ep, cls) THEN "returns" ELSE IF Fires(Mechanism[ep], interp) THEN "raises" ELSE "returns"

VARIABLES ep, cls, interp, pc, want
vars == <<ep, cls, interp, pc, want>>
Init == ep \in Names /\ cls \in Classes /\ Applicable(ep, cls) /\ interp \in Interpreters /\ pc = "cell" /\ want = ""
Decide == pc = "cell" /\ want' = Outcome(ep, cls, interp) /\ pc' = "done" /\ UNCHANGED <<ep, cls, interp>>
Next == Decide
Spec == Init /\ [][Next]_vars

(* table sanity *)
ASSUME \A e \in Names : EP[e] \subseteq Reqs
ASSUME \A e \in Names : \E c \in Classes : Applicable(e, c) /\ InDomain(e, c)          \* everyone has an in-domain cell
ASSUME \A e \in Names : EP[e] # {} => \E c \in Classes : Applicable(e, c) /\ ~InDomain(e, c)
OutOfDomainRaises == pc = "done" /\ Violates[cls] # "" => want = "raises"
(* the property does not mention the interpreter: what a cell does may not depend on it *)
InterpreterIndependent == pc = "done" => want = Expected(ep, cls)
=============================================================================
