------------------------------ MODULE PowerIter ------------------------------
(* C19: power iteration on a Hermitian matrix in its eigenbasis.               *)
(*   r      Lg(c_2/c_1): size of the largest non-dominant component relative    *)
(*          to the dominant one (Lg = round(64 log2 x)); every step adds         *)
(*          d = Lg|lambda_2/lambda_1| < 0                                        *)
(*   sign   sign of the dominant eigenvalue.  For sign = "neg" the iterate flips  *)
(*          every step, ||v_k - v_(k-1)|| tends to 2 and the difference test can   *)
(*          never fire: only the stagnation test                                  *)
(*          | ||v_k - v_(k-1)|| - ||v_(k-1) - v_(k-2)|| | < tol * 10^-3            *)
(*          stops the run (named action StopStagnation).                          *)
(* Abstract sizes: difference ~ r (pos) resp. 2 - r^2 (neg); its change between    *)
(* consecutive steps ~ r (pos) resp. r^2 (neg), i.e. 2 r in Lg.                    *)
(* Invariant: a run stops (other than on the budget) only in states whose r is     *)
(* below the accuracy that stop rule guarantees.                                   *)
EXTENDS Integers, TLC
CONSTANTS R0s, Ds, Tols, MaxK
R0sV == {0, -64, -200}
DsV == {-21, -64, -128, -300}
TolsV == {-640, -1276, -2126}
LgMilli == -638        \* Lg(10^-3)
VARIABLES r, d, sign, tolLg, k, stop
vars == <<r, d, sign, tolLg, k, stop>>
Init == r \in R0s /\ d \in Ds /\ sign \in {"pos", "neg"} /\ tolLg \in Tols /\ k = 0 /\ stop = "run"
DiffLg  == IF sign = "pos" THEN r ELSE 64          \* ~ r  resp. ~ 2
DeltaLg == IF sign = "pos" THEN r ELSE 2 * r       \* change of the difference between steps
Step == /\ stop = "run" /\ k < MaxK
        /\ ~(DiffLg < tolLg) /\ ~(DeltaLg < tolLg + LgMilli)
        /\ r' = r + d /\ k' = k + 1 /\ UNCHANGED <<d, sign, tolLg, stop>>
StopDiff == stop = "run" /\ DiffLg < tolLg /\ stop' = "diff" /\ UNCHANGED <<r, d, sign, tolLg, k>>
StopStagnation == stop = "run" /\ ~(DiffLg < tolLg) /\ DeltaLg < tolLg + LgMilli
                  /\ stop' = "stagnation" /\ UNCHANGED <<r, d, sign, tolLg, k>>
StopBudget == stop = "run" /\ k = MaxK /\ stop' = "budget" /\ UNCHANGED <<r, d, sign, tolLg, k>>
Next == Step \/ StopDiff \/ StopStagnation \/ StopBudget
Spec == Init /\ [][Next]_vars
(* accuracy guaranteed at each stop rule (in Lg of c2/c1)                       *)
AccuracyAtStop == /\ stop = "diff" => r < tolLg
                  /\ stop = "stagnation" /\ sign = "neg" => 2 * r < tolLg + LgMilli
                  /\ stop = "stagnation" /\ sign = "pos" => r < tolLg + LgMilli
NegNeverStopsOnDiff == sign = "neg" /\ tolLg < 64 => stop # "diff"
Monotone == [][r' <= r]_vars
=============================================================================
