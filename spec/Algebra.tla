------------------------------ MODULE Algebra ------------------------------
(* C01: the quaternion matrix product, conjugate transpose and Frobenius    *)
(* norm.  The system is the set of product "calls" the library offers: one  *)
(* call = operands (A, B) in exact integer form, scaled by 2^ea and 2^eb,    *)
(* multiplied through one of five storage paths.  In the specification all   *)
(* five paths have ONE meaning, MMul(A,B) - that is the property.            *)
(*                                                                          *)
(* Init enumerates the operand space:                                        *)
(*   kind "basis": every pair of single-entry matrices E(i,t,a), E(u,j,b)    *)
(*                 for all shapes m,k,n <= MaxDim (a product routine is      *)
(*                 bilinear, so these values determine it on that shape);    *)
(*   kind "cat"  : catalogue operands (dense integer, pure imaginary,        *)
(*                 single axis, zero, vectors, 1x1) x exponent pairs.        *)
(* Call computes the expected result from the definition.  The invariants    *)
(* are the algebraic laws of the property, checked on every enumerated call. *)
EXTENDS QMat, TLC

CONSTANTS MaxDim,      \* largest m, k, n of the basis enumeration
          Exps         \* exponents e: operands are scaled by 2^e

ExpsQ == {-500, 0, 30}
ExpsT == {-500, -30, 0, 30, 500}

VARIABLES phase, kind, A, B, ea, eb, out
vars == <<phase, kind, A, B, ea, eb, out>>

(* --- catalogue of entry patterns (quantifier text of C01) --------------- *)
Cat ==
  { (* dense integer 2x2 * 2x2 *)
    << << <<<<1,2,3,4>>, <<0,-1,2,0>>>>, <<<<-2,0,1,1>>, <<3,1,0,-1>>>> >>,
       << <<<<2,-1,0,1>>, <<1,1,1,1>>>>, <<<<0,3,-2,1>>, <<-1,0,0,2>>>> >> >>,
    (* pure imaginary 2x3 * 3x1 (matrix x column vector) *)
    << << <<<<0,1,2,0>>, <<0,0,0,3>>, <<0,-1,1,-1>>>>, <<<<0,2,0,1>>, <<0,1,1,0>>, <<0,0,-2,2>>>> >>,
       << <<<<0,1,0,0>>>>, <<<<0,0,2,1>>>>, <<<<0,-3,1,0>>>> >> >>,
    (* single axis (j only) 1x2 * 2x2 (row vector x matrix) *)
    << << <<<<0,0,2,0>>, <<0,0,-1,0>>>> >>,
       << <<<<0,0,1,0>>, <<0,0,3,0>>>>, <<<<0,0,-2,0>>, <<0,0,1,0>>>> >> >>,
    (* entries whose imaginary components cancel (x + y + z = 0, also w + x + y + z = 0): plane sums vanish *)
    << << <<<<0,1,-1,0>>, <<2,0,1,-1>>>>, <<<<-1,1,1,-2>>, <<0,2,-1,-1>>>> >>,
       << <<<<3,1,-2,1>>, <<0,-1,0,1>>>>, <<<<1,0,1,-1>>, <<-2,1,1,0>>>> >> >>,
    << << <<<<1,1,-1,-1>>>> >>, << <<<<0,2,-3,1>>>> >> >>,
    (* zero times dense *)
    << << <<QZero, QZero>>, <<QZero, QZero>> >>,
       << <<<<1,2,3,4>>, <<5,6,7,8>>>>, <<<<-1,-2,-3,-4>>, <<2,0,2,0>>>> >> >>,
    (* 1x1 * 1x1, non-commuting *)
    << << <<<<1,2,-1,3>>>> >>, << <<<<2,-1,4,1>>>> >> >>,
    (* row times column (inner product), column times row (outer product) *)
    << << <<<<1,1,0,0>>, <<0,1,1,0>>, <<0,0,1,1>>>> >>,
       << <<<<1,0,0,1>>>>, <<<<0,1,0,-1>>>>, <<<<2,0,-1,0>>>> >> >>,
    << << <<<<1,0,0,1>>>>, <<<<0,1,0,-1>>>>, <<<<2,0,-1,0>>>> >>,
       << <<<<1,1,0,0>>, <<0,1,1,0>>, <<0,0,1,1>>>> >> >>,
    (* 3x3 sparse pattern times 3x2 *)
    << << <<<<1,0,0,0>>, QZero, <<0,0,0,2>>>>, <<QZero, <<0,1,0,0>>, QZero>>, <<<<3,-1,0,0>>, QZero, QZero>> >>,
       << <<<<0,1,0,0>>, QZero>>, <<QZero, <<0,0,1,0>>>>, <<<<1,1,1,1>>, <<2,0,0,-1>>>> >> >> }

(* monomial unitary matrices over Q8: permutation x unit diagonal           *)
Mono2 == { << <<a, QZero>>, <<QZero, b>> >> : a \in Q8, b \in {QOne, QJ, QNeg(QK)} }
          \cup { << <<QZero, a>>, <<b, QZero>> >> : a \in Q8, b \in {QOne, QI} }

Init ==
  /\ phase = "operands" /\ out = <<>>
  /\ \/ /\ kind = "basis" /\ ea = 0 /\ eb = 0
        /\ \E m \in 1..MaxDim, k \in 1..MaxDim, n \in 1..MaxDim :
           \E i \in 1..m, t \in 1..k, u \in 1..k, j \in 1..n, a \in 1..4, b \in 1..4 :
              /\ A = EntryUnit(m, k, i, t, Basis[a])
              /\ B = EntryUnit(k, n, u, j, Basis[b])
     \/ /\ kind = "cat"
        /\ \E c \in Cat : A = c[1] /\ B = c[2]
        /\ ea \in Exps /\ eb \in Exps

(* One call: the value every storage path must return (times 2^(ea+eb)).   *)
Call ==
  /\ phase = "operands"
  /\ out' = [ C    |-> MMul(A, B),
              AH   |-> MHerm(A),
              BH   |-> MHerm(B),
              froA |-> Fro2(A),      \* squared Frobenius norm (times 4^ea)
              froB |-> Fro2(B),
              froC |-> Fro2(MMul(A, B)) ]
  /\ phase' = "done"
  /\ UNCHANGED <<kind, A, B, ea, eb>>

Next == Call
Spec == Init /\ [][Next]_vars

(* ---- laws (invariants over every enumerated call) ---------------------- *)
Done == phase = "done"
HermInvolution == Done => MHerm(out.AH) = A /\ MHerm(out.BH) = B
HermReverses   == Done => MHerm(out.C) = MMul(out.BH, out.AH)
FroHermInv     == Done => Fro2(out.AH) = out.froA
FroSubMult     == Done => out.froC <= out.froA * out.froB
FroUnitaryInv  == Done /\ kind = "cat" /\ NRows(A) = 2 =>
                     \A U \in Mono2 : Fro2(MMul(U, A)) = out.froA
ShapeOK        == Done => NRows(out.C) = NRows(A) /\ NCols(out.C) = NCols(B)
(* monomial library really is unitary *)
ASSUME \A U \in Mono2 : MMul(MHerm(U), U) = Eye(2) /\ MMul(U, MHerm(U)) = Eye(2)
=============================================================================
