------------------------------ MODULE Spectral ------------------------------
(* Case space and exact expectations for the spectral routines                *)
(* (C05 Q-SVD, C06 QR, C08 Hermitian eigen / tridiagonal, C09 Hessenberg,       *)
(* C11 rank / null spaces / determinants, C15 spectral norm).                   *)
(*                                                                            *)
(* A class is  A = U diag(s) V^H  (kind "svd": shape m x n, s a non-increasing  *)
(* vector of non-negative integers -- EVERY multiplicity pattern over Vals)     *)
(* or  A = U diag(lam) U^H  (kind "herm": integer eigenvalues of either sign,   *)
(* every multiplicity / sign pattern).  U, V are members ui, vi of the exact    *)
(* unitary library of the harness (dyadic reflectors and monomial matrices,     *)
(* exactly unitary in float64), so A is exactly representable and everything    *)
(* below is known exactly:                                                     *)
(*   singular values, rank, nullities, ||A||_F^2, Dieudonne / Moore             *)
(*   determinant, trace invariants, Eckart-Young optimum for every R.           *)
EXTENDS Integers, Sequences, FiniteSets, TLC

CONSTANTS MaxDim,     \* shapes 1..MaxDim x 1..MaxDim
          Vals,       \* singular values used (contains 0)
          Lams,       \* eigenvalues used (both signs, 0)
          NU          \* number of unitary-library picks per side

LamsQ == {-4, -1, 0, 2, 4}
LamsT == {-5, -4, -1, 0, 2, 4}

VARIABLES kind, m, n, s, ui, vi, pc, out
vars == <<kind, m, n, s, ui, vi, pc, out>>

Min2(a, b) == IF a < b THEN a ELSE b
Abs(x) == IF x < 0 THEN -x ELSE x
RECURSIVE SumF(_, _, _)
SumF(f, a, b) == IF a > b THEN 0 ELSE f[a] + SumF(f, a + 1, b)
RECURSIVE ProdF(_, _, _)
ProdF(f, a, b) == IF a > b THEN 1 ELSE f[a] * ProdF(f, a + 1, b)
NonIncr(f) == \A i \in 1..Len(f) - 1 : f[i] >= f[i + 1]

Init ==
  /\ pc = "class" /\ out = <<>>
  /\ ui \in 1..NU /\ vi \in 1..NU
  /\ \/ /\ kind = "svd"
        /\ m \in 1..MaxDim /\ n \in 1..MaxDim
        /\ s \in { f \in [1..Min2(m, n) -> Vals] : NonIncr(f) }
     \/ /\ kind = "herm"
        /\ m \in 1..MaxDim /\ n = m /\ vi = ui
        /\ s \in { f \in [1..m -> Lams] : NonIncr(f) }

Count(P(_), k) == Cardinality({ i \in 1..k : P(i) })
(* absolute values of a vector, sorted non-increasing (insertion by rank)     *)
SortedAbs(f) ==
  LET k == Len(f)
      rank(i) == Cardinality({ j \in 1..k : Abs(f[j]) > Abs(f[i]) \/ (Abs(f[j]) = Abs(f[i]) /\ j < i) }) + 1
  IN [p \in 1..k |-> Abs(f[CHOOSE i \in 1..k : rank(i) = p])]

Expect ==
  /\ pc = "class"
  /\ LET k  == Len(s)
         sv == SortedAbs(s)
         r  == Cardinality({ i \in 1..k : s[i] # 0 })
         sq == [i \in 1..k |-> s[i] * s[i]]
     IN out' = [ svals |-> sv,
                 rank  |-> r,
                 nullR |-> n - r,
                 nullL |-> m - r,
                 fro2  |-> SumF(sq, 1, k),
                 detD  |-> IF m = n THEN ProdF(sv, 1, k) ELSE -1,          \* Dieudonne
                 moore |-> IF kind = "herm" THEN ProdF(s, 1, k) ELSE 0,   \* Moore (signed)
                 trace |-> IF kind = "herm" THEN SumF(s, 1, k) ELSE 0,
                 ey    |-> [R \in 1..k |-> SumF([i \in 1..k |-> sv[i] * sv[i]], R + 1, k)],
                 maxmult |-> LET mult(i) == Cardinality({ j \in 1..k : sv[j] = sv[i] })
                             IN  IF k = 0 THEN 0 ELSE mult(CHOOSE i \in 1..k : \A j \in 1..k : mult(j) <= mult(i)),
                 zeros |-> k - r ]
  /\ pc' = "done" /\ UNCHANGED <<kind, m, n, s, ui, vi>>
Next == Expect
Spec == Init /\ [][Next]_vars

Done == pc = "done"
RankNullity    == Done => out.rank + out.nullR = n /\ out.rank + out.nullL = m /\ out.rank <= Min2(m, n)
DetZeroIffSing == Done /\ m = n => ((out.detD = 0) <=> (out.rank < n))
EckartYoung    == Done => /\ \A R \in 1..Len(s) : (out.ey[R] = 0) <=> (R >= out.rank)
                          /\ \A R \in 1..Len(s) - 1 : out.ey[R] >= out.ey[R + 1]
                          /\ (Len(s) > 0 => out.ey[1] = out.fro2 - out.svals[1] * out.svals[1])
SvalsSorted    == Done => NonIncr(out.svals) /\ \A i \in 1..Len(s) : out.svals[i] >= 0
MooreAbs       == Done /\ kind = "herm" => Abs(out.moore) = out.detD
=============================================================================
