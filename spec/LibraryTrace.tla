---------------------------- MODULE LibraryTrace ----------------------------
(* Validates recorded executions of operation sequences against the composed    *)
(* contracts of LibraryDefs.tla: for every event the MEASURED descriptors of the  *)
(* results must be allowed for the MEASURED descriptors of the operands.          *)
EXTENDS LibraryDefs, TLC, Json, IOUtils
TraceLog == ndJsonDeserialize(IOEnv.TRACE_FILE)
VARIABLES l, nbad
tvars == <<l, nbad>>
Bad(e) ==
  CASE e.op = "gen"  -> { c \in {"Library:GeneratorContract"} : e.out # << e.a >> /\ ~(e.a.orth = FALSE /\ e.out[1].m = e.a.m /\ e.out[1].n = e.a.n /\ e.out[1].r = e.a.r) }
    [] e.op = "mul"  -> { c \in {"Library:ProductDescriptor"} : e.out \notin OutMulW(e.a, e.b) }
    [] e.op = "rank" -> { c \in {"Library:RankValue"} : ~ValueOK("rank", e.a, e.value) }
    [] e.op = "det"  -> { c \in {"Library:DetZeroIffSingular"} : ~ValueOK("det", e.a, e.value) }
    [] e.op \in Ops1 -> { c \in {"Library:" \o e.op \o ":Descriptor"} : e.out \notin Out1W(e.op, e.a) }
                        \cup { c \in {"Library:" \o e.op \o ":Value"} : ~ValueOK(e.op, e.a, e.value) }
                        \cup { c \in {"Library:OperandsUnchanged"} : ~e.unchanged }
    [] OTHER -> {"UnknownEvent"}
TInit == l = 1 /\ nbad = 0
TNext ==
  /\ l <= Len(TraceLog)
  /\ LET e == TraceLog[l]
         f == Bad(e)
     IN  /\ \A c \in f : PrintT(<<"V", "bad", e.tid, c>>)
         /\ nbad' = nbad + Cardinality(f)
  /\ l' = l + 1
Report == l = Len(TraceLog) + 1 => PrintT(<<"V", "consumed", l - 1>>)
=============================================================================
