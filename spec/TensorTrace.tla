----------------------------- MODULE TensorTrace -----------------------------
(* Validates recorded executions of tensor_unfold / tensor_fold, the colour   *)
(* maps and the metrics (C18) against the contract of Tensor.tla.             *)
EXTENDS TensorDefs, Json, IOUtils

CONSTANT SnrSlackMilliDb
TraceLog == ndJsonDeserialize(IOEnv.TRACE_FILE)
VARIABLES l, nbad
tvars == <<l, nbad>>

Failed(e) ==
  CASE e.op = "unfold" ->
         { c \in {"UnfoldShape"}      : ~ShapeOK(e.M, e.I, e.J, e.K, e.mode) }
         \cup { c \in {"ColumnsAreFibres"} : ShapeOK(e.M, e.I, e.J, e.K, e.mode) /\ e.I*e.J*e.K > 0 /\
                                         ~(ValidLabels(e.M, e.I, e.J, e.K) /\ ColumnsAreFibres(e.M, e.mode)) }
         \cup { c \in {"EachFibreOnce"}    : ShapeOK(e.M, e.I, e.J, e.K, e.mode) /\ ~EachFibreOnce(e.M, e.mode) }
         \cup { c \in {"EntriesIntact"}    : ~e.intact }
         \cup { c \in {"NormPreserved"}    : ~e.norm_ok }
         \cup { c \in {"ModuliPreserved"}  : ~e.abs_ok }
         \cup { c \in {"M:ColumnOrder"}    : e.M # MUnfold(e.I, e.J, e.K, e.mode) }
    [] e.op = "fold" ->
         { c \in {"FoldInvertsUnfold"} : e.T2 # e.T }
    [] e.op = "rgb" ->
         (* q = <<real_part, r, g, b>> per pixel and back is the same rgb    *)
         { c \in {"RgbToQuatLayout"} : \E h \in 1..Len(e.rgb) : \E w \in 1..Len(e.rgb[h]) :
                                          e.q[h][w] # <<e.real_part>> \o e.rgb[h][w] }
         \cup { c \in {"RgbRoundTrip"} : e.back # e.rgb }
    [] e.op = "metric" ->
         { c \in {"PsnrInfIffEqual"}   : e.psnr_inf # (e.x = e.y) \/ e.psnr_again_inf # (e.x = e.y) }
         \cup { c \in {"ComparedArraysUntouched"} : ~e.same_after }   \* "iff the arrays are equal" is about the caller's arrays
         \cup { c \in {"RelErrZeroIffEqual"} : e.relerr_zero # (e.x = e.y) }
    [] e.op = "snr" ->
         { c \in {"SnrInExpectation"} : e.mean_mdb - e.target_mdb > SnrSlackMilliDb
                                        \/ e.target_mdb - e.mean_mdb > SnrSlackMilliDb }
    [] e.op = "flag" -> { c \in {e.clause} : ~e.ok }
    [] OTHER -> {"UnknownEvent"}

TInit == l = 1 /\ nbad = 0
TNext ==
  /\ l <= Len(TraceLog)
  /\ LET e == TraceLog[l]
         f == Failed(e)
     IN  /\ \A c \in f : PrintT(<<"V", "bad", e.tid, c>>)
         /\ nbad' = nbad + Cardinality(f)
  /\ l' = l + 1
Report == l = Len(TraceLog) + 1 => PrintT(<<"V", "consumed", l - 1>>)
=============================================================================
