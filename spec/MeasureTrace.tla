----------------------------- MODULE MeasureTrace -----------------------------
(* Generic property monitor for the spectral / randomized / iterative checks.   *)
(* The harness measures contract residuals with its own arithmetic and logs    *)
(* them as integers; the BOUNDS are constants of this specification.  Event     *)
(* kinds:                                                                       *)
(*   units : e.units <= Bound(e.clause)          (2^-52 * scale * size units)    *)
(*   lgle  : e.lhs_lg <= e.rhs_lg + e.slack       (Lg = round(64 log2 x))         *)
(*   lgge  : e.lhs_lg >= e.rhs_lg - e.slack                                      *)
(*   eqint : e.got = e.want                        (discrete outputs)            *)
(*   flag  : e.ok                                                                *)
(* A clause name starting with "M:" is a mechanism clause (DRIFT).              *)
EXTENDS Integers, Sequences, FiniteSets, TLC, Json, IOUtils
CONSTANTS UnitsBound, UnitsBoundLoose
TraceLog == ndJsonDeserialize(IOEnv.TRACE_FILE)
VARIABLES l, nbad
tvars == <<l, nbad>>
Failed(e) ==
  CASE e.op = "units" -> { c \in {e.clause} : e.units > (IF e.loose THEN UnitsBoundLoose ELSE UnitsBound) }
    [] e.op = "lgle"  -> { c \in {e.clause} : e.lhs_lg > e.rhs_lg + e.slack }
    [] e.op = "lgge"  -> { c \in {e.clause} : e.lhs_lg < e.rhs_lg - e.slack }
    [] e.op = "eqint" -> { c \in {e.clause} : e.got # e.want }
    [] e.op = "flag"  -> { c \in {e.clause} : ~e.ok }
    [] OTHER -> {"UnknownEvent"}
TInit == l = 1 /\ nbad = 0
TNext ==
  /\ l <= Len(TraceLog)
  /\ LET e == TraceLog[l]
         f == Failed(e)
     IN  /\ \A c \in f : PrintT(<<"V", "bad", e.tid, c>>)
         /\ nbad' = nbad + Cardinality(f)
  /\ l' = l + 1
Report == l = Len(TraceLog) + 1 => PrintT(<<"V", "consumed", l - 1>>)
=============================================================================
