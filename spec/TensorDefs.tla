----------------------------- MODULE TensorDefs ------------------------------
(* C18 (tensor part): mode-n unfolding and folding of order-3 tensors.      *)
(* A tensor of shape (I,J,K) is a function on index triples; entries are     *)
(* distinct integer labels  Label(i,j,k) = 100 i + 10 j + k  so that every    *)
(* entry identifies the index it came from.                                  *)
(*                                                                          *)
(* The CONTRACT of Unfold(T,n) (what the property states, no column order):   *)
(*   shape (dim_n, product of the others); the r-th entry of every column     *)
(*   has mode-n index r and all entries of a column share the other two       *)
(*   indices (a column is a mode-n fibre); every fibre appears exactly once.  *)
(* The MECHANISM (documented layout): remaining indices in increasing axis    *)
(* order, last one fastest.                                                  *)
EXTENDS Integers, Sequences, FiniteSets, TLC


Label(i, j, k) == 100 * i + 10 * j + k
Li(x) == x \div 100
Lj(x) == (x \div 10) % 10
Lk(x) == x % 10
Dim(n, i, j, k) == IF n = 0 THEN i ELSE IF n = 1 THEN j ELSE k
Idx(n, x) == IF n = 0 THEN Li(x) ELSE IF n = 1 THEN Lj(x) ELSE Lk(x)
Others(n, x) == IF n = 0 THEN <<Lj(x), Lk(x)>> ELSE IF n = 1 THEN <<Li(x), Lk(x)>> ELSE <<Li(x), Lj(x)>>

(* documented unfolding as a matrix (seq of rows) of labels                  *)
MUnfold(i, j, k, n) ==
  IF n = 0 THEN [r \in 1..i |-> [c \in 1..j*k |-> Label(r, ((c-1) \div k) + 1, ((c-1) % k) + 1)]]
  ELSE IF n = 1 THEN [r \in 1..j |-> [c \in 1..i*k |-> Label(((c-1) \div k) + 1, r, ((c-1) % k) + 1)]]
  ELSE [r \in 1..k |-> [c \in 1..i*j |-> Label(((c-1) \div j) + 1, ((c-1) % j) + 1, r)]]

(* the contract, on a label matrix M claimed to be the mode-n unfolding       *)
ShapeOK(M, i, j, k, n) == Len(M) = Dim(n, i, j, k) /\ \A r \in 1..Len(M) : Len(M[r]) = (i*j*k) \div Dim(n, i, j, k)
ColumnsAreFibres(M, n) ==
  \A c \in 1..Len(M[1]) : \A r \in 1..Len(M) :
      Idx(n, M[r][c]) = r /\ Others(n, M[r][c]) = Others(n, M[1][c])
EachFibreOnce(M, n) ==
  \A c, d \in 1..Len(M[1]) : c # d => Others(n, M[1][c]) # Others(n, M[1][d])
ValidLabels(M, i, j, k) ==
  \A r \in 1..Len(M) : \A c \in 1..Len(M[r]) :
      Li(M[r][c]) \in 1..i /\ Lj(M[r][c]) \in 1..j /\ Lk(M[r][c]) \in 1..k
Contract(M, i, j, k, n) ==
  ShapeOK(M, i, j, k, n) /\ ValidLabels(M, i, j, k) /\ ColumnsAreFibres(M, n) /\ EachFibreOnce(M, n)
=============================================================================
