-------------------------------- MODULE Norms --------------------------------
(* C15: matrix norms on the exact "Pythagorean" family: entries are           *)
(* quaternions of INTEGER modulus, so column / row sums of moduli are         *)
(* integers that TLC computes from the definition:                            *)
(*   ||A||_1 = max column sum of |a_ij|,  ||A||_inf = max row sum,            *)
(*   ||A||_F^2 = sum |a_ij|^2.                                                *)
(* Init enumerates all matrices of small shape over the entry set; Scale      *)
(* multiplies by an integer c (absolute homogeneity).  Invariants are the     *)
(* norm axioms and cross-norm inequalities that can be stated in integers.    *)
EXTENDS QMat, TLC, FiniteSetsExt

CONSTANT Big      \* TRUE: larger shapes
VARIABLES A, c, pc, out
vars == <<A, c, pc, out>>

PQ5 == { QZero, QOne, <<0,0,0,-1>>, <<1,1,1,1>>, <<1,2,2,0>> }
PQ3 == { QZero, <<0,-1,0,0>>, <<0,2,3,6>> }
PQx == { <<1,2,2,4>>, <<-1,1,-1,1>>, <<0,0,3,0>> }
Isqrt(n) == CHOOSE r \in 0..64 : r * r = n
Mod(q) == Isqrt(QNorm2(q))
ASSUME \A q \in PQ5 \cup PQ3 \cup PQx : Mod(q) * Mod(q) = QNorm2(q)

ColSum(M, j) == ISumSeq([i \in 1..NRows(M) |-> Mod(M[i][j])])
RowSum(M, i) == ISumSeq([j \in 1..NCols(M) |-> Mod(M[i][j])])
Norm1(M)   == Max({ ColSum(M, j) : j \in 1..NCols(M) })
NormInf(M) == Max({ RowSum(M, i) : i \in 1..NRows(M) })

Mats(m, n, S) == [1..m -> [1..n -> S]]
Init ==
  /\ pc = "matrix" /\ out = <<>>
  /\ c \in {1, -2, 3}
  /\ \/ \E m \in 1..2, n \in 1..2 : A \in Mats(m, n, PQ5)
     \/ \E s \in {<<1,3>>, <<3,1>>} : A \in Mats(s[1], s[2], PQ5)
     \/ (Big /\ \E s \in {<<2,3>>, <<3,2>>} : A \in Mats(s[1], s[2], PQ3))
     \/ A \in Mats(2, 2, PQx)

Evaluate ==
  /\ pc = "matrix"
  /\ LET cA == MScale(c, A) IN
     out' = [ n1 |-> Norm1(cA), ninf |-> NormInf(cA), fro2 |-> Fro2(cA),
              n1A |-> Norm1(A), ninfA |-> NormInf(A), fro2A |-> Fro2(A) ]
  /\ pc' = "done" /\ UNCHANGED <<A, c>>
Next == Evaluate
Spec == Init /\ [][Next]_vars

Abs(x) == IF x < 0 THEN -x ELSE x
Done == pc = "done"
Homogeneous == Done => /\ out.n1 = Abs(c) * out.n1A /\ out.ninf = Abs(c) * out.ninfA
                       /\ out.fro2 = c * c * out.fro2A
Definite    == Done => ((out.n1A = 0) <=> (A = MZero(NRows(A), NCols(A)))) /\ ((out.fro2A = 0) <=> (out.n1A = 0))
MinMN == IF NRows(A) < NCols(A) THEN NRows(A) ELSE NCols(A)
(* ||A||_F^2 <= rank ||A||_2^2 <= min(m,n) ||A||_1 ||A||_inf *)
FroLeOneInf == Done => out.fro2A <= MinMN * out.n1A * out.ninfA
OneLeFro    == Done => out.n1A * out.n1A <= NRows(A) * out.fro2A
InfLeFro    == Done => out.ninfA * out.ninfA <= NCols(A) * out.fro2A
TransposeSwaps == Done => Norm1(MHerm(A)) = out.ninfA /\ NormInf(MHerm(A)) = out.n1A
=============================================================================
