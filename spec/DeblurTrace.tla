----------------------------- MODULE DeblurTrace -----------------------------
(* Validates recorded executions of apply_blur_fft, the matrix builders and     *)
(* the restorations against DeblurDefs.tla.  Integer cases are recomputed by    *)
(* TLC; float cases carry residuals in units.                                   *)
EXTENDS DeblurDefs, FiniteSets, TLC, Json, IOUtils
CONSTANT UnitsBound
TraceLog == ndJsonDeserialize(IOEnv.TRACE_FILE)
VARIABLES l, nbad
tvars == <<l, nbad>>
Failed(e) ==
  CASE e.op = "blur" ->   \* e.B: rounded result of apply_blur_fft on integer data, one channel
         { c \in {"BlurIsCentredCircularConvolution"} : e.B # CircConv(e.X, e.psf) }
         \cup { c \in {"BlurIntegral"} : ~e.integral }
    [] e.op = "matrix" ->
         { c \in {"BuilderIsOperator"} : e.A # ConvMatrix(e.psf, e.H, e.W) }
    [] e.op = "units" -> { c \in {e.clause} : e.units > UnitsBound }
    [] e.op = "flag"  -> { c \in {e.clause} : ~e.ok }
    [] OTHER -> {"UnknownEvent"}
TInit == l = 1 /\ nbad = 0
TNext ==
  /\ l <= Len(TraceLog)
  /\ LET e == TraceLog[l]
         f == Failed(e)
     IN  /\ \A c \in f : PrintT(<<"V", "bad", e.tid, c>>)
         /\ nbad' = nbad + Cardinality(f)
  /\ l' = l + 1
Report == l = Len(TraceLog) + 1 => PrintT(<<"V", "consumed", l - 1>>)
=============================================================================
