"""Trace validation of the repository's APPLICATIONS (image completion, image deblurring): the scripts under
applications/ are run unmodified as __main__ in a scratch mirror of the tree (applications/ and data/ copied, quatica/
linked, so nothing is written into the repository), under the recorder of harness.suiteplugin: every call a script
makes directly to a public routine is judged on the spot with the oracle arithmetic, and the events of the property
being checked are validated by TLC against MeasureTrace.tla - the applications are drivers of real-use inputs (strided
column / row selections of an image, BCCB blur operators, sparse containers) for the kernels the properties are about."""
import json
import os
import shutil
import subprocess
import sys
import tempfile

from . import spectral as S
from .qlib import REPO

VERIF = os.path.dirname(os.path.dirname(os.path.abspath(__file__)))
APPS = {
    "completion-synthetic": ("applications/image_completion/script_synthetic_image_completion.py", []),
    "deblur-dense": ("applications/image_deblurring/script_image_deblurring.py", ["--size", "8", "--ns_mode", "dense"]),
    "deblur-sparse": ("applications/image_deblurring/script_image_deblurring.py", ["--size", "8", "--ns_mode", "sparse", "--snr", "30"]),
    "deblur-fftT": ("applications/image_deblurring/script_image_deblurring.py", ["--size", "12", "--ns_mode", "fftT"]),
    "deblur-tikhonov": ("applications/image_deblurring/script_image_deblurring.py", ["--size", "8", "--ns_mode", "tikhonov_aug"]),
}
CMCFG = """CONSTANTS Pixels = {1, 2, 3, 4}
 MaxIter = 3
SPECIFICATION Spec
INVARIANTS KnownPixelsAreData HistoryCountsIterations FinalImageIsBlurred
PROPERTIES Terminates
CHECK_DEADLOCK FALSE
"""
TCFG = """INIT TInit
NEXT TNext
INVARIANT Report
CHECK_DEADLOCK FALSE
"""
PROP_APPS = {"C03": ["completion-synthetic", "deblur-dense", "deblur-sparse", "deblur-tikhonov"], "C01": ["completion-synthetic", "deblur-dense"],
             "C14": ["completion-synthetic", "deblur-dense", "deblur-sparse"]}
QUICK = {"C03": ["completion-synthetic", "deblur-dense"], "C01": ["deblur-dense"], "C14": ["deblur-dense", "deblur-sparse"]}
RUNNER = """import os, runpy, sys
import harness.suiteplugin as P
sys.argv = [sys.argv[1]] + sys.argv[2:]
import matplotlib
matplotlib.use("Agg")
import matplotlib.pyplot as plt
plt.show = lambda *a, **k: None
import json, numpy as np


def _pause(*a, **k):
    # the completion scripts call pause() once per iteration right after the Quantise step: read the script's own
    # variables from the calling frame (Completion.tla / CompletionTrace.tla)
    g = sys._getframe(1).f_globals
    if not all(n in g for n in ("X", "B_Miss", "Q", "psnr_history", "X_im", "img_np", "i")):
        return
    import quaternion
    X, BM, Qm = quaternion.as_float_array(g["X"]), quaternion.as_float_array(g["B_Miss"]), np.asarray(g["Q"]) == 1
    mse = float(np.mean((g["X_im"].astype(np.float32) - g["img_np"].astype(np.float32)) ** 2))
    want = float("inf") if mse == 0 else 20 * np.log10(255.0 / np.sqrt(mse))
    last = float(g["psnr_history"][-1]) if len(g["psnr_history"]) else float("nan")
    ev = {"ev": "Quantise", "it": int(g["i"]) + 1, "known_are_data": bool(np.array_equal(X[Qm], BM[Qm])),
          "missing_are_estimates": bool(np.all(np.isfinite(X[~Qm]))), "hist_len": len(g["psnr_history"]),
          "psnr_truthful": bool(last == want or abs(last - want) <= 1e-5 * abs(want))}
    P._fh.write(json.dumps({"prop": "APP", "fn": "completion", "cls": "application", "detail": {}, "events": [ev]}) + "\\n")


plt.pause = _pause
try:
    G = runpy.run_path(sys.argv[0], run_name="__main__")
    if all(n in G for n in ("psnr_history", "n_iter", "psnr_val", "X", "img_np")) and "quaternion_to_rgb" in G:
        Xim = G["quaternion_to_rgb"](G["X"])
        mse = float(np.mean((Xim.astype(np.float32) - G["img_np"].astype(np.float32)) ** 2))
        want = float("inf") if mse == 0 else 20 * np.log10(255.0 / np.sqrt(mse))
        ev = {"ev": "Done", "n_iter": int(G["n_iter"]), "hist_len": len(G["psnr_history"]),
              "final_psnr_truthful": bool(float(G["psnr_val"]) == want or abs(float(G["psnr_val"]) - want) <= 1e-5 * abs(want))}
        P._fh.write(json.dumps({"prop": "APP", "fn": "completion", "cls": "application", "detail": {}, "events": [ev]}) + "\\n")
finally:
    P.finish()
"""


def record(app, timeout=900):
    script, args = APPS[app]
    root = tempfile.mkdtemp(prefix="verif-app-")
    try:
        shutil.copytree(os.path.join(REPO, "applications"), os.path.join(root, "applications"), ignore=shutil.ignore_patterns("__pycache__"))
        if os.path.isdir(os.path.join(REPO, "data")):
            shutil.copytree(os.path.join(REPO, "data"), os.path.join(root, "data"))
        os.symlink(os.path.join(REPO, "quatica"), os.path.join(root, "quatica"))
        out = os.path.join(root, "trace.ndjson")
        env = dict(os.environ, PYTHONPATH=VERIF, SUITE_ROOT=root, SUITE_TRACE_OUT=out, SUITE_CALLER_DIR="applications", VERIF_REPO=REPO,
                   PYTHONDONTWRITEBYTECODE="1", MPLBACKEND="Agg", PYTHONWARNINGS="ignore")
        path = os.path.join(root, script)
        if not os.path.exists(path):
            return [], "script missing", script
        p = subprocess.run([sys.executable, "-c", RUNNER, path] + args, cwd=os.path.dirname(path), env=env, stdout=subprocess.PIPE, stderr=subprocess.STDOUT, timeout=timeout)
        recs = []
        if os.path.exists(out):
            with open(out) as fh:
                recs = [json.loads(line) for line in fh if line.strip()]
        tail = p.stdout.decode(errors="replace").strip().splitlines()[-1:] or [""]
        return recs, "rc=%d %s" % (p.returncode, tail[0][:160]), script
    finally:
        shutil.rmtree(root, ignore_errors=True)


def stage(ctx, quick=False):
    apps = (QUICK if quick else PROP_APPS).get(ctx.pid, [])
    if not apps or not os.path.isdir(os.path.join(REPO, "applications")):
        return
    rec = S.Rec()
    notes = {}
    n = 0
    app_events = []
    for app in apps:
        recs, summary, script = record(app)
        end = [r for r in recs if r["prop"] == "END"]
        for r in [r for r in recs if r["prop"] == "ERR"][:3]:
            ctx.fail(r["fn"], "OutputNotInterpretable", "application", dict(r["detail"], application=app))
        if not end or not summary.startswith("rc=0"):
            ctx.drift.append("M:ApplicationRunsToCompletion %s (%s)" % (app, summary))
        if ctx.pid == "C03" and any(r["prop"] == "APP" for r in recs):      # the completion loop itself (Completion.tla), once
            tid_app = len(app_events) + 1
            app_events.append({"tid": tid_app, "ev": "Start", "application": app})
            for r in recs:
                if r["prop"] == "APP":
                    app_events.extend(dict(e, tid=tid_app) for e in r["events"])
        mine = [r for r in recs if r["prop"] == ctx.pid]
        for r in mine:
            t = rec.new(r["fn"].replace(".repo-test", ""), r["cls"].replace("repo-test", "application"), dict(r["detail"], application=app))
            for e in r["events"]:
                rec.events.append(dict(e, tid=t))
        n += len(mine)
        notes[app] = {"script": script, "run": summary, "calls_judged_for_this_property": len(mine), "calls_recorded_all_properties": (end[0]["detail"].get("n", 0) if end else None)}
    ctx.notes["application_traces"] = notes
    if app_events:
        ctx.model("Completion", CMCFG)
        for tid_, clause in ctx.trace("CompletionTrace", app_events, TCFG):
            ctx.drift.append("%s image completion application" % (clause if clause.startswith("M:") else "M:" + clause))
    if rec.events:
        S.judge(ctx, rec.events, rec.info)
        ctx.count("application traces (calls)", n)
