"""Source of truth for MANIFEST.json (bin/mkmanifest writes it)."""
GUARD = "QUATICA_VERIF"

# property id -> dict(technique, text, note, design_ref) for claimed checks
CHECKS = {
    "C01": dict(
        technique="TLC-enumerated operand space (Algebra.tla) replayed into all storage paths + TLC trace validation of recorded products (AlgebraTrace.tla)",
        text="Algebra.tla enumerates every pair of single-entry basis operands of every shape <= MaxDim (a bilinear routine is determined by them) plus a catalogue x exponent pairs; TLC computes each expected product/conjugate transpose/norm from the definition and checks the algebraic laws as invariants; every state is replayed through all six storage paths of the code with exact comparison. Recorded random integer calls are recomputed by TLC; float calls are bounded in units.",
        note="Trusted: numpy-quaternion dtype conversion, the harness' projection code, TLC. Sizes <= 3 (exhaustive) and <= 5 (sampled); rounding-level accuracy only bounded (64 units).",
        design_ref="5/C01"),
    "C07": dict(
        technique="exact TLA+ model of Gaussian elimination (LU.tla) over all forced pivot orders, replayed bit-exactly into quaternion_lu; LUTrace.tla monitors recorded random runs",
        text="LU.tla executes the elimination action by action (PivotSearch, Swap, Scale, Update, ZeroPivot, Assemble3, Assemble2) in exact scaled-integer arithmetic on inputs constructed to force each of the m! interchange sequences (m <= 4 quick, 5 thorough), three shapes per m, singular columns included; TLC checks PA=LU, A=L2U, unit-lower/|mult|<=1, upper, permutation and raise-iff-singular as invariants; every terminal state is replayed into the code in both modes and compared exactly. Random float/integer/rank-deficient inputs are validated by LUTrace.tla (permutation, L2 = P^T L row map, residual units).",
        note="Trusted: harness projection, numpy-quaternion conversions, TLC. Exact family has denominator-4 entries and unit pivots; other inputs are covered by residual bounds (4096 growth-aware units).",
        design_ref="5/C07"),
    "C04": dict(
        technique="abstract Q-GMRES restart-cycle machine (QGMRES.tla) model-checked by TLC; every real solve recorded as Start/Cycle*/Return (+Pair/Opt) and validated by QGMRESTrace.tla",
        text="QGMRES.tla models cycles, lucky breakdown at the grade, stop rule, cap, preconditioner (incl. swallowed LU fault) and zero rhs; TLC checks Truthful, ConvSound, HistMono, AtMostN, ZeroRhsZero, PrecIndependent on all behaviours (N <= 4 quick / 6 thorough). The harness builds systems of every grade 1..N (Hermitian spectra with repeats from exact unitary similarity, scaled/quaternion-scalar identity, identity+rank1, triangular, repeated diagonal, unitary, generic), all caps 0..N/None, both preconditioners, dense/sparse, scalings, b=0, and validates each run's trace: property clauses give VIOLATION, mechanism mismatches (cycle order, return enabled, iterations = grade) give DRIFT. Per-cycle optimality is checked against an independent complex-adjoint least-squares oracle.",
        note="Trusted: oracle arithmetic (numpy, complex adjoint), grade computation, Lg quantisation with stated slacks (converged => true residual <= 4 tol x cond for preconditioned runs; optimality ratio <= 1+2^-7). n <= 6, cond <= ~1e3.",
        design_ref="5/C04"),
    "C02": dict(
        technique="TLC trace validation of recorded embedding matrices (EmbedTrace.tla): laws evaluated by TLC on the matrices the code returned",
        text="For real_expand (interleaved), Realp (component-blocked, matrix and scalar form) and quaternion_to_complex_adjoint the harness records the code's integer image of every basis element, every conformable basis pair (shapes <= 2 quick / 3 thorough), signed unit pairs (cancelling sums), a catalogue (all 81 sign patterns, pure-imaginary, cancelling components) and random integer matrices; TLC computes every matrix product / transpose / sum and checks additivity, multiplicativity, *-preservation, norm scaling and the contract round trip; component split/merge round trips (A2A0123, solver conversions dense+sparse, qslst split/stack) likewise. Layout equality with the documented layouts is a DRIFT clause.",
        note="Trusted: TLC's integer arithmetic, the oracle product used to form A*B (itself re-checked by TLC in each event). Float inputs only: bitwise round trip + product law to 64 units.",
        design_ref="5/C02"),
    "C18": dict(
        technique="TLC-enumerated shape x mode case space with contract check (Tensor.tla); recorded label matrices / colour maps / metrics validated by TensorTrace.tla",
        text="Tensor.tla enumerates all shapes <= 3^3 (quick) / 4^3 (thorough) x modes and proves that the documented unfolding layout meets the contract (shape, columns are mode-n fibres in mode order, each fibre once). Each case is run through tensor_unfold/tensor_fold with a label tensor in four memory layouts (C, Fortran, transposed view, strided); TLC checks the contract on the returned label matrix (column order is DRIFT only), fold(unfold)=T, norm and moduli. rgb<->quat on uint8-range / dyadic [0,1] / binary / arbitrary(no clip) data for all small H,W and real parts, split/stack, psnr/relative_error zero-distance consistency on equal/unequal integer arrays, and mean SNR over 64 seeds (statistical, 0.5 dB) are recorded as integer events and decided by TLC.",
        note="Trusted: label encoding (dims <= 9), harness float->int scaling (exact, dyadic). relative_error with zero reference is documented to return inf and is outside the claim. SNR clause is statistical.",
        design_ref="5/C18"),
    "C15": dict(
        technique="TLC-computed norms on the exact Pythagorean family (Norms.tla) replayed into every norm spelling; NormsTrace.tla bounds measured margins of axioms/inequalities on float inputs",
        text="Norms.tla enumerates all matrices of shapes <= 2x2, 1x3, 3x1 (and 2x3, 3x2 thorough) over quaternions of integer modulus x scalings c in {1,-2,3}; TLC computes the 1-, inf- and squared Frobenius norms from the definitions and checks homogeneity, definiteness, transpose duality and cross-norm inequalities as invariants. Each state is replayed through matrix_norm (every ord spelling), the induced norms, all eleven Frobenius entry points and the spectral norm (vs complex-adjoint oracle); exact families U diag(s) V^H and Hermitian spectra with negative dominant eigenvalue pin the spectral norm. Random float matrices: triangle, sub-multiplicativity, homogeneity, 2<=F<=sqrt(rank)2, 2^2<=1*inf, entry-point agreement as integer margins bounded by TLC. Unknown ord values must raise.",
        note="Trusted: oracle singular values (numpy SVD of the complex adjoint), harness margins. Bounds: 4 ulp Frobenius, 256 units spectral/inequalities.",
        design_ref="5/C15"),
    "C17": dict(
        technique="exact integer model of the centred periodic blur and its operator matrix (Deblur.tla) replayed into blur / builders / restorations; DeblurTrace.tla recomputes recorded integer blurs and bounds float residuals",
        text="Deblur.tla enumerates every image size <= 3x3 (quick) / 4x4 (thorough), every kernel size <= image, every single-tap kernel x every impulse (blurring is bilinear) plus asymmetric/even-size catalogue kernels; TLC computes the blurred image and the N x N operator from the definition and checks impulse->centred PSF, mass preservation and matrix = operator. Each state is replayed into apply_blur_fft (4 weighted/shifted channels), both matrix builders of the deblurring application (entry-for-entry equality with TLC's matrix), qslst_restore_fft (normal-equation residual with TLC's operator for four lambdas; lambda=0 inverts shifts) and qslst_restore_matrix (= FFT form). Random integer blurs/builders are recomputed by TLC; float blurs/restorations/linearity are bounded in units; PSF builders unit-sum/symmetric/centred.",
        note="Trusted: oracle direct-sum convolution (cross-checked against TLC on the exact family), numpy linear algebra for residuals. Sizes <= 5x5.",
        design_ref="5/C17"),
    "C05": dict(
        technique="TLC-enumerated spectral class space with exact expectations (Spectral.tla) instantiated on the exact unitary family and run through the Q-SVD routines; measurements judged by MeasureTrace.tla",
        text="Spectral.tla enumerates every shape <= 4x4 (quick) / 5x5 (thorough), every non-increasing singular-value vector over {0,2,3,5} (all multiplicity patterns: k-fold repeats, several zeros) and unitary-library picks, and computes rank, nullities, sorted values, ||A||_F^2, determinant and the Eckart-Young optimum for every R (consistency checked as invariants). Each class is built exactly (A = U diag(s) V^H, dyadic exactly-unitary U, V) and run through classical_qsvd_full and classical_qsvd for every R; returned values vs expected, orthonormality, reconstruction and truncation error are logged in units and bounded by the trace spec. Random float matrices of prescribed rank use the complex-adjoint oracle.",
        note="Known finding (recorded): degenerate spectra (repeated singular value / null space of dimension >= 2) violate orthonormality/reconstruction. Trusted: oracle product and complex-adjoint SVD; bounds 1024 / 16384 units.",
        design_ref="5/C05"),
    "C06": dict(
        technique="Spectral.tla class space (shape x rank structure) and structure classes instantiated exactly and run through qr_qua; contract residuals judged by MeasureTrace.tla",
        text="Every svd class of Spectral.tla (all shapes <= 4x4 / 5x5 incl. wide and 1 x n, every rank pattern) plus its replica scaled by 2^-200..2^200, and structure classes for all shapes <= 5x5 (integer, pure imaginary, upper triangular with zero-real-part diagonal, zero column, zero matrix, scaled Gaussian) and random Gaussian shapes <= 6x6: output shapes, orthonormal Q, triangular R and A = QR are measured with the harness' own arithmetic and bounded by the trace spec. No sign convention is assumed.",
        note="Known finding (recorded): rank-deficient leading columns. Trusted: oracle product; bound 1024 units.",
        design_ref="5/C06"),
    "C08": dict(
        technique="Spectral.tla Hermitian class space (every eigenvalue multiplicity/sign pattern, exact spectrum from TLC) run through tridiagonalize / quaternion_eigendecomposition; residuals judged by MeasureTrace.tla",
        text="Every Hermitian class A = U diag(lam) U^H (n <= 4 quick / 5 thorough; lam over {-4,-1,0,2,4}(+-5) non-increasing: all-equal, zeros, mixed sign) with exactly unitary dyadic U, plus its 2^-27 / 2^27 scaled replica, and structure classes (diagonal with repeats, zero, real tridiagonal, integer with zero sub-columns, integer dense, rank one, Gaussian scaled 1e-8..1e8): P unitary, B real symmetric tridiagonal (exact pattern), P A P^H = B; eigenvalues real and equal to the known multiset, V unitary, A V = V Lambda, entry points agree. Non-Hermitian (5% margin) and non-square input must raise.",
        note="Trusted: oracle product, eigvalsh of the complex adjoint for non-constructed inputs; bound 1024 units.",
        design_ref="5/C08"),
    "C09": dict(
        technique="Spectral.tla square class space (known ||A||_F^2 and trace from TLC) and structure classes run through hessenbergize; contract residuals judged by MeasureTrace.tla",
        text="All square classes of Spectral.tla (svd and Hermitian kinds, n <= 4 / 5) with 2^-100 / 2^100 scaled replicas, structure classes n = 1..6 (integer dense, already Hessenberg, triangular, Hermitian, zero column, zero matrix, a zero sub-diagonal entry at every elimination step, 0/1 patterns, permutation-like unitary, imaginary sub-column) and Gaussian matrices n <= 7 scaled 1e-8..1e8: P unitary, H = P A P^H, entries below the first sub-diagonal below bound, Frobenius norm preserved and equal to the TLC-known value, trace preserved for Hermitian classes.",
        note="Trusted: oracle product; bound 1024 units.",
        design_ref="5/C09"),
    "C11": dict(
        technique="Spectral.tla class space with TLC-computed rank, nullities and determinants, instantiated exactly and run through rank / null-space / det; laws on class pairs; judged by MeasureTrace.tla",
        text="Every class of Spectral.tla (all (m,n) <= 4x4 / 5x5, all ranks 0..min incl. zero matrix, nullity >= 2, repeated values; Hermitian classes with signed spectra): rank = expected, rank(A^H), rank(GAH) with invertible non-unitary G,H, rank under 2^+-60 scaling; right/left null-space bases (and aliases) have exactly n-r / m-r columns, are mapped to zero and are quaternion-linearly independent (smallest singular value >= 2^-10); Dieudonne determinant = product of singular values (both spellings), zero iff singular, multiplicative on class pairs; Moore determinant = signed product of eigenvalues, ishermitian on classes and 3% perturbations, Moore rejects non-Hermitian. Random prescribed-rank float matrices as well.",
        note="Known finding (recorded): dependent null-space columns for nullity >= 2. Trusted: oracle product / complex-adjoint singular values; bound 1024 units.",
        design_ref="5/C11"),
}

NOT_YET = "check not built yet in this round; see DESIGN.md section 5"
