"""Source of truth for MANIFEST.json (bin/mkmanifest writes it)."""
GUARD = "QUATICA_VERIF"

# property id -> dict(technique, text, note, design_ref) for claimed checks
CHECKS = {
    "C01": dict(
        technique="TLC-enumerated operand space (Algebra.tla) replayed into all storage paths + TLC trace validation of recorded products (AlgebraTrace.tla)",
        text="Algebra.tla enumerates every pair of single-entry basis operands of every shape <= MaxDim (a bilinear routine is determined by them) plus a catalogue x exponent pairs; TLC computes each expected product/conjugate transpose/norm from the definition and checks the algebraic laws as invariants; every state is replayed through all six storage paths of the code with exact comparison. Recorded random integer calls are recomputed by TLC; float calls are bounded in units.",
        note="Trusted: numpy-quaternion dtype conversion, the harness' projection code, TLC. Sizes <= 3 (exhaustive) and <= 5 (sampled); rounding-level accuracy only bounded (64 units).",
        design_ref="5/C01"),
}

NOT_YET = "check not built yet in this round; see DESIGN.md section 5"
