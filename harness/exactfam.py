"""The exact input family: dyadic quaternion matrices that are exactly unitary
in float64, and A = U diag(s) V^H with integer s (exactly representable, with
known singular values / eigenvalues / rank / pseudoinverse).

Householder reflectors  I - 2 v v^H / (v^H v)  with v^H v a power of two have
dyadic entries; monomial matrices (permutation x Q8 unit) are exact too.
Nothing here calls the library."""
import itertools

import numpy as np

from .qlib import omul, oherm, oeye

_Q = {"1": (1, 0, 0, 0), "i": (0, 1, 0, 0), "j": (0, 0, 1, 0), "k": (0, 0, 0, 1),
      "1+i": (1, 1, 0, 0), "1+j": (1, 0, 1, 0), "1+k": (1, 0, 0, 1), "i+j": (0, 1, 1, 0),
      "1+i+j+k": (1, 1, 1, 1), "1-i+j-k": (1, -1, 1, -1), "0": (0, 0, 0, 0), "-1": (-1, 0, 0, 0),
      "-j": (0, 0, -1, 0), "j+k": (0, 0, 1, 1), "1-k": (1, 0, 0, -1)}

# vectors with v^H v = 2^p, several per dimension (dense ones first)
VECS = {
    1: [],
    2: [["1", "i"], ["j", "k"], ["1+i", "1+j"], ["1", "-1"]],
    3: [["1", "1", "1+i"], ["i", "j", "1+k"], ["1+j", "k", "1"], ["1+i", "1+j", "0"]],
    4: [["1", "i", "j", "k"], ["1", "1", "1", "1"], ["1+i", "1+j", "1+k", "i+j"], ["k", "1", "-j", "i"]],
    5: [["1", "1", "1", "1", "1+i+j+k"], ["i", "j", "k", "1", "1-i+j-k"], ["1+i", "1+j", "1", "i", "1+k"]],
    6: [["1", "1", "1", "1", "1+i", "1+j"], ["i", "j", "k", "1", "1+k", "j+k"], ["1+i", "1+j", "1+k", "i+j", "0", "0"]],
}


def qvec(names):
    return np.array([_Q[x] for x in names], dtype=np.float64).reshape(len(names), 1, 4)


def reflector(v):
    """I - 2 v v^H / (v^H v) for float array v (n,1,4) with v^H v = 2^p."""
    n = v.shape[0]
    nv = float(np.sum(v * v))
    p = np.log2(nv)
    assert abs(p - round(p)) < 1e-12, "v^H v must be a power of two"
    R = oeye(n) - omul(v, oherm(v)) * (2.0 / nv)
    return R


def monomial(perm, units):
    """P[i, perm[i]] = unit_i  (units: names in _Q of modulus one)."""
    n = len(perm)
    M = np.zeros((n, n, 4))
    for i in range(n):
        M[i, perm[i]] = _Q[units[i]]
    return M


def is_unitary_exact(U):
    n = U.shape[0]
    return np.array_equal(omul(oherm(U), U), oeye(n)) and np.array_equal(omul(U, oherm(U)), oeye(n))


_ULIB = {}


def ulib(n):
    """list of (name, U) exactly unitary n x n matrices: identity, monomials,
    reflectors, reflector x monomial, product of two reflectors (when exact)."""
    if n in _ULIB:
        return _ULIB[n]
    out = [("I", oeye(n))]
    units = ["1", "i", "j", "k", "-1", "-j"]
    if n == 1:
        out += [("u:" + u, monomial([0], [u])) for u in ("i", "j", "k", "-1")]
    else:
        perm = list(range(1, n)) + [0]
        out.append(("mono:cyc", monomial(perm, [units[i % 6] for i in range(n)])))
        perm2 = list(reversed(range(n)))
        out.append(("mono:rev", monomial(perm2, [units[(2 * i + 1) % 6] for i in range(n)])))
        refl = []
        for idx, names in enumerate(VECS.get(n, [])):
            R = reflector(qvec(names))
            refl.append(R)
            out.append(("refl:%d" % idx, R))
        for idx, R in enumerate(refl[:2]):
            out.append(("refl%d*mono" % idx, omul(R, out[1][1])))
        if len(refl) >= 2:
            RR = omul(refl[0], refl[1])
            if is_unitary_exact(RR):
                out.append(("refl0*refl1", RR))
    good = []
    for name, U in out:
        assert is_unitary_exact(U), "ULib member %s (n=%d) is not exactly unitary" % (name, n)
        good.append((name, U))
    _ULIB[n] = good
    return good


def diag_rect(s, m, n):
    D = np.zeros((m, n, 4))
    for i, v in enumerate(s):
        D[i, i, 0] = float(v)
    return D


def usv(U, s, V):
    """A = U diag(s) V^H, exactly (integer s, dyadic U, V)."""
    m, n = U.shape[0], V.shape[0]
    return omul(omul(U, diag_rect(s, m, n)), oherm(V))


def pinv_usv(U, s, V):
    """Moore-Penrose inverse V diag(1/s) U^H of usv(U,s,V) (float, 1/s rounded)."""
    m, n = U.shape[0], V.shape[0]
    D = np.zeros((n, m, 4))
    for i, v in enumerate(s):
        if v != 0:
            D[i, i, 0] = 1.0 / float(v)
    return omul(omul(V, D), oherm(U))


def herm_from_spectrum(U, lam):
    n = U.shape[0]
    return omul(omul(U, diag_rect(lam, n, n)), oherm(U))


def patterns(values, k):
    """all non-increasing k-vectors over the given values (multiplicity patterns)."""
    vals = sorted(values, reverse=True)
    return [list(c) for c in itertools.combinations_with_replacement(vals, k)]


def check_against_tlc(ctx):
    """compare every reflector built here with the integer matrix Rs = 2^(p-1) I - v v^H that TLC
    computes in ULib.tla (whose exact unitarity TLC checks as an ASSUME): the exact family used by the
    spectral checks is then certified by the model checker, entry by entry."""
    res = ctx.model("ULib", "INIT Init\nNEXT Next\n", dump=True)
    seen = {}
    for st in res["states"]:
        o = st["out"]
        seen[tuple(o["names"])] = (o["half"], np.array(o["Rs"], dtype=np.float64))
    n_ok = 0
    for n, vecs in VECS.items():
        for names in vecs:
            key = tuple(names)
            if key not in seen:
                raise AssertionError("reflector %r is not in ULib.tla" % (names,))
            half, Rs = seen[key]
            R = reflector(qvec(names))
            if not np.array_equal(R * half, Rs.reshape(R.shape)):
                raise AssertionError("reflector %r differs from ULib.tla" % (names,))
            n_ok += 1
    if n_ok != len(seen):
        raise AssertionError("ULib.tla has %d reflectors, harness %d" % (len(seen), n_ok))
    return n_ok
