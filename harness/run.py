import importlib
import sys
import warnings

import numpy as np

warnings.filterwarnings("ignore")
np.seterr(all="ignore")

from . import core


def _get(pid):
    mod = importlib.import_module("harness.props.%s" % pid.lower())
    return mod.run


if __name__ == "__main__":
    sys.exit(core.main(_get, sys.argv[1:]))
