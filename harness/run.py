import importlib
import sys

from . import core


def _get(pid):
    mod = importlib.import_module("harness.props.%s" % pid.lower())
    return mod.run


if __name__ == "__main__":
    sys.exit(core.main(_get, sys.argv[1:]))
