"""Judges for calls recorded while the REPOSITORY'S OWN TESTS run (suiteplugin):
given the arguments a test passed to a public routine (copied before the call)
and what the routine returned, measure the contract residuals with the oracle
arithmetic of qlib (nothing here calls the library) and log them as
MeasureTrace.tla events.  Clause, function and class names are those of the
property checks, so that known findings and reports line up."""
import inspect
import math

import numpy as np
import quaternion

from .qlib import omul, oherm, oeye, ofro, oadj, osvals, units, lg, EPS, sha
from .spectral import ortho_units, unitary_units

MAXDIM = 160         # larger operands are counted, not judged (pure-numpy oracle)


def F(x):
    """float array (..., 4) of a quaternion ndarray / sparse container, else None"""
    if isinstance(x, np.ndarray) and x.dtype == np.quaternion:
        return np.array(quaternion.as_float_array(x), dtype=np.float64)
    if hasattr(x, "real") and hasattr(x, "i") and hasattr(x, "j") and hasattr(x, "k") and hasattr(x, "shape") and not isinstance(x, np.ndarray):
        try:
            return np.stack([np.asarray(p.toarray() if hasattr(p, "toarray") else p, dtype=np.float64) for p in (x.real, x.i, x.j, x.k)], axis=-1)
        except Exception:
            return None
    return None


def mat(x):
    f = F(x)
    if f is None or f.ndim != 3 or max(f.shape[:2]) > MAXDIM or min(f.shape[:2]) < 1 or not np.all(np.isfinite(f)):
        return None
    return f


def bind(fn, args, kwargs):
    try:
        ba = inspect.signature(fn).bind(*args, **kwargs)
        ba.apply_defaults()
        return dict(ba.arguments)
    except Exception:
        return {}


def orank(A):
    """(rank, unambiguous) from oracle singular values"""
    s = osvals(A)
    if len(s) == 0 or s[0] == 0:
        return 0, True
    hi = int(np.sum(s > 1e-6 * s[0]))
    lo = int(np.sum(s > 1e-11 * s[0]))
    return hi, hi == lo


def leading_deficient(A):
    m, n = A.shape[:2]
    top = max(ofro(A), 1e-300)
    for j in range(1, min(m, n) + 1):
        if osvals(A[:, :j])[-1] <= 1e-9 * top:
            return True
    return False


def degenerate(A):
    """'' / 'degenerate-spectrum' (a repeated non-zero singular value) / 'degenerate-null-space' (only a null space of
    quaternion dimension >= 2): the classes of the recorded Q-SVD findings"""
    s = osvals(A)
    m, n = A.shape[:2]
    if len(s) == 0 or s[0] == 0:
        return "degenerate-null-space" if max(m, n) >= 2 else ""
    nz = s[s > 1e-10 * s[0]]
    rep = any(abs(nz[i] - nz[i + 1]) <= 1e-6 * s[0] for i in range(len(nz) - 1))
    r = len(nz)
    if rep:
        return "degenerate-spectrum"
    return "degenerate-null-space" if ((m - r) >= 2 or (n - r) >= 2) else ""


class Out:
    """collects MeasureTrace events of one recorded call"""

    def __init__(self, prop, fn, cls, detail):
        self.prop, self.fn, self.cls, self.detail = prop, fn, cls, detail
        self.events = []

    def units(self, clause, u, loose=False):
        self.events.append({"op": "units", "clause": clause, "units": int(u), "loose": bool(loose)})

    def eqint(self, clause, got, want):
        self.events.append({"op": "eqint", "clause": clause, "got": got, "want": want})

    def flag(self, clause, ok):
        self.events.append({"op": "flag", "clause": clause, "ok": bool(ok)})

    def lgle(self, clause, lhs, rhs, slack):
        self.events.append({"op": "lgle", "clause": clause, "lhs_lg": lg(lhs), "rhs_lg": lg(rhs), "slack": int(slack)})


# ------------------------------------------------------------------ judges
def j_matmat(name, fn, pre, kw, out):
    A, B, C = mat(pre[0]), mat(pre[1]), mat(out)
    if A is None or B is None or C is None:
        return []
    o = Out("C01", "product.repo-test", "repo-test", {"shapes": [list(A.shape[:2]), list(B.shape[:2])]})
    W = omul(A, B)
    o.eqint("ProductShape", list(C.shape[:2]), list(W.shape[:2]))
    if C.shape == W.shape:
        o.units("ProductIsHamilton", units(ofro(C - W), max(ofro(A) * ofro(B), 1e-300), 4 * A.shape[1]))
    return [o]


def j_herm(name, fn, pre, kw, out):
    A, H = mat(pre[0]), mat(out)
    if A is None or H is None:
        return []
    o = Out("C01", "quat_hermitian.repo-test", "repo-test", {"shape": list(A.shape[:2])})
    o.flag("HermIsConjTranspose", H.shape == oherm(A).shape and np.array_equal(H, oherm(A)))
    return [o]


def _norm_expect(A, ordv):
    mod = np.sqrt(np.sum(A * A, axis=-1))
    if ordv in (None, "fro", "F"):
        return "FroIsRootSumSquares", ofro(A)
    if ordv == 1:
        return "OneNormIsMaxColumnSum", float(np.max(np.sum(mod, axis=0)))
    if ordv in (np.inf, "inf") or (isinstance(ordv, float) and ordv == float("inf")):
        return "InfNormIsMaxRowSum", float(np.max(np.sum(mod, axis=1)))
    if ordv == 2:
        return "TwoNormIsLargestSingularValue", float(osvals(A)[0])
    return None, None


def j_norm(name, fn, pre, kw, out):
    b = bind(fn, pre, kw)
    A = mat(pre[0])
    if A is None:
        return []
    ordv = {"quat_frobenius_norm": None, "normQ": b.get("opt"), "matrix_norm": b.get("ord", b.get("norm_type", None)),
            "induced_matrix_norm_1": 1, "induced_matrix_norm_inf": np.inf, "spectral_norm_2": 2}.get(name, "skip")
    if name == "matrix_norm":
        vals = [v for k, v in b.items() if k != list(b)[0]]
        ordv = vals[0] if vals else None
    clause, want = _norm_expect(A, ordv)
    if clause is None:
        return []
    try:
        got = float(out)
    except Exception:
        return []
    o = Out("C15", name + ".repo-test", "repo-test", {"shape": list(A.shape[:2]), "ord": str(ordv)})
    o.units(clause, units(abs(got - want), max(want, 1e-300), 16 * max(A.shape[:2])))
    return [o]


def j_rank(name, fn, pre, kw, out):
    A = mat(pre[0])
    if A is None:
        return []
    b = bind(fn, pre, kw)
    sv = osvals(A)
    top = float(sv[0]) if len(sv) else 0.0
    # documented: absolute tolerance, default eps * max(m, n) * largest singular value; values near the line are ambiguous
    tol = b.get("tol")
    thr = float(tol) if tol is not None else EPS * max(A.shape[:2]) * top
    r = int(np.sum(sv > thr))
    if np.any((sv > thr / 64) & (sv < thr * 64)):
        return []
    o = Out("C11", "rank.repo-test", "repo-test", {"shape": list(A.shape[:2])})
    o.eqint("RankIsNumberOfSingularValues", int(out), r)
    return [o]


def j_det(name, fn, pre, kw, out):
    A = mat(pre[0])
    b = bind(fn, pre, kw)
    if A is None or A.shape[0] != A.shape[1]:
        return []
    d = str(list(b.values())[1]) if len(b) > 1 else "Dieudonne"
    try:
        got = float(np.real(out))
    except Exception:
        return []
    s = osvals(A)
    o = Out("C11", "det(%s).repo-test" % d, "repo-test", {"shape": list(A.shape[:2])})
    if d == "Dieudonne":
        want = float(np.prod(s))
    elif d == "Moore":
        want = float(np.prod(np.linalg.eigvalsh(oadj(A))[0::2]))
    else:
        return []
    scale = max(float(np.prod(np.maximum(s, s[0] * 1e-16))), abs(want), 1e-300)
    o.units("DetIsProductOfSingularValues" if d == "Dieudonne" else "MooreDetIsProductOfEigenvalues",
            units(abs(got - want), scale, 64 * A.shape[0] * max(1.0, s[0] / max(s[-1], 1e-300)) ** 0), loose=True)
    return [o]


def j_null(name, fn, pre, kw, out):
    A = mat(pre[0])
    if A is None:
        return []
    b = bind(fn, pre, kw)
    side = {"quat_null_left": "left", "quat_null_right": "right"}.get(name, b.get("side", "right"))
    N = F(out)
    if N is None or N.ndim != 3:
        return []
    # documented: singular values <= rtol * max(s) count as zero; values within a factor 8 of that line are ambiguous
    rtol = float(b.get("rtol", 1e-10))
    sv = osvals(A)
    top = float(sv[0]) if len(sv) else 0.0
    r = int(np.sum(sv > rtol * top)) if top > 0 else 0
    ok = top == 0 or not np.any((sv > rtol * top / 8) & (sv < rtol * top * 8))
    m, n = A.shape[:2]
    nul = (n - r) if side == "right" else (m - r)
    o = Out("C11", "quat_null_space(%s)" % side, "nullity>=2" if nul >= 2 else "repo-test", {"shape": [m, n], "side": side})
    if ok:
        o.eqint("NullSpaceDimension", [int(N.shape[0]), int(N.shape[1])], [n if side == "right" else m, nul])
    if N.shape[1] and N.shape[0] == (n if side == "right" else m) and max(N.shape[:2]) <= MAXDIM:
        R = omul(A, N) if side == "right" else omul(oherm(A), N)
        o.lgle("NullVectorsAnnihilated", ofro(R), max(ofro(A) * ofro(N), 1e-300) * max(8 * rtol, 2.0 ** -36), 0)
    return [o]


def j_power(name, fn, pre, kw, out):
    A = mat(pre[0])
    if A is None or A.shape[0] != A.shape[1]:
        return []
    n = A.shape[0]
    b = bind(fn, pre, kw)
    o = Out("C19", name, "arbitrary-input", {"n": n, "repo_test": True})
    if name == "power_iteration":
        v, e = (out if isinstance(out, tuple) else (out, None))
        vf = F(np.asarray(v))
        if vf is None:
            return []
        o.units("UnitNorm", units(abs(ofro(vf) - 1.0), 1.0, 4 * n))
        if e is not None:
            s1 = float(osvals(A)[0])
            o.units("ModulusAtMostSpectralNorm", units(max(0.0, float(e) - s1), max(s1, 1e-300), 4 * n))
    else:
        if not b.get("return_vector", True) or not isinstance(out, tuple):
            return []
        vf = F(np.asarray(out[0]))
        if vf is None:
            return []
        o.units("UnitNormAdjointVariant", units(abs(ofro(vf) - 1.0), 1.0, 4 * n))
    return [o]


def j_ggivens(name, fn, pre, kw, out):
    x1, x2 = np.asarray(pre[0], dtype=float), np.asarray(pre[1], dtype=float)
    G = np.asarray(out, dtype=float)
    o = Out("C16", "ggivens", "repo-test", {"x1": x1.tolist(), "x2": x2.tolist()})
    o.eqint("GivensShape", list(G.shape), [8, 8])
    if G.shape == (8, 8) and x1.shape == (4,) and x2.shape == (4,):
        o.units("GivensUnitary", units(float(np.max(np.abs(G.T @ G - np.eye(8)))), 1.0, 8))
        vec = np.array([x1[0], x2[0], x1[1], x2[1], x1[2], x2[2], x1[3], x2[3]])
        nrm = float(np.sqrt(np.sum(x1 * x1) + np.sum(x2 * x2)))
        want = np.zeros(8)
        want[0] = nrm
        o.units("GivensMapsPairToNormZero", units(float(np.max(np.abs(G.T @ vec - want))), max(nrm, 1e-300), 8))
    return [o]


def _from_a2(M):
    """real (m, 4n) [A0 A2 A1 A3] -> float (m, n, 4)"""
    n = M.shape[1] // 4
    return np.stack([M[:, 0:n], M[:, 2 * n:3 * n], M[:, n:2 * n], M[:, 3 * n:4 * n]], axis=-1)


def j_hessqr(name, fn, pre, kw, out):
    Hess = np.asarray(pre[0], dtype=float)
    if Hess.ndim != 2 or Hess.shape[0] % 4 or max(Hess.shape) > 4 * MAXDIM:
        return []
    k1, k = Hess.shape[0] // 4, Hess.shape[1]
    Hf = np.stack([Hess[c * k1:(c + 1) * k1] for c in range(4)], axis=-1)
    W, R = out
    Wf, Rf = _from_a2(np.asarray(W, dtype=float)), _from_a2(np.asarray(R, dtype=float))
    o = Out("C16", "Hess_QR_ggivens", "repo-test", {"shape": [k1, k]})
    o.eqint("HessQRShapes", [list(Wf.shape[:2]), list(Rf.shape[:2])], [[k1, k1], [k1, k]])
    if [list(Wf.shape[:2]), list(Rf.shape[:2])] == [[k1, k1], [k1, k]]:
        scale = max(ofro(Hf), 1e-300)
        o.units("WUnitary", unitary_units(Wf))
        low = max([float(np.max(np.abs(Rf[i, j]))) for i in range(k1) for j in range(k) if i > j] + [0.0])
        o.units("RUpperTriangular", units(low, scale, 4 * k1))
        o.units("WR_eq_H", units(ofro(omul(Wf, Rf) - Hf), scale, 4 * k1 * k))
    return [o]


def j_utri(name, fn, pre, kw, out):
    try:
        R = np.stack([np.asarray(p.toarray() if hasattr(p, "toarray") else p, dtype=float) for p in pre[0:4]], axis=-1)
        Bm = np.stack([np.asarray(p.toarray() if hasattr(p, "toarray") else p, dtype=float).reshape(R.shape[0], -1) for p in pre[4:8]], axis=-1)
        X = np.stack([np.asarray(p, dtype=float).reshape(R.shape[0], -1) for p in out[0:4]], axis=-1)
    except Exception:
        return []
    if R.ndim != 3 or R.shape[0] != R.shape[1] or max(R.shape[:2]) > MAXDIM:
        return []
    d = [float(np.sqrt(np.sum(R[i, i] ** 2))) for i in range(R.shape[0])]
    if min(d) <= 1e-12 * max(max(d), 1e-300):
        return []                                   # singular system: outside the claim
    o = Out("C16", "UtriangleQsparse", "repo-test", {"n": R.shape[0], "rhs": Bm.shape[1]})
    cond = max(d) / min(d)
    o.units("TX_eq_B", units(ofro(omul(R, X) - Bm), max(ofro(R) * ofro(X), ofro(Bm), 1e-300), 16 * R.shape[0] * max(1.0, cond)), loose=True)
    return [o]


def j_qr(name, fn, pre, kw, out):
    A = mat(pre[0])
    if A is None:
        return []
    Q, R = F(np.asarray(out[0])), F(np.asarray(out[1]))
    m, n = A.shape[:2]
    k = min(m, n)
    cls = "rank-deficient-leading-columns" if leading_deficient(A) else "repo-test"
    o = Out("C06", "qr_qua", cls, {"shape": [m, n]})
    o.eqint("ShapeQ", [list(Q.shape[:2]), list(R.shape[:2])], [[m, k], [k, n]])
    if [list(Q.shape[:2]), list(R.shape[:2])] == [[m, k], [k, n]]:
        scale = max(ofro(A), 1e-300)
        o.units("OrthonormalQ", ortho_units(Q))
        low = max([float(np.max(np.abs(R[i, j]))) for i in range(k) for j in range(n) if i > j] + [0.0])
        o.units("RUpperTriangular", units(low, scale, 4 * m))
        o.units("Reconstruction", units(ofro(omul(Q, R) - A), scale, 4 * m * n))
    return [o]


def _svd_common(o, A, U, s, V, R=None):
    m, n = A.shape[:2]
    k = len(s)
    scale = max(ofro(A), 1e-300)
    o.units("OrthonormalU", ortho_units(U))
    o.units("OrthonormalV", ortho_units(V))
    sv = osvals(A)
    top = max(float(sv[0]) if len(sv) else 0.0, 1e-300)
    o.flag("ValuesSortedNonNegative", bool(np.all(s >= -64 * EPS * top) and np.all(np.diff(s) <= 64 * EPS * top)))
    return sv, top, scale


def j_qsvd_full(name, fn, pre, kw, out):
    A = mat(pre[0])
    if A is None:
        return []
    U, s, V = F(np.asarray(out[0])), np.asarray(out[1], dtype=float), F(np.asarray(out[2]))
    m, n = A.shape[:2]
    o = Out("C05", "classical_qsvd_full", degenerate(A) or "simple-spectrum", {"shape": [m, n], "repo_test": True})
    o.eqint("Shapes", [list(U.shape[:2]), list(V.shape[:2])], [[m, m], [n, n]])
    if [list(U.shape[:2]), list(V.shape[:2])] != [[m, m], [n, n]]:
        return [o]
    sv, top, scale = _svd_common(o, A, U, s, V)
    kk = min(len(s), len(sv))
    o.units("SingularValuesTrue", units(float(np.max(np.abs(np.sort(s)[::-1][:kk] - sv[:kk]))) if kk else 0.0, top, 4 * max(m, n)))
    D = np.zeros((m, n, 4))
    for i in range(min(m, n, len(s))):
        D[i, i, 0] = s[i]
    o.units("Reconstruction", units(ofro(omul(omul(U, D), oherm(V)) - A), scale, 4 * m * n))
    return [o]


def j_qsvd_trunc(name, fn, pre, kw, out):
    A = mat(pre[0])
    if A is None:
        return []
    b = bind(fn, pre, kw)
    U, s, V = F(np.asarray(out[0])), np.asarray(out[1], dtype=float), F(np.asarray(out[2]))
    m, n = A.shape[:2]
    Rk = len(s)
    rand = name in ("rand_qsvd", "pass_eff_qsvd")
    sv = osvals(A)
    rk, _ = orank(A)
    if name == "pass_eff_qsvd" and int(b.get("n_passes", 2)) < 2:
        return []                                   # the property speaks of two or more passes
    if rand:
        P = int(b.get("oversample", 10))
        rep_ = any(abs(sv[i] - sv[i + 1]) <= 1e-6 * max(sv[0], 1e-300) for i in range(max(rk - 1, 0)))
        dg = rk < min(m, Rk + P)
        o = Out("C12", name, "repeated-values" if rep_ else ("rank-deficient-sketch" if dg else "full-rank-sketch-simple-spectrum"),
                {"shape": [m, n], "R": Rk, "oversample": P, "repo_test": True})
    else:
        o = Out("C05", "classical_qsvd", degenerate(A) or "simple-spectrum", {"shape": [m, n], "R": Rk, "repo_test": True})
    # the number of triples returned is the truncation rank the caller asked for
    try:
        Rreq = int(np.asarray(b.get("R", pre[1] if len(pre) > 1 else Rk)))
    except Exception:
        Rreq = Rk
    o.eqint("Shapes", [list(U.shape[:2]), list(V.shape[:2]), Rk], [[m, Rk], [n, Rk], min(Rreq, Rk) if Rreq > min(m, n) else Rreq])
    if [list(U.shape[:2]), list(V.shape[:2])] != [[m, Rk], [n, Rk]]:
        return [o]
    sv, top, scale = _svd_common(o, A, U, s, V)
    fro = max(ofro(A), 1e-300)
    D = np.zeros((Rk, Rk, 4))
    for i in range(Rk):
        D[i, i, 0] = s[i]
    err = ofro(A - omul(omul(U, D), oherm(V)))
    ey = math.sqrt(float(np.sum(sv[Rk:] ** 2)))
    if rand:
        o.units("InterlacingBelowTrueValues", units(max([s[i] - sv[i] for i in range(min(Rk, len(sv)))] + [0.0]), top, 16 * max(m, n)))
        o.units("ErrorAtLeastEckartYoung", units(max(0.0, ey - err), fro, 16 * max(m, n)), loose=True)
        o.units("ErrorAtMostNormA", units(max(0.0, err - fro), fro, 16 * max(m, n)), loose=True)
    else:
        o.units("SingularValuesTrue", units(float(np.max(np.abs(s - sv[:Rk]))) if Rk else 0.0, top, 4 * max(m, n)))
        o.units("EckartYoungOptimal", units(abs(err - ey), fro, 16 * max(m, n) * max(m, n)), loose=True)
    return [o]


def j_lu(name, fn, pre, kw, out):
    A = mat(pre[0])
    if A is None:
        return []
    m, n = A.shape[:2]
    N = min(m, n)
    scale = max(ofro(A), 1e-300)
    if len(out) == 3:
        Lf, Uf, Pf = F(np.asarray(out[0])), F(np.asarray(out[1])), F(np.asarray(out[2]))
        o = Out("C07", "quaternion_lu.mode3", "repo-test", {"shape": [m, n]})
        P0 = Pf[..., 0]
        isperm = (not np.any(Pf[..., 1:] != 0)) and np.all((P0 == 0) | (P0 == 1)) and np.all(P0.sum(0) == 1) and np.all(P0.sum(1) == 1)
        o.flag("IsPermutation", isperm)
        if isperm and Lf.shape == (m, N, 4) and Uf.shape == (N, n, 4):
            o.units("PA_eq_LU", units(ofro(omul(Pf, A) - omul(Lf, Uf)), scale, 16 * m * n), loose=True)
            mod = np.sqrt(np.sum(Lf * Lf, axis=-1))
            o.flag("UnitLower", bool(all(np.array_equal(Lf[i, i], [1, 0, 0, 0]) for i in range(N)) and not np.any(np.triu(mod, 1))))
            o.flag("UpperTrap", bool(not np.any(np.tril(np.sqrt(np.sum(Uf * Uf, axis=-1)), -1))))
            o.flag("MultLeOne", bool(np.max(np.tril(mod, -1), initial=0.0) <= 1.0 + 1e-12))
        return [o]
    Lf, Uf = F(np.asarray(out[0])), F(np.asarray(out[1]))
    o = Out("C07", "quaternion_lu.mode2", "repo-test", {"shape": [m, n]})
    if Lf.shape == (m, N, 4) and Uf.shape == (N, n, 4):
        o.units("A_eq_L2U", units(ofro(A - omul(Lf, Uf)), scale, 16 * m * n), loose=True)
        o.flag("UpperTrap", bool(not np.any(np.tril(np.sqrt(np.sum(Uf * Uf, axis=-1)), -1))))
    else:
        o.flag("Shapes", False)
    return [o]


def _is_herm(A, rel=1e-10):
    return A.shape[0] == A.shape[1] and ofro(A - oherm(A)) <= rel * max(ofro(A), 1e-300)


def j_tridiag(name, fn, pre, kw, out):
    A = mat(pre[0])
    if A is None or not _is_herm(A):
        return []
    P, B = F(np.asarray(out[0])), F(np.asarray(out[1]))
    n = A.shape[0]
    scale = max(ofro(A), 1e-300)
    o = Out("C08", "tridiagonalize", "repo-test", {"n": n})
    o.units("UnitaryP", unitary_units(P))
    band = all(not np.any(B[i, j]) for i in range(n) for j in range(n) if abs(i - j) > 1)
    o.flag("BRealSymmetricTridiagonal", bool(band and not np.any(B[..., 1:]) and np.max(np.abs(B[..., 0] - B[..., 0].T), initial=0.0) <= 1024 * EPS * scale))
    o.units("PAPh_eq_B", units(ofro(omul(omul(P, A), oherm(P)) - B), scale, 4 * n * n))
    return [o]


def j_eig(name, fn, pre, kw, out):
    A = mat(pre[0])
    if A is None or not _is_herm(A):
        return []
    ev, V = np.asarray(out[0]), F(np.asarray(out[1], dtype=np.quaternion))
    n = A.shape[0]
    w = np.linalg.eigvalsh(oadj(A))[0::2]
    top = max(float(np.max(np.abs(w))), 1e-300)
    rep = any(abs(w[i] - w[i + 1]) <= 1e-8 * top for i in range(n - 1))
    o = Out("C08", "quaternion_eigendecomposition", "repeated-eigenvalue" if rep else "simple-spectrum", {"n": n, "repo_test": True})
    if ev.shape[0] != n or V.shape[:2] != (n, n):
        o.flag("ShapesEig", False)
        return [o]
    o.units("EigenvaluesReal", units(float(np.max(np.abs(np.imag(ev)))), top, 4 * n))
    o.units("SpectrumOfA", units(float(np.max(np.abs(np.sort(np.real(ev)) - np.sort(w)))), top, 4 * n * n))
    o.units("UnitaryV", unitary_units(V))
    D = np.zeros((n, n, 4))
    for i in range(n):
        D[i, i, 0] = float(np.real(ev[i]))
    o.units("AV_eq_VLambda", units(ofro(omul(A, V) - omul(V, D)), max(ofro(A), 1e-300), 4 * n * n))
    return [o]


def j_hess(name, fn, pre, kw, out):
    A = mat(pre[0])
    if A is None or A.shape[0] != A.shape[1]:
        return []
    P, H = F(np.asarray(out[0])), F(np.asarray(out[1]))
    n = A.shape[0]
    scale = max(ofro(A), 1e-300)
    o = Out("C09", "hessenbergize", "repo-test", {"n": n})
    o.units("UnitaryP", unitary_units(P))
    low = max([float(np.max(np.abs(H[i, j]))) for i in range(n) for j in range(n) if i > j + 1] + [0.0])
    o.units("UpperHessenberg", units(low, scale, 4 * n))
    o.units("H_eq_PAPh", units(ofro(omul(omul(P, A), oherm(P)) - H), scale, 4 * n * n))
    return [o]


def j_schur(name, fn, pre, kw, out):
    A = mat(pre[0])
    if A is None or A.shape[0] != A.shape[1] or not isinstance(out, tuple) or len(out) < 2:
        return []
    b = bind(fn, pre, kw)
    tol = float(b.get("tol", 1e-10))
    Q, T = F(np.asarray(out[0])), F(np.asarray(out[1]))
    n = A.shape[0]
    nrm = max(ofro(A), 1.0)
    var = str(b.get("variant", b.get("shift", b.get("shift_mode", ""))))
    o = Out("C10", "%s:%s" % (name, var), "repo-test", {"n": n, "tol": tol})
    fin = bool(np.all(np.isfinite(Q)) and np.all(np.isfinite(T)))
    o.flag("Finite", fin)
    if not fin:
        return [o]
    o.units("UnitaryQ", unitary_units(Q), loose=True)
    o.lgle("SimilarityPreserved", ofro(omul(omul(Q, T), oherm(Q)) - A) / nrm, max(tol * 2.0 ** 10, 2.0 ** -38), 0)
    if len(out) >= 3 and isinstance(out[2], dict) and out[2].get("converged"):
        low = max([float(np.sqrt(np.sum(T[i, j] ** 2))) for i in range(n) for j in range(i)] + [0.0])
        o.lgle("ConvergedImpliesUpperTriangular", low / nrm, max(tol * 2.0 ** 7, 2.0 ** -38), 0)
    return [o]


def j_ns(name, fn, pre, kw, out):
    A = mat(pre[1])
    if A is None or not isinstance(out, tuple):
        return []
    X = F(np.asarray(out[0]))
    m, n = A.shape[:2]
    nrmA = max(ofro(A), 1e-300)
    o = Out("C03", name, "repo-test", {"shape": [m, n]})
    r, ok = orank(A)
    full = ok and r == min(m, n)
    fin = bool(X is not None and np.all(np.isfinite(X)))
    if full:
        o.flag("Finite", fin)
    if not fin:
        return [o]
    res = out[1].get("AXA-A") if isinstance(out[1], dict) else None
    if res is not None and len(res):
        true = ofro(omul(omul(A, X), A) - A)
        # the level below which ||AXA - A|| is rounding noise: products with X ~ A^+ carry errors of eps * cond(A) * ||A||
        # (the same 2^-44 cond convention as C04's residual floor); for well-conditioned A this is the former 2^-40 ||A||
        sv_ = osvals(A)
        cond_ = float(sv_[0] / max(sv_[min(r, len(sv_)) - 1], 1e-300)) if r >= 1 else 1.0
        noise = max(2.0 ** -40, 2.0 ** -44 * cond_) * nrmA
        if true > noise:
            o.lgle("ResidualHistoryTruthful", abs(float(res[-1]) - true), 0.03 * true, 0)
        hist = [float(x) for x in res]
        if full:
            o.flag("E1NeverIncreases", all(hist[i + 1] <= hist[i] * (1 + 2.0 ** -5) + noise for i in range(len(hist) - 1)))
    return [o]


def j_gmres(name, fn, pre, kw, out):
    A = mat(pre[1])
    bq = mat(pre[2]) if len(pre) > 2 else None
    if A is None or bq is None or not isinstance(out, tuple) or A.shape[0] != A.shape[1]:
        return []
    x = F(np.asarray(out[0]))
    info = out[1] if isinstance(out[1], dict) else {}
    n = A.shape[0]
    o = Out("C04", "QGMRESSolver.solve", "repo-test", {"n": n})
    if x is None or x.ndim != 3:
        x = None if x is None else x.reshape(n, -1, 4)
    fin = bool(x is not None and np.all(np.isfinite(x)))
    o.flag("Finite", fin)
    nb = ofro(bq)
    if not fin or nb == 0:
        return [o]
    sv = osvals(A)
    cond = float(sv[0] / max(sv[-1], 1e-300))
    floor = 2.0 ** -44 * cond
    true = ofro(bq - omul(A, x)) / nb
    rep = info.get("residual_true", info.get("residual"))
    if rep is not None and np.isfinite(rep) and not (float(rep) <= floor and true <= floor):
        o.lgle("Truthful", max(float(rep), true) / max(min(float(rep), true), 1e-300), 2.0 ** 0.25, 0)
    tol = float(getattr(pre[0], "tol", 1e-6))
    if info.get("converged"):
        o.lgle("ConvSound", true, max(tol * 4.0 * cond, floor), 0)
    return [o]


def j_sketch(name, fn, pre, kw, out):
    A = mat(pre[1])
    if A is None or not isinstance(out, tuple) or not isinstance(out[1], dict):
        return []
    X = F(np.asarray(out[0]))
    m, n = A.shape[:2]
    o = Out("C13", name, "repo-test", {"shape": [m, n]})
    if not out[1].get("converged"):
        return []
    fin = bool(X is not None and np.all(np.isfinite(X)))
    o.flag("ConvergedFinite", fin)
    if fin:
        tol = float(getattr(pre[0], "tol", 1e-6))
        left = m >= n
        dev = (omul(X, A) - oeye(n)) if left else (omul(A, X) - oeye(m))
        o.lgle("ConvergedSound", ofro(dev) / math.sqrt(n if left else m), 64 * tol, 0)
    return [o]


def _unfold(T, mode):
    return np.moveaxis(T, mode, 0).reshape(T.shape[mode], -1, 4)


def _colset(M):
    """multiset of columns of float (r, c, 4) as sorted bytes"""
    return sorted(np.ascontiguousarray(M[:, j]).tobytes() for j in range(M.shape[1]))


def j_unfold(name, fn, pre, kw, out):
    T = F(pre[0])
    b = bind(fn, pre, kw)
    if T is None or T.ndim != 4:
        return []
    mode = int(list(b.values())[1])
    M = F(np.asarray(out))
    W = _unfold(T, mode)
    o = Out("C18", "tensor_unfold", "repo-test", {"shape": list(T.shape[:3]), "mode": mode})
    # the property fixes the shape and that the columns are the mode-n fibres, each once; their ORDER is a convention
    # of the implementation (fold must invert it) and a different order is mechanism drift, not a violation
    o.flag("UnfoldColumnsAreModeNFibres", bool(M is not None and M.shape == W.shape and _colset(M) == _colset(W)))
    o.flag("M:DocumentedColumnOrder", bool(M is not None and M.shape == W.shape and np.array_equal(M, W)))
    return [o]


def j_fold(name, fn, pre, kw, out):
    M = F(pre[0])
    b = bind(fn, pre, kw)
    if M is None or M.ndim != 3:
        return []
    vals = list(b.values())
    mode, shape = int(vals[1]), tuple(vals[2])
    T = F(np.asarray(out))
    o = Out("C18", "tensor_fold", "repo-test", {"shape": list(shape), "mode": mode})
    okshape = bool(T is not None and T.shape[:3] == shape)
    o.flag("FoldFibresAreTheColumns", bool(okshape and _colset(_unfold(T, mode)) == _colset(M)))
    o.flag("M:DocumentedColumnOrder", bool(okshape and np.array_equal(_unfold(T, mode), M)))
    return [o]


# name -> (module family, attribute path, judge)
REGISTRY = [
    ("utils", "quat_matmat", j_matmat), ("utils", "quat_hermitian", j_herm),
    ("utils", "quat_frobenius_norm", j_norm), ("utils", "matrix_norm", j_norm), ("utils", "normQ", j_norm),
    ("utils", "induced_matrix_norm_1", j_norm), ("utils", "induced_matrix_norm_inf", j_norm), ("utils", "spectral_norm_2", j_norm),
    ("utils", "rank", j_rank), ("utils", "det", j_det),
    ("utils", "quat_null_space", j_null), ("utils", "quat_null_left", j_null), ("utils", "quat_null_right", j_null), ("utils", "quat_kernel", j_null),
    ("utils", "power_iteration", j_power), ("utils", "power_iteration_nonhermitian", j_power),
    ("utils", "ggivens", j_ggivens), ("utils", "Hess_QR_ggivens", j_hessqr), ("utils", "UtriangleQsparse", j_utri),
    ("decomp.qsvd", "qr_qua", j_qr), ("decomp.qsvd", "classical_qsvd_full", j_qsvd_full), ("decomp.qsvd", "classical_qsvd", j_qsvd_trunc),
    ("decomp.qsvd", "rand_qsvd", j_qsvd_trunc), ("decomp.qsvd", "pass_eff_qsvd", j_qsvd_trunc),
    ("decomp.LU", "quaternion_lu", j_lu),
    ("decomp.tridiagonalize", "tridiagonalize", j_tridiag), ("decomp.eigen", "quaternion_eigendecomposition", j_eig),
    ("decomp.hessenberg", "hessenbergize", j_hess),
    ("decomp.schur", "quaternion_schur", j_schur), ("decomp.schur", "quaternion_schur_pure", j_schur),
    ("decomp.schur", "quaternion_schur_pure_implicit", j_schur), ("decomp.schur", "quaternion_schur_unified", j_schur),
    ("decomp.schur", "quaternion_schur_experimental", j_schur),
    ("solver", "NewtonSchulzPseudoinverse.compute", j_ns), ("solver", "HigherOrderNewtonSchulzPseudoinverse.compute", j_ns),
    ("solver", "QGMRESSolver.solve", j_gmres),
    ("solver", "RandomizedSketchProjectPseudoinverse.compute", j_sketch), ("solver", "RandomizedSketchProjectPseudoinverse.compute_column_variant", j_sketch),
    ("solver", "RandomizedSketchProjectPseudoinverse.compute_row_variant", j_sketch),
    ("solver", "HybridRSPNewtonSchulz.compute", j_sketch), ("solver", "CGNEQSolver.compute", j_sketch),
    ("tensor", "tensor_unfold", j_unfold), ("tensor", "tensor_fold", j_fold),
]
# routines that overwrite an argument by documented design (not judged for C14)
INPLACE_BY_DESIGN = {"UtriangleQsparse", "Hess_QR_ggivens"}


def arg_digest(a):
    f = F(a)
    if f is not None:
        return sha(f)
    if isinstance(a, np.ndarray):
        return sha(a)
    if hasattr(a, "toarray"):
        return sha(a.toarray())
    return None
