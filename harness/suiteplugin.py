"""pytest plugin (loaded with -p harness.suiteplugin, PYTHONPATH=/verif) that records what the REPOSITORY'S OWN
TESTS do with the library: every public routine of suitejudge.REGISTRY is wrapped - from the harness, no source hook -
in both import styles the tests use (flat modules `utils`, `decomp.qsvd`, ... and the package `quatica.*`).  A call
made directly by a test (nesting depth 0) is judged on the spot with the oracle arithmetic and its MeasureTrace
events are appended to SUITE_TRACE_OUT (one JSON record per call); nested calls run untouched.  Arguments are copied
before the call (judging uses the copies) and hashed after it (C14: a caller's arrays stay bit-identical)."""
import copy
import importlib
import json
import os
import sys

import numpy as np

ROOT = os.environ["SUITE_ROOT"]                      # directory with quatica/ (link to the tree under test) and tests/
OUT = os.environ["SUITE_TRACE_OUT"]
for p in (ROOT, os.path.join(ROOT, "quatica")):
    if p in sys.path:
        sys.path.remove(p)
sys.path.insert(0, os.path.join(ROOT, "quatica"))
sys.path.insert(1, ROOT)

from . import suitejudge as J  # noqa: E402

# calls are judged when they are made directly by a file under this directory of the mirror (the repository's tests by
# default; harness/apptrace.py records the repository's applications the same way)
TESTS = os.path.realpath(os.path.join(ROOT, os.environ.get("SUITE_CALLER_DIR", "tests"))) + os.sep
STATE = {"depth": 0, "n": 0, "skipped": 0, "errors": 0}
_fh = open(OUT, "a")


def _copy(a):
    try:
        if isinstance(a, np.ndarray):
            return a.copy() if a.size <= 4 * J.MAXDIM * J.MAXDIM * 4 else a
        if hasattr(a, "real") and hasattr(a, "k") and hasattr(a, "shape") and not isinstance(a, (int, float, complex, np.generic)):
            return copy.deepcopy(a) if max(a.shape) <= J.MAXDIM else a
        if hasattr(a, "toarray"):
            return a.copy()
    except Exception:
        pass
    return a


def _wrap(owner, attr, judge, label):
    orig = getattr(owner, attr)
    if getattr(orig, "_suite_wrapped", False):
        return

    def wrapper(*a, **k):
        if STATE["depth"] > 0 or TESTS not in os.path.realpath(sys._getframe(1).f_code.co_filename):
            return orig(*a, **k)                     # only calls made directly by a test file are judged
        STATE["depth"] += 1
        try:
            pre = tuple(_copy(x) for x in a)
            dig = [J.arg_digest(x) for x in a]
            out = orig(*a, **k)
            try:
                recs = judge(attr, orig, pre, k, out)
                same = all(d is None or d == J.arg_digest(x) for d, x in zip(dig, a))
                if attr not in J.INPLACE_BY_DESIGN and any(d is not None for d in dig):
                    o = J.Out("C14", attr, "repo-test", {})
                    o.flag("ArgumentsUnchanged", same)
                    recs = list(recs) + [o]
                test = os.environ.get("PYTEST_CURRENT_TEST", "?").split(" ")[0]
                for o in recs:
                    STATE["n"] += 1
                    _fh.write(json.dumps({"prop": o.prop, "fn": o.fn, "cls": o.cls, "detail": dict(o.detail, test=test, routine=label), "events": o.events}) + "\n")
                if not recs:
                    STATE["skipped"] += 1
            except Exception as e:          # a judge that cannot cope is a machinery problem, reported by the stage
                STATE["errors"] += 1
                _fh.write(json.dumps({"prop": "ERR", "fn": label, "cls": "judge-error", "detail": {"error": repr(e)[:300]}, "events": []}) + "\n")
            return out
        finally:
            STATE["depth"] -= 1
    wrapper._suite_wrapped = True
    wrapper.__name__ = getattr(orig, "__name__", attr)
    wrapper.__doc__ = getattr(orig, "__doc__", None)
    wrapper.__wrapped__ = orig
    setattr(owner, attr, wrapper)


def _install():
    order = ["utils", "data_gen", "decomp.tridiagonalize", "decomp.hessenberg", "decomp.qsvd", "decomp.LU", "decomp.eigen", "decomp.schur", "tensor", "solver"]
    for prefix in ("", "quatica."):
        for modname in order:
            try:
                mod = importlib.import_module(prefix + modname)
            except Exception:
                continue
            for fam, path, judge in J.REGISTRY:
                if fam != modname:
                    continue
                owner = mod
                parts = path.split(".")
                try:
                    for part in parts[:-1]:
                        owner = getattr(owner, part)
                    _wrap(owner, parts[-1], judge, prefix + modname + "." + path)
                except AttributeError:
                    continue
            # names a later module imported FROM this one were bound before wrapping only if that module was imported
            # earlier; the order above imports dependants after their providers, so they bind the wrappers


_install()


def finish():
    _fh.write(json.dumps({"prop": "END", "fn": "", "cls": "", "detail": dict(STATE), "events": []}) + "\n")
    _fh.flush()


def pytest_sessionfinish(session, exitstatus):
    _fh.write(json.dumps({"prop": "END", "fn": "", "cls": "", "detail": dict(STATE), "events": []}) + "\n")
    _fh.flush()
