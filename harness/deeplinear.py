"""DeepLinearNewtonSchulz.compute bound to spec/DeepLinear.tla (growth of the system specification beyond the twenty
listed properties, DESIGN 6).

M  DeepLinear.tla: the block-coordinate-descent schedule (AskX, AskW, Assign, Clip, Record, Return) for every
   d <= 3 layers, 1..2 inner repetitions, budgets 0..3 and every sweep at which the error may drop below tol; TLC checks
   the Gauss-Seidel version law, the history / budget / stop rules and termination.
F  every TLC behaviour (d, inner, max_iter, stop_at) is driven through the REAL solver: a pilot run with tol = 0 gives
   the error trajectory, tol is then chosen so that the run must stop after sweep stop_at (behaviours whose stop the
   trajectory cannot realise are skipped and counted).
B  the calls the solver makes to its inner Newton-Schulz solver are recorded by a proxy installed from the harness
   (obj.NSPSolver; no source hook); a mirror of the documented algorithm in oracle arithmetic, fed with the OUTPUTS of
   the recorded calls, says for every call whether its argument is the factor the algorithm prescribes; the event
   sequence is validated by DeepLinearTrace.tla, which steps the operators of the specification.
   Every recorded inner call is a real-use input of NewtonSchulzPseudoinverse.compute and is judged with C03's clauses
   (MeasureTrace.tla).  Clauses about DeepLinear itself are mechanism clauses ("M:", reported as drift); argument /
   configuration / reuse flags are C14's and are judged when C14 runs.
"""
import contextlib
import io

import numpy as np
import quaternion

from . import par
from . import spectral as S
from . import suitejudge as J
from .qlib import lib, q_from_float, q_to_float, omul, ofro, sha

MCFG = """CONSTANTS MaxD = 3
 MaxInner = 2
 MaxSweeps = 3
SPECIFICATION Spec
INVARIANTS TypeOK GaussSeidel LastLayerHasNoRightFactor HistoryCountsSweeps BudgetRespected StopRule ZeroBudgetReturnsInitialWeights
PROPERTIES Terminates
CHECK_DEADLOCK FALSE
"""
TCFG = """INIT TInit
NEXT TNext
INVARIANT Report
CHECK_DEADLOCK FALSE
"""
C14_CLAUSES = ("ArgumentsUnchanged", "ConfigStable", "SameAsFreshObject")
# layer widths; the library needs the LAST width to equal the number of samples (W_d := pinv(Xhat_d); it forms What * Xhat), so the
# last entry (None) is replaced by it; the number of samples differs from every other width (kind of a call is observable)
LAYERS = {1: [[3, None], [2, None], [4, None]], 2: [[3, 3, None], [3, 2, None], [2, 3, None]], 3: [[3, 3, 3, None], [3, 2, 3, None], [2, 2, 3, None]]}


class _Proxy:
    """records (argument copy, output) of every inner Newton-Schulz call"""

    def __init__(self, orig, log):
        self.__dict__["_orig"] = orig
        self.__dict__["_log"] = log

    def compute(self, A, *a, **k):
        pre = A.copy()
        out = self._orig.compute(A, *a, **k)
        self._log.append((pre, out))
        return out

    def __getattr__(self, name):
        return getattr(self._orig, name)


def _eye(r, c):
    E = np.zeros((r, c, 4))
    for i in range(min(r, c)):
        E[i, i, 0] = 1.0
    return E


def _close(a, b, rtol=1e-9, bound=0.0):
    """equal to rounding of a product chain: relative to the larger of the entries and `bound`, the product of the norms
    of the chain's factors (on rank-deficient intermediate factors the inner solver returns huge null-space components
    that cancel in the products; the library's and the oracle's summation orders then differ by rounding of the TERMS)"""
    if a.shape != b.shape:
        return False
    sc = max(float(np.max(np.abs(a))) if a.size else 0.0, float(np.max(np.abs(b))) if b.size else 0.0, bound, 1e-300)
    return bool(np.all(np.isfinite(a)) and float(np.max(np.abs(a - b))) <= rtol * sc)


def _cfg_snapshot(obj):
    d = {k: v for k, v in vars(obj).items() if k != "NSPSolver"}
    ns = obj.NSPSolver
    inner = vars(ns._orig if isinstance(ns, _Proxy) else ns)
    return repr(sorted(d.items())) + repr(sorted((k, v) for k, v in inner.items()))


def _init_weights(X, layers, random_init):
    """the documented initialisation, in oracle arithmetic (the global generator is consumed like the library does)"""
    nrm = ofro(X)
    sf = 1.0 / nrm ** (1.0 / len(layers)) if nrm > 0 else 0.1
    W = []
    for i in range(len(layers) - 1):
        r, c = layers[i], layers[i + 1]
        if random_init:
            sc = np.sqrt(2.0 / (r + c)) * sf
            comps = [np.random.randn(r, c) * sc for _ in range(4)]
        else:
            comps = [np.eye(r, c) * sf, np.zeros((r, c)), np.zeros((r, c)), np.eye(r, c) * sf]
        W.append(np.stack(comps, axis=-1))
    return W


def _mirror(X, layers, inner, log, random_init, seed):
    """walks the documented algorithm along the recorded inner calls -> (Pinv events, mirror weights).  The KIND of a
    call is observed from its argument (a left factor X W_1..W_{i-1} has as many rows as X, and the cases keep that
    number different from every layer width); what the mirror expects at that point is logged next to it."""
    d = len(layers) - 1
    ns = X.shape[0]
    np.random.seed(seed)
    W = _init_weights(X, layers, random_init)
    ev = []
    sweep, i, rep, phase, lost = 1, 0, 0, "X", False
    PX = None
    wb = [0.0] * d                                             # norm products behind each mirror weight (see _close)
    for arg, out in log:
        f = q_to_float(np.asarray(arg))
        kind = "X" if f.shape[0] == ns else "W"
        if lost:
            ev.append({"ev": "Pinv", "kind": kind, "rows": int(f.shape[0]), "cols": int(f.shape[1]), "match": False, "mirror_layer": 0, "mirror_sweep": 0})
            continue
        if phase == "X":
            want, bound = X.copy(), ofro(X)
            for j in range(i):
                want, bound = omul(want, W[j]), bound * ofro(W[j])
        else:
            want, bound = W[i + 1].copy(), ofro(W[i + 1])
            for j in range(i + 2, d):
                want, bound = omul(want, W[j]), bound * ofro(W[j])
        ev.append({"ev": "Pinv", "kind": kind, "rows": int(f.shape[0]), "cols": int(f.shape[1]), "match": kind == phase and _close(f, want, bound=bound),
                   "mirror_layer": i + 1, "mirror_sweep": sweep})
        if kind != phase:
            lost = True                                        # out of schedule: the trace specification reports it
            continue
        P = q_to_float(np.asarray(out[0]))
        if phase == "X" and i < d - 1:
            PX, phase = P, "W"
            continue
        W[i] = P if phase == "X" else (omul(PX, P) if PX.shape[1] == P.shape[0] else PX)
        wb[i] = ofro(P) if phase == "X" else ofro(PX) * ofro(P)
        phase = "X"
        rep += 1
        if rep == inner:
            nw = ofro(W[i])
            if nw > 3.0:
                W[i], wb[i] = W[i] * (3.0 / nw), wb[i] * (3.0 / nw)
            rep = 0
            i += 1
            if i == d:
                i = 0
                sweep += 1
    return ev, W, wb


def _run(sv, cfg, X, layers, tol, seed, with_proxy=True, warm=None):
    obj = sv.DeepLinearNewtonSchulz(gamma=0.9, max_iter=cfg["max_iter"], tol=tol, inner_iterations=cfg["inner"], random_init=cfg["random_init"])
    if warm is not None:            # call history on the same object: another problem first
        np.random.seed(seed + 1)
        with contextlib.redirect_stdout(io.StringIO()):
            obj.compute(q_from_float(warm[0]), list(warm[1]))
    log = []
    if with_proxy:
        obj.NSPSolver = _Proxy(obj.NSPSolver, log)
    before = _cfg_snapshot(obj)
    Xq = q_from_float(X)
    lay = list(layers)
    h0 = sha(Xq)
    np.random.seed(seed)
    with contextlib.redirect_stdout(io.StringIO()):
        out = obj.compute(Xq, lay)
    return out, log, {"args_unchanged": sha(Xq) == h0 and lay == list(layers), "config_unchanged": _cfg_snapshot(obj) == before}


def _digest(out):
    weights, residuals, deviations = out
    return sha(*[np.asarray(w) for w in weights]) + repr([float(x) for x in deviations]) + repr(sorted((k, [float(x) for x in v]) for k, v in residuals.items()))


def _case(args):
    tid, seed, cfg, stop_at = args
    sv = lib().solver
    rng = np.random.default_rng(seed)
    layers = list(LAYERS[cfg["d"]][seed % 3])
    ns = max(x for x in layers if x) + 1 + int(rng.integers(0, 3))
    layers = [ns if x is None else x for x in layers]
    Qf, _ = np.linalg.qr(rng.standard_normal((ns, layers[0])))
    X = np.zeros((ns, layers[0], 4))
    X[..., 0] = Qf * np.linspace(1.0, 2.0, layers[0])
    X[..., 1:] = 0.2 * rng.standard_normal((ns, layers[0], 3))
    # pilot: the error trajectory with tol = 0 (never stops early); tol realising TLC's stop_at
    tol = 0.0
    skipped = False
    if cfg["max_iter"] > 0 and stop_at > 0:
        pilot = [float(x) for x in _run(sv, cfg, X, layers, 0.0, seed, with_proxy=False)[0][2]]
        k = min(stop_at, len(pilot))
        prev = min(pilot[:k - 1]) if k > 1 else float("inf")
        if stop_at <= len(pilot) and pilot[k - 1] < prev and pilot[k - 1] > 0:
            tol = min(pilot[k - 1] * 1.5, 0.5 * (pilot[k - 1] + prev)) if prev < float("inf") else pilot[k - 1] * 1.5
        else:
            skipped = True
    out, log, flags = _run(sv, cfg, X, layers, tol, seed)
    weights, residuals, deviations = out
    evs = [{"ev": "Start", "d": cfg["d"], "inner": cfg["inner"], "max_iter": cfg["max_iter"], "layers": [int(x) for x in layers], "nsamples": int(ns)}]
    pev, Wm, wb = _mirror(X, layers, cfg["inner"], log, cfg["random_init"], seed)
    evs += pev
    d = cfg["d"]
    Wf = [q_to_float(np.asarray(w)) for w in weights]
    shapes_ok = len(Wf) == d and all(list(Wf[i].shape[:2]) == [layers[i], layers[i + 1]] for i in range(len(Wf)))
    dev = [float(x) for x in deviations]
    Y, ybound = X.copy(), ofro(X)
    for w in Wf:
        Y, ybound = (omul(Y, w), ybound * ofro(w)) if Y.shape[1] == w.shape[0] else (Y, ybound)
    true_err = ofro(Y - _eye(*Y.shape[:2]))
    fresh = _digest(_run(sv, cfg, X, layers, tol, seed, with_proxy=False)[0])
    warm_X = np.concatenate([X, X[:1] * 0.5], axis=0)          # another problem (one more sample, one layer) on the same object first
    reused = _digest(_run(sv, cfg, X, layers, tol, seed, with_proxy=False, warm=(warm_X, [layers[0], warm_X.shape[0]]))[0])
    evs.append({"ev": "Return", "nh": len(dev), "max_iter": cfg["max_iter"], "below": [bool(x < tol) for x in dev],
                "truthful": (not dev) or abs(dev[-1] - true_err) <= 1e-9 * max(true_err, 1.0, ybound),
                "weights_match": shapes_ok and len(Wm) == len(Wf) and all(_close(a, b, 1e-8, bound=c) for a, b, c in zip(Wf, Wm, wb)),
                "shapes_ok": bool(shapes_ok),
                "norms_ok": cfg["max_iter"] == 0 or all(ofro(w) <= 3.0 * (1 + 1e-12) for w in Wf),
                "hist_equal": [float(x) for x in residuals.get("total_reconstruction", [None])] == dev and list(residuals.get("layer_deviations", [1])) == [],
                "args_unchanged": flags["args_unchanged"], "config_unchanged": flags["config_unchanged"],
                "same_as_fresh": _digest(out) == fresh and reused == fresh})
    for e in evs:
        e["tid"] = tid
    inner = []
    for argA, o in log:
        r_, ok_ = J.orank(q_to_float(np.asarray(argA)))
        if not ok_ or r_ < min(argA.shape):
            continue            # rank-deficient intermediate factor: the inner run amplifies null-space round-off (recorded finding of C03)
        for rec in J.j_ns("NewtonSchulzPseudoinverse.compute", None, (None, argA), {}, o):
            inner.append((rec.prop, rec.fn, "deep-linear-inner-call", dict(rec.detail, layers=list(layers), cfg=cfg), rec.events))
    return evs, inner, {"cfg": cfg, "stop_at": stop_at, "layers": list(layers), "tol": tol, "skipped_stop": skipped, "seed": seed, "nsamples": int(ns)}


def stage(ctx, quick=False):
    """runs in C03 (inner calls, DeepLinear drift) and in C14 (argument / configuration / reuse flags)"""
    res = ctx.model("DeepLinear", MCFG, dump=True)
    inits = sorted({(s["cfg"]["d"], s["cfg"]["inner"], s["cfg"]["max_iter"], s["stop_at"]) for s in res["states"] if s["st"]["pc"] in ("askX", "return") and s["st"]["nh"] == 0
                    and all(v == 0 for v in s["st"]["ver"]) and s["lastask"]["kind"] == "none"})
    jobs = []
    for i, (d, inner, mi, stop_at) in enumerate(inits):
        if stop_at > mi:
            continue                                           # same behaviour as stop_at = 0
        for ri in ((False,) if quick and (i % 4) else (False, True)):
            jobs.append((len(jobs) + 1, ctx.seed * 977 + len(jobs), {"d": d, "inner": inner, "max_iter": mi, "random_init": ri}, stop_at))
    outs = par.pmap(_case, jobs)
    events, meta = [], {}
    rec = S.Rec()
    for evs, inner, info in outs:
        events += evs
        meta[evs[0]["tid"]] = info
        if ctx.pid == "C03":
            for prop, fn, cls, detail, ievs in inner:
                if prop == "C03":
                    t = rec.new(fn.replace(".repo-test", ""), cls, detail)
                    for e in ievs:
                        rec.events.append(dict(e, tid=t))
    bad = ctx.trace("DeepLinearTrace", events, TCFG)
    for tid, clause in bad:
        info = meta[tid]
        if clause in C14_CLAUSES:
            if ctx.pid == "C14":
                ctx.fail("DeepLinearNewtonSchulz.compute", clause, "deep-linear", info)
            continue
        ctx.drift.append("%s DeepLinearNewtonSchulz.compute %s" % (clause if clause.startswith("M:") else "M:" + clause, {k: info[k] for k in ("cfg", "stop_at", "layers")}))
    ctx.notes["deep_linear"] = {"tlc_behaviours": len(inits), "runs": len(jobs), "stop_not_realisable": sum(1 for m in meta.values() if m["skipped_stop"]),
                                "inner_calls_judged": len(rec.info), "trace_events": len(events)}
    ctx.count("DeepLinear schedule (runs)", len(jobs))
    if rec.events:
        S.judge(ctx, rec.events, rec.info)
