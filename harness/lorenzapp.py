"""The signal-processing application (applications/signal_processing/lorenz_attractor_qgmres.py) as a driver of
real-use inputs for Q-GMRES, bound to spec/Lorenz.tla (growth of the system specification, DESIGN 6).

M  Lorenz.tla: the padding / index arithmetic of the script's system assembly with Python's slice semantics, for every
   N <= 7: indices in range, the assembled matrix is the circulant of the signal, block extraction is consistent.
B  the REAL script's main() is run (from a scratch mirror of the tree: applications/ copied, quatica/ linked; plotting
   and file output replaced from the harness) for several --num_points; the system it hands to QGMRESSolver.solve is
   captured by interposition and (a) compared with the law TLC checked - mechanism clauses, reported as drift -,
   (b) judged with C04's clauses (truthful residual, sound convergence flag, finite solution) through MeasureTrace.tla.
"""
import contextlib
import importlib.util
import io
import os
import shutil
import sys
import tempfile

import numpy as np
import quaternion

from . import spectral as S
from . import suitejudge as J
from .qlib import lib, q_to_float, omul, ofro, REPO

MCFG = """CONSTANTS MaxN = 7
SPECIFICATION Spec
INVARIANTS IndexInRange PadLength Circulant BlockColumn Square PadSampleAgrees
CHECK_DEADLOCK FALSE
"""


def _load(work):
    shutil.copytree(os.path.join(REPO, "applications"), os.path.join(work, "applications"), ignore=shutil.ignore_patterns("__pycache__", "*.png", "*.jpg"))
    os.symlink(os.path.join(REPO, "quatica"), os.path.join(work, "quatica"))
    path = os.path.join(work, "applications", "signal_processing", "lorenz_attractor_qgmres.py")
    spec = importlib.util.spec_from_file_location("verif_lorenz_app", path)
    mod = importlib.util.module_from_spec(spec)
    before = list(sys.path)
    spec.loader.exec_module(mod)
    sys.path[:] = before                      # the script appends its own quatica path; the library is already loaded by lib()
    import matplotlib.pyplot as plt
    mod.save_high_res_plot = lambda fig, *a, **k: plt.close(fig)
    mod.ensure_output_directory = lambda: work
    return mod


def run_app(num_points):
    """-> list of captured (solver object, A copy, b copy, output) of the script's Q-GMRES calls"""
    sv = lib().solver
    work = tempfile.mkdtemp(prefix="verif-lorenz-")
    cap = []
    orig = sv.QGMRESSolver.solve

    def solve(self, A, b):
        pre = (A.copy(), b.copy())
        out = orig(self, A, b)
        cap.append((self, pre[0], pre[1], out))
        return out
    argv = list(sys.argv)
    try:
        mod = _load(work)
        sv.QGMRESSolver.solve = solve
        sys.argv = ["lorenz_attractor_qgmres.py", "--num_points", str(num_points), "--no_show"]
        with contextlib.redirect_stdout(io.StringIO()):
            mod.main()
    finally:
        sv.QGMRESSolver.solve = orig
        sys.argv = argv
        shutil.rmtree(work, ignore_errors=True)
    return cap


def stage(ctx, quick=False):
    ctx.model("Lorenz", MCFG)
    if os.environ.get("VERIF_IMPORT_STYLE") == "package":
        return          # the script imports the library in its own (flat) style: its calls are captured in the first interpreter only
    rec = S.Rec()
    sizes = (6, 9, 16) if quick else (5, 6, 9, 16, 25, 40)
    ncalls = 0
    for N in sizes:
        cap = run_app(N)
        t = rec.new("lorenz_attractor_qgmres.main", "application", {"num_points": N})
        rec.eqint(t, "M:OneSolvePerRun", [len(cap)], [1])
        for obj, Aq, bq, out in cap:
            ncalls += 1
            A, b = q_to_float(np.asarray(Aq)), q_to_float(np.asarray(bq))
            n = A.shape[0]
            rec.eqint(t, "M:SystemShape", [list(A.shape[:2]), list(b.shape[:2])], [[N, N], [N, 1]])
            # the law TLC checked on Lorenz.tla: A[i][j] = s[(i - j) mod N] with s the first column
            # (the observed signal is the clean one - the right-hand side - plus the script's noise: delta = 1, seed 0)
            s = b[:, 0, :] + 1.0 * np.random.RandomState(0).randn(n, 4)
            s[:, 0] = 0
            circ = A.shape[:2] == (n, n) and all(np.array_equal(A[i, j], s[(i - j) % n]) for i in range(n) for j in range(n))
            rec.flag(t, "M:AssembledMatrixIsCirculantOfSignal", circ)
            rec.flag(t, "M:SignalIsPureQuaternion", bool(np.all(A[..., 0] == 0) and np.all(b[..., 0] == 0)))
            rec.flag(t, "M:UnpreconditionedBelow200", (getattr(obj, "preconditioner", "?") in (None, "none")) == (N < 200))
            for o in J.j_gmres("QGMRESSolver.solve", None, (obj, Aq, bq), {}, out):
                if o.prop == "C04":
                    t2 = rec.new("QGMRESSolver.solve", "application-input", {"application": "lorenz_attractor_qgmres", "num_points": N})
                    for e in o.events:
                        rec.events.append(dict(e, tid=t2))
    ctx.notes["lorenz_application"] = {"num_points": list(sizes), "solver_calls_judged": ncalls}
    if rec.events:
        S.judge(ctx, rec.events, rec.info)
