"""Shared pieces of the spectral checks (C05 C06 C08 C09 C11): the class space
comes from Spectral.tla (TLC dump), is concretised with the exact family, and
measurements are logged for MeasureTrace.tla."""
import math

import numpy as np

from . import exactfam as E
from .qlib import omul, oherm, oeye, ofro, units, lg, EPS

MCFG = """CONSTANTS MaxDim = %d
 Vals = {%s}
 Lams <- %s
 NU = %d
SPECIFICATION Spec
INVARIANTS RankNullity DetZeroIffSing EckartYoung SvalsSorted MooreAbs
CHECK_DEADLOCK FALSE
"""
TCFG = """CONSTANTS UnitsBound = 1024
 UnitsBoundLoose = 16384
INIT TInit
NEXT TNext
INVARIANT Report
CHECK_DEADLOCK FALSE
"""


def classes(ctx, thorough, maxdim=None):
    md = maxdim or (5 if thorough else 4)
    ctx.notes["reflectors_certified_by_TLC"] = E.check_against_tlc(ctx)
    vals = "0, 2, 3, 5"
    res = ctx.model("Spectral", MCFG % (md, vals, "LamsT" if thorough else "LamsQ", 3 if thorough and md <= 4 else 2),
                    dump=True, timeout=1800)
    return [s for s in res["states"] if s["pc"] == "done"]


def pick(lib_list, idx, salt):
    """library member for TLC's abstract index (deterministic, prefers dense members)."""
    dense = [x for x in lib_list if x[0].startswith("refl")] or lib_list
    order = dense + [x for x in lib_list if x not in dense]
    return order[(idx - 1 + salt) % len(order)]


def build(st, salt=0):
    """concrete exact matrix of a class -> (A, U, V, names)"""
    m, n = st["m"], st["n"]
    s = st["s"]
    un, U = pick(E.ulib(m), st["ui"], salt)
    if st["kind"] == "herm":
        A = E.herm_from_spectrum(U, s)
        return A, U, U, (un, un)
    vn, V = pick(E.ulib(n), st["vi"], salt + 1)
    return E.usv(U, s, V), U, V, (un, vn)


def ortho_units(Qf):
    """departure of the columns of float array (m,k,4) from orthonormality, in units."""
    k = Qf.shape[1]
    if k == 0:
        return 0
    G = omul(oherm(Qf), Qf) - oeye(k)
    return units(float(np.max(np.abs(G))), 1.0, Qf.shape[0] * 4)


def unitary_units(Qf):
    a = ortho_units(Qf)
    b = ortho_units(oherm(Qf))
    return max(a, b)


def diag_q(s, m, n):
    D = np.zeros((m, n, 4))
    for i, v in enumerate(s):
        if i < m and i < n:
            D[i, i, 0] = float(v)
    return D


def degenerate_full(st):
    """class label for the Q-SVD known finding: repeated non-zero singular value, or a
    null space (left or right) of dimension >= 2 (= repeated zero in the real embedding)."""
    sv = st["out"]["svals"]
    nz = [v for v in sv if v != 0]
    rep = len(set(nz)) < len(nz)
    if rep:
        return "degenerate-spectrum"
    if st["out"]["nullL"] >= 2 or st["out"]["nullR"] >= 2:
        # only the null spaces are degenerate: the recorded finding there is about orthonormality of the null vectors; the
        # reconstruction and the Eckart-Young clauses hold on the unchanged tree and are judged strictly
        return "degenerate-null-space"
    return "simple-spectrum"


class Rec:
    """collects events and remembers their context for reporting"""

    def __init__(self):
        self.events = []
        self.info = {}
        self.tid = 0

    def new(self, fn, cls, detail):
        self.tid += 1
        self.info[self.tid] = (fn, cls, detail)
        return self.tid

    def units(self, tid, clause, u, loose=False):
        self.events.append({"tid": tid, "op": "units", "clause": clause, "units": int(u), "loose": bool(loose)})

    def eqint(self, tid, clause, got, want):
        self.events.append({"tid": tid, "op": "eqint", "clause": clause, "got": got, "want": want})

    def flag(self, tid, clause, ok):
        self.events.append({"tid": tid, "op": "flag", "clause": clause, "ok": bool(ok)})

    def lgle(self, tid, clause, lhs, rhs, slack):
        self.events.append({"tid": tid, "op": "lgle", "clause": clause, "lhs_lg": lg(lhs), "rhs_lg": lg(rhs), "slack": int(slack)})

    def lgge(self, tid, clause, lhs, rhs, slack):
        self.events.append({"tid": tid, "op": "lgge", "clause": clause, "lhs_lg": lg(lhs), "rhs_lg": lg(rhs), "slack": int(slack)})


def merge(recs, base=0):
    """merge Rec-like (events, info) pairs from workers, renumbering tids"""
    events, info = [], {}
    off = base
    for ev, inf in recs:
        mx = 0
        for e in ev:
            e = dict(e)
            mx = max(mx, e["tid"])
            e["tid"] += off
            events.append(e)
        for t, v in inf.items():
            info[t + off] = v
            mx = max(mx, t)
        off += mx
    return events, info


def judge(ctx, events, info, spec="MeasureTrace", tcfg=TCFG, timeout=1800):
    bad = ctx.trace(spec, events, tcfg, timeout=timeout)
    seen = set()
    for tid, clause in bad:
        fn, cls, detail = info[tid]
        if clause.startswith("M:"):
            ctx.drift.append("%s %s %s" % (clause, fn, cls))
            continue
        evs = [e for e in events if e["tid"] == tid and e["clause"] == clause]
        ctx.fail(fn, clause, cls, dict(detail, measured=evs[:2]))
    for e in events:
        ctx.count(e["clause"])
        if e["tid"] not in seen:
            seen.add(e["tid"])
            ctx.case((e["tid"],))
    ctx.replays += len(seen)
    return bad
