"""System-level conformance: programs (operation sequences) explored by TLC on
Library.tla are executed on concrete matrices; every result's MEASURED
descriptor is recorded and LibraryTrace.tla checks it against the composed
contracts (LibraryDefs.tla)."""
import contextlib
import io

import numpy as np

from . import par
from . import spectral as S
from .qlib import lib, q_from_float, q_to_float, omul, oherm, ofro, osvals, sha

MCFG = """CONSTANTS MaxDim = %d
 MaxOps = %d
 MaxHeap = 5
SPECIFICATION Spec
INVARIANTS HeapWellFormed OrthImpliesFullColumnRank
CHECK_DEADLOCK FALSE
"""
TCFG = """INIT TInit
NEXT TNext
INVARIANT Report
CHECK_DEADLOCK FALSE
"""


def desc(M, floor=0.0):
    """measured descriptor; singular values <= floor (absolute) are rounding noise of the producing operation"""
    m, n = M.shape[:2]
    nz = ofro(M)
    if nz <= floor:
        return {"m": int(m), "n": int(n), "r": 0, "orth": False, "herm": bool(m == n), "tri": True, "_amb": False}
    if m == 0 or n == 0:
        return {"m": int(m), "n": int(n), "r": 0, "orth": False, "herm": False, "tri": False, "_amb": False}
    s = osvals(M)
    top = max(s[0], 1e-300)
    r = int(np.sum(s > max(1e-8 * top, floor))) if nz > 0 else 0
    # numerical rank is only meaningful across a clear gap: intermediate results (Gram matrices,
    # pseudoinverses) can be ill conditioned, and then no threshold is "the" rank
    amb = bool(nz > 0 and np.any((s > max(1e-13 * top, floor)) & (s < 1e-4 * top)))
    ou = S.ortho_units(M) if n <= m else 2 ** 30
    orth = bool(ou <= 65536)
    # "orthonormal to working accuracy" needs a clear gap as well: a factor that is orthonormal only to 1e-11
    # (a converged Schur factor of a unitary matrix, say) is neither, and what is derived from it inherits the doubt
    amb = amb or bool(4096 < ou < 2 ** 26)
    herm = bool(m == n and ofro(M - oherm(M)) <= 1e-9 * max(nz, 1e-300))
    tri = bool(all(not np.any(np.abs(M[i, j]) > 1e-11 * max(nz, 1e-300)) for i in range(m) for j in range(min(i, n))))
    return {"m": int(m), "n": int(n), "r": r, "orth": orth, "herm": herm, "tri": tri, "_amb": amb}


def degenerate(M):
    """operand on which the recorded Q-SVD / null-space findings apply"""
    m, n = M.shape[:2]
    s = osvals(M)
    top = max(s[0], 1e-300) if len(s) else 1.0
    nzv = [v for v in s if v > 1e-8 * top]
    r = len(nzv)
    rep = any(abs(nzv[i] - nzv[i + 1]) <= 1e-6 * top for i in range(len(nzv) - 1))
    return rep or (m - r) >= 2 or (n - r) >= 2


def leading_deficient(M):
    m, n = M.shape[:2]
    top = max(ofro(M), 1e-300)
    for j in range(1, min(m, n) + 1):
        s = osvals(M[:, :j])
        if s[-1] <= 1e-9 * top:
            return True
    return False


def initial(d, rng):
    m, n, r = d["m"], d["n"], d["r"]
    if r == 0:
        return np.zeros((m, n, 4))
    if d["herm"]:
        B = rng.standard_normal((n, r, 4))
        sg = np.zeros((r, r, 4))
        for i in range(r):
            sg[i, i, 0] = (i + 1.0) * (-1) ** i
        return omul(omul(B, sg), oherm(B))
    return omul(rng.standard_normal((m, r, 4)), rng.standard_normal((r, n, 4)))


def _run_program(args):
    tid0, d0, prog, seed = args
    L = lib()
    rng = np.random.default_rng(seed)
    origin = prog[0][0]
    ev = []
    skipped = 0
    if origin == "input":
        heap = [initial(d0, rng)]
    else:
        np.random.seed(seed % (2 ** 31))
        if origin == "create_test_matrix":
            M = q_to_float(np.asarray(L.data_gen.create_test_matrix(d0["m"], d0["n"], rank=d0["r"])))
        elif origin == "create_test_matrix_cond":
            M = q_to_float(np.asarray(L.data_gen.create_test_matrix(d0["m"], d0["n"], rank=d0["r"], cond_number=8.0)))
        else:
            M = q_to_float(np.asarray(L.data_gen.generate_random_unitary_matrix(d0["n"])))
        heap = [M]
        claimed = {k2: d0[k2] for k2 in ("m", "n", "r", "orth", "herm", "tri")}
        got = desc(M)
        if got.pop("_amb", False):
            return ev, 1
        if origin.startswith("create_test_matrix"):
            got["orth"], got["herm"], got["tri"] = claimed["orth"], claimed["herm"], claimed["tri"]     # only shape and rank are promised
        else:
            got["herm"], got["tri"] = claimed["herm"], claimed["tri"]
        ev.append({"tid": tid0 + 9, "op": "gen", "origin": origin, "a": claimed, "b": claimed, "out": [got],
                   "value": {"nonzero": 0, "count": 0}, "unchanged": True})
    for k, (op, i, j) in enumerate(prog[1:]):
        if i > len(heap):
            break
        A = heap[i - 1]
        if op in ("eig", "tridiag") and A.shape[0] == A.shape[1] and k > 0:
            # a DERIVED operand is Hermitian only to the accuracy of the routine that produced it; the Hermitian-only
            # routines document an accurate test, so the caller symmetrises (exact: (A + A^H)/2 is bitwise Hermitian)
            A = (A + oherm(A)) / 2.0
        a = desc(A)
        Aq = q_from_float(A)
        h0 = sha(A)
        tid = tid0 + k
        e = {"tid": tid, "op": op, "a": a, "b": a, "out": [], "value": {"nonzero": 0, "count": 0}, "unchanged": True}
        res = []
        try:
            with contextlib.redirect_stdout(io.StringIO()):
                if op == "herm":
                    res = [q_to_float(L.utils.quat_hermitian(Aq))]
                elif op == "gram":
                    res = [q_to_float(L.utils.quat_matmat(L.utils.quat_hermitian(Aq), Aq))]
                elif op == "mul":
                    if j > len(heap) or heap[j - 1].shape[0] != A.shape[1]:
                        break
                    Bm = heap[j - 1]
                    e["b"] = desc(Bm)
                    res = [q_to_float(L.utils.quat_matmat(Aq, q_from_float(Bm)))]
                elif op == "qr":
                    if leading_deficient(A):
                        skipped += 1
                        break                      # recorded C06 finding: not judged here
                    Qq, Rq = L.qsvd.qr_qua(Aq)
                    res = [q_to_float(np.asarray(Qq)), q_to_float(np.asarray(Rq))]
                elif op == "svd":
                    Uq, s, Vq = L.qsvd.classical_qsvd_full(Aq)
                    res = [q_to_float(np.asarray(Uq)), q_to_float(np.asarray(Vq))]
                    top = max(float(np.max(s)) if len(s) else 0.0, 1e-300)
                    e["value"] = {"nonzero": int(np.sum(np.asarray(s) > 1e-8 * top)) if np.any(np.asarray(s) > 0) else 0, "count": int(len(s))}
                elif op == "rank":
                    sv = osvals(A)
                    thr = np.finfo(float).eps * max(A.shape[:2]) * (sv[0] if len(sv) else 0.0)
                    if len(sv) and np.any((sv > 1e-3 * thr) & (sv < 1e3 * thr)):
                        skipped += 1          # a singular value sits at the documented threshold: either count is right
                        break
                    e["value"] = {"nonzero": int(L.utils.rank(Aq)), "count": 0}
                elif op == "null":
                    if a["r"] >= a["n"]:
                        break
                    N = q_to_float(np.asarray(L.utils.quat_null_space(Aq, side="right")))
                    res = [N]
                elif op == "pinv":
                    X, _, _ = L.solver.NewtonSchulzPseudoinverse(gamma=1.0, max_iter=80, tol=1e-12).compute(Aq)
                    res = [q_to_float(np.asarray(X))]
                elif op == "hess":
                    if A.shape[0] != A.shape[1]:
                        break
                    Pq, Hq = L.hess.hessenbergize(Aq)
                    res = [q_to_float(np.asarray(Pq)), q_to_float(np.asarray(Hq))]
                elif op == "det":
                    if A.shape[0] != A.shape[1]:
                        break
                    sv = osvals(A)
                    top = max(float(sv[0]) if len(sv) else 0.0, 1e-300)
                    dv = float(np.real(L.utils.det(Aq, "Dieudonne")))
                    # "zero" for a product of n singular values: below n rounding-level factors of the largest one
                    e["value"] = {"nonzero": int(abs(dv) > 1e-9 * top ** A.shape[0]), "count": 0}
                    if a["r"] == a["n"] and float(sv[-1]) < 1e-3 * top:
                        skipped += 1          # ill conditioned: the product is legitimately tiny
                        break
                elif op == "lu":
                    if a["r"] != min(A.shape[:2]) or leading_deficient(A):
                        break
                    Lq, Uq, Pq = L.LU.quaternion_lu(Aq, return_p=True)
                    res = [q_to_float(np.asarray(Lq)), q_to_float(np.asarray(Uq)), q_to_float(np.asarray(Pq))]
                elif op == "tridiag":
                    if not a["herm"] or A.shape[0] < 2:
                        break
                    Pq, Bq = L.tridiag.tridiagonalize(Aq)
                    res = [q_to_float(np.asarray(Pq)), q_to_float(np.asarray(Bq))]
                elif op == "nullL":
                    if a["r"] >= a["m"]:
                        break
                    res = [q_to_float(np.asarray(L.utils.quat_null_space(Aq, side="left")))]
                elif op == "trunc1":
                    if a["r"] < 1:
                        break
                    Uq, s1, Vq = L.qsvd.classical_qsvd(Aq, 1)
                    res = [q_to_float(np.asarray(Uq)), q_to_float(np.asarray(Vq))]
                elif op == "schur":
                    if A.shape[0] != A.shape[1]:
                        break
                    Qq, Tq = L.schur.quaternion_schur_unified(Aq, variant="rayleigh", max_iter=60)
                    res = [q_to_float(np.asarray(Qq)), q_to_float(np.asarray(Tq))]
                elif op == "eig":
                    if not a["herm"]:
                        break
                    w, Vq = L.eigen.quaternion_eigendecomposition(Aq)
                    res = [q_to_float(np.asarray(Vq, dtype=np.quaternion))]
                    top = max(float(np.max(np.abs(w))) if len(w) else 0.0, 1e-300)
                    e["value"] = {"nonzero": int(np.sum(np.abs(w) > 1e-8 * top)) if np.any(np.abs(w) > 0) else 0, "count": int(len(w))}
        except Exception:
            raise
        e["unchanged"] = bool(sha(q_to_float(Aq)) == h0)
        fl = 1e-12 * ofro(A) * ofro(heap[j - 1]) if op == "mul" else (1e-12 * ofro(A) ** 2 if op == "gram" else 0.0)
        outs = [desc(r, fl) for r in res]
        # recorded findings (C05 / C11): contraction on degenerate operands - flags of those results are not judged here
        if op == "svd" and degenerate(A):
            skipped += 1
            for o, full in zip(outs, (a["m"], a["n"])):
                o["orth"], o["r"] = True, full
        if op == "null" and (a["n"] - a["r"]) >= 2:
            skipped += 1
            outs[0]["r"] = outs[0]["n"]
        if op == "nullL" and (a["m"] - a["r"]) >= 2:
            skipped += 1
            outs[0]["r"] = outs[0]["n"]
        if op == "trunc1" and degenerate(A):
            skipped += 1
            for o in outs:
                o["orth"], o["r"] = True, 1
        e["out"] = outs
        amb = a.pop("_amb", False) | any(o.pop("_amb", False) for o in outs) | (e["b"].pop("_amb", False) if e["b"] is not a else False)
        if amb:
            skipped += 1           # ill-conditioned operand or result: rank-type clauses are not meaningful, stop this program
            break
        ev.append(e)
        heap += res
    return ev, skipped


def stage(ctx, thorough, seed):
    """explore Library.tla, replay the distinct programs, validate with LibraryTrace.tla; returns stats"""
    res = ctx.model("Library", MCFG % ((3, 2) if not thorough else (3, 2)), dump=True, timeout=1500)
    if thorough:
        ctx.model("Library", MCFG % (3, 3), timeout=1500)          # deeper exploration of the composed contracts (no replay)
    progs = {}
    for s in res["states"]:
        if len(s["prog"]) < 1:
            continue
        d0 = s["heap"][0]
        key = (d0["m"], d0["n"], d0["r"], d0["herm"], str(s["prog"]))
        progs.setdefault(key, (d0, [tuple(p) for p in s["prog"]]))
    jobs = []
    tid = 0
    reps = 3 if thorough else 1
    keys = sorted(progs)
    if not thorough:
        # quick tier: every one-operation program, and a seed-dependent third of the two-operation programs
        keys = [k_ for i_, k_ in enumerate(keys) if len(progs[k_][1]) <= 2 or (i_ + seed) % 3 == 0]
    ctx.notes["library_programs_explored_by_TLC"] = len(progs)
    for key in keys:
        d0, prog = progs[key]
        for rep in range(reps):
            jobs.append((tid, d0, prog, seed * 7919 + tid))
            tid += 10
    # random walks: longer programs (4-6 operations) than TLC enumerates for replay; every step is still validated by
    # LibraryTrace.tla against the composed contracts (membership in Out1W / OutMulW / ValueOK)
    rngw = np.random.default_rng(seed * 104729 + 7)
    nwalk = 1500 if thorough else 150

    def outs_of(op, a):
        """abstract results (m, n, r, herm) of an operation, mirroring LibraryDefs.Out1 (r None = not determined)"""
        m_, n_, r_, h_ = a
        k_ = min(m_, n_)
        return {"herm": [(n_, m_, r_, h_)], "gram": [(n_, n_, r_, True)], "qr": [(m_, k_, k_, False), (k_, n_, r_, False)],
                "svd": [(m_, m_, m_, False), (n_, n_, n_, False)], "null": [(n_, n_ - (r_ or 0), n_ - (r_ or 0), False)],
                "pinv": [(n_, m_, r_, h_)], "hess": [(n_, n_, n_, False), (n_, n_, r_, h_)], "eig": [(n_, n_, n_, False)],
                "lu": [(m_, k_, k_, False), (k_, n_, r_, False), (m_, m_, m_, False)], "tridiag": [(n_, n_, n_, False), (n_, n_, r_, True)],
                "nullL": [(m_, m_ - (r_ or 0), m_ - (r_ or 0), False)], "trunc1": [(m_, 1, 1, False), (n_, 1, 1, False)],
                "schur": [(n_, n_, n_, False), (n_, n_, r_, False)], "rank": [], "det": []}[op]

    def enabled(op, a):
        m_, n_, r_, h_ = a
        if op in ("null", "nullL", "lu", "trunc1") and r_ is None:
            return False
        return {"null": r_ is not None and r_ < n_, "nullL": r_ is not None and r_ < m_, "hess": m_ == n_, "schur": m_ == n_, "det": m_ == n_,
                "eig": h_, "tridiag": h_ and n_ >= 2, "lu": r_ == min(m_, n_), "trunc1": (r_ or 0) >= 1}.get(op, True)

    ops1 = ["herm", "gram", "qr", "svd", "null", "pinv", "hess", "eig", "lu", "tridiag", "nullL", "trunc1", "schur", "rank", "det"]
    for w in range(nwalk):
        m0, n0 = int(rngw.integers(1, 5)), int(rngw.integers(1, 5))
        h0 = bool(rngw.random() < 0.3)
        if h0:
            n0 = m0
        r0 = int(rngw.integers(0, min(m0, n0) + 1))
        d0 = {"m": m0, "n": n0, "r": r0, "orth": False, "herm": h0, "tri": False}
        prog = [("input", 0, 0)]
        ah = [(m0, n0, r0, h0)]
        for _ in range(int(rngw.integers(4, 7))):
            i = int(rngw.integers(max(1, len(ah) - 3), len(ah) + 1))      # prefer recent results: compositions
            a = ah[i - 1]
            if a[0] < 1 or a[1] < 1:
                continue
            cand = [o for o in ops1 if enabled(o, a)]
            js = [j for j in range(1, len(ah) + 1) if ah[j - 1][0] == a[1] and ah[j - 1][1] >= 1]
            if js:
                cand.append("mul")
            op = cand[int(rngw.integers(0, len(cand)))]
            if op == "mul":
                j = js[int(rngw.integers(0, len(js)))]
                prog.append((op, i, j))
                ah.append((a[0], ah[j - 1][1], None, False))
            else:
                prog.append((op, i, 0))
                ah += outs_of(op, a)
            if len(ah) > 9:
                break
        jobs.append((tid, d0, prog, seed * 7919 + tid))
        tid += 10
    ctx.notes["library_random_walk_programs"] = nwalk
    outs = par.pmap(_run_program, jobs)
    events = []
    skipped = 0
    for ev, sk in outs:
        events += ev
        skipped += sk
    bad = ctx.trace("LibraryTrace", events, TCFG, timeout=1800)
    byid = {e["tid"]: e for e in events}
    for tid_, clause in bad:
        e = byid[tid_]
        ctx.fail("program:" + e["op"], clause, "operation-sequence", {"event": e})
    ctx.notes["library_programs"] = len(keys)
    ctx.notes["library_program_events"] = len(events)
    ctx.notes["library_events_on_recorded_finding_classes_not_judged"] = skipped
    for e in events:
        ctx.case(("prog", e["tid"]))
    ctx.replays += len(events)
    if events:
        ctx.sample({"direction": "F/B", "system_level_event": events[len(events) // 3]})
