"""Second interpreter: the property's whole check once more in a child started the way production code often runs -

    python -O            (__debug__ False: assert statements and `if __debug__:` blocks are not compiled)
    package imports      (`from quatica.solver import ...`, the documented way for installed users; the repository's
                          tests, and therefore the first interpreter, use the flat module style)

- with the same seed, quick tier, no repository-test traces (those tests choose their own import style).  The child does
everything the parent does (TLC models, cells, traces, size sweep) and hands its verdicts back instead of printing
them; the parent records them under the same (function, clause, class) signatures, so known findings stay known and a
violation that appears ONLY under the second interpreter is reported like any other, marked in its replay file.

VERIF_NO_ALT=1 switches the stage off.  Inside the child VERIF_ALT holds the path of the hand-over file."""
import json
import os
import subprocess
import sys
import tempfile

HOW = "python -O, library imported as a package (from quatica.solver import ...)"


def stage(ctx):
    from .core import Machinery
    fd, out = tempfile.mkstemp(prefix="verif-alt-", suffix=".json")
    os.close(fd)
    root = os.path.dirname(os.path.dirname(os.path.abspath(__file__)))
    env = dict(os.environ, VERIF_ALT=out, VERIF_IMPORT_STYLE="package", VERIF_NO_SUITE_TRACES="1", VERIF_SEED=str(ctx.seed),
               PYTHONDONTWRITEBYTECODE="1", MPLBACKEND="Agg")
    env.pop("PYTHONOPTIMIZE", None)
    try:
        pr = subprocess.run([sys.executable, "-O", "-m", "harness.run", ctx.pid, "--tier", "quick"], cwd=root, env=env,
                            stdout=subprocess.PIPE, stderr=subprocess.PIPE, text=True, timeout=7200)
        if pr.returncode != 0 or not os.path.getsize(out):
            raise Machinery("second interpreter (python -O, package imports) failed with exit %s:\n%s" % (pr.returncode, (pr.stderr or pr.stdout)[-3000:]))
        with open(out) as fh:
            res = json.load(fh)
    finally:
        try:
            os.unlink(out)
        except OSError:
            pass
    if not res.get("optimized") or res.get("import_style") != "package":
        raise Machinery("second interpreter did not run optimized / package style: %r" % {k: res.get(k) for k in ("optimized", "import_style")})
    nviol = 0
    for v in res["violations"]:
        sig = v["signature"]
        d = v["detail"] if isinstance(v["detail"], dict) else {"detail": v["detail"]}
        if ctx.fail(sig["function"], sig["clause"], sig["class"], dict(d, second_interpreter=HOW)) == "violation":
            nviol += 1
    for d in res.get("drift", []):
        if d not in ctx.drift:
            ctx.drift.append(d)
    ctx.notes["second_interpreter"] = {"how": HOW, "tier": "quick", "trace_lines": res["traces"], "replays": res["replays"], "cases": res["cases"],
                                       "violations_handed_back": len(res["violations"]), "known_findings_seen": res["known_seen"], "wall_s": res["wall_s"]}
    ctx.assumptions.append("second interpreter: the whole check is repeated under python -O with package-style imports (quick tier, same seed); its evaluations are listed in coverage.notes.second_interpreter and are not added to the coverage totals")
