"""Size sweep: every public routine with a contract judge (suitejudge) is also run on random inputs well beyond the
sizes of the exact families (n = 8..34, tall / wide / square), so that a code path selected by SIZE (a blocked
variant, a threshold on n, a buffer bound) is exercised.  The outputs are judged by the same oracle judges as the
repository-test traces and validated by TLC against MeasureTrace.tla."""
import contextlib
import inspect
import io
import warnings

import numpy as np
import quaternion
from scipy import sparse

from . import par
from . import spectral as S
from . import suitejudge as J
from .qlib import lib, q_from_float, oherm, omul

PROP_ROUTINES = {
    "C01": ["quat_matmat", "quat_hermitian", "quat_matmat.sparse"],
    "C02": ["embedding_laws.real_expand", "embedding_laws.Realp", "embedding_laws.complex_adjoint"],
    "C03": ["NewtonSchulzPseudoinverse.compute", "HigherOrderNewtonSchulzPseudoinverse.compute"],
    "C04": ["QGMRESSolver.solve", "QGMRESSolver.solve.left_lu"],
    "C05": ["classical_qsvd_full", "classical_qsvd"],
    "C06": ["qr_qua", "qr_qua.wide"],
    "C07": ["quaternion_lu", "quaternion_lu.mode2", "quaternion_lu.wide", "quaternion_lu.tall"],
    "C08": ["tridiagonalize", "quaternion_eigendecomposition", "tridiagonalize.lowrank", "quaternion_eigendecomposition.lowrank",
            "quaternion_eigendecomposition.projector"],
    "C09": ["hessenbergize", "hessenbergize.lowrank"],
    "C10": ["quaternion_schur", "quaternion_schur_unified", "quaternion_schur_unified.rayleigh", "quaternion_schur_unified.implicit"],
    "C11": ["rank", "det", "quat_null_space", "quat_null_space.left"],
    "C12": ["rand_qsvd", "pass_eff_qsvd"],
    "C13": ["RandomizedSketchProjectPseudoinverse.compute", "CGNEQSolver.compute", "HybridRSPNewtonSchulz.compute"],
    "C15": ["quat_frobenius_norm", "matrix_norm.1", "matrix_norm.inf", "matrix_norm.2", "induced_matrix_norm_1", "induced_matrix_norm_inf", "spectral_norm_2", "normQ"],
    "C16": ["Hess_QR_ggivens", "UtriangleQsparse"],
    "C18": ["tensor_unfold", "tensor_fold"],
    "C19": ["power_iteration", "power_iteration_nonhermitian"],
}
# largest n per routine (pure-Python loops in the library)
CAP = {"quaternion_schur": 8, "quaternion_schur_unified": 8, "quaternion_schur_unified.rayleigh": 8, "quaternion_schur_unified.implicit": 8,
       "RandomizedSketchProjectPseudoinverse.compute": 13, "CGNEQSolver.compute": 13, "HybridRSPNewtonSchulz.compute": 13,
       "QGMRESSolver.solve": 34, "QGMRESSolver.solve.left_lu": 34, "power_iteration_nonhermitian": 13, "power_iteration": 34,
       "NewtonSchulzPseudoinverse.compute": 34, "HigherOrderNewtonSchulzPseudoinverse.compute": 34}


def _q(rng, *shape):
    return q_from_float(rng.standard_normal(shape + (4,)))


def _herm(rng, n, psd=False):
    G = rng.standard_normal((n, n, 4))
    return q_from_float(omul(G, oherm(G)) if psd else G + oherm(G))


def build(name, n, rng):
    """-> (judge name, callable or (owner, attr), args, kwargs)"""
    L = lib()
    u, sv, t = L.utils, L.solver, L.tensor
    if name == "quat_matmat":
        return "quat_matmat", u.quat_matmat, (_q(rng, n, n + 1), _q(rng, n + 1, n - 1)), {}
    if name == "quat_matmat.sparse":
        F = rng.standard_normal((n, n, 4)) * (rng.random((n, n, 1)) < 0.3)
        from .qlib import sp_quat
        sp = sp_quat(F)
        return "quat_matmat", u.quat_matmat, (sp, _q(rng, n, 3)), {}
    if name == "quat_hermitian":
        return "quat_hermitian", u.quat_hermitian, (_q(rng, n, n + 2),), {}
    if name in ("quat_frobenius_norm", "induced_matrix_norm_1", "induced_matrix_norm_inf", "spectral_norm_2", "normQ"):
        return name, getattr(u, name), (_q(rng, n, n + 2),), {}
    if name.startswith("matrix_norm."):
        o = {"1": 1, "inf": np.inf, "2": 2}[name.split(".")[1]]
        return "matrix_norm", u.matrix_norm, (_q(rng, n + 1, n), o), {}
    if name == "rank":
        return "rank", u.rank, (q_from_float(omul(rng.standard_normal((n, 3, 4)), rng.standard_normal((3, n + 1, 4)))),), {}
    if name == "det":
        return "det", u.det, (_q(rng, n, n), "Dieudonne"), {}
    if name.startswith("quat_null_space"):
        A = q_from_float(omul(rng.standard_normal((n, n - 2, 4)), rng.standard_normal((n - 2, n + 1, 4))))
        return "quat_null_space", u.quat_null_space, (A,), {"side": "left" if name.endswith("left") else "right"}
    if name == "power_iteration":
        return "power_iteration", u.power_iteration, (_herm(rng, n, psd=True),), {"max_iterations": 200, "return_eigenvalue": True}
    if name == "power_iteration_nonhermitian":
        return "power_iteration_nonhermitian", u.power_iteration_nonhermitian, (_q(rng, n, n),), {"max_iterations": 200}
    if name == "qr_qua":
        return "qr_qua", L.qsvd.qr_qua, (_q(rng, n + 3, n),), {}
    if name == "qr_qua.wide":
        return "qr_qua", L.qsvd.qr_qua, (_q(rng, n, n + 3),), {}
    if name == "classical_qsvd_full":
        return name, L.qsvd.classical_qsvd_full, (_q(rng, n, n + 2),), {}
    if name == "classical_qsvd":
        return name, L.qsvd.classical_qsvd, (_q(rng, n + 2, n), 3), {}
    if name == "rand_qsvd":
        return name, L.qsvd.rand_qsvd, (_q(rng, n + 2, n), 3), {"oversample": 3, "n_iter": 2}
    if name == "pass_eff_qsvd":
        return name, L.qsvd.pass_eff_qsvd, (_q(rng, n, n + 2), 3), {"oversample": 3, "n_passes": 3}
    if name.startswith("quaternion_lu"):
        shp = {"quaternion_lu": (n, n), "quaternion_lu.mode2": (n, n), "quaternion_lu.wide": (n, n + 3), "quaternion_lu.tall": (n + 3, n)}[name]
        return "quaternion_lu", L.LU.quaternion_lu, (_q(rng, *shp),), ({} if name.endswith("mode2") else {"return_p": True})
    if name.endswith(".lowrank") or name.endswith(".projector"):
        # repeated eigenvalues at size: Hermitian of rank 3 (eigenvalue 0 with multiplicity n - 3), orthogonal projector
        G = rng.standard_normal((n, 3, 4))
        if name.endswith(".projector"):
            Qm, _ = np.linalg.qr(rng.standard_normal((n, 3)))
            G = np.zeros((n, 3, 4))
            G[..., 0] = Qm
        H = omul(G, oherm(G))
        H = (H + oherm(H)) / 2.0
        base = name.split(".")[0]
        f = {"tridiagonalize": L.tridiag.tridiagonalize, "quaternion_eigendecomposition": L.eigen.quaternion_eigendecomposition, "hessenbergize": L.hess.hessenbergize}[base]
        return base, f, (q_from_float(H),), {}
    if name == "tridiagonalize":
        return name, L.tridiag.tridiagonalize, (_herm(rng, n),), {}
    if name == "quaternion_eigendecomposition":
        return name, L.eigen.quaternion_eigendecomposition, (_herm(rng, n),), {}
    if name == "hessenbergize":
        return name, L.hess.hessenbergize, (_q(rng, n, n),), {}
    if name == "quaternion_schur":
        return name, L.schur.quaternion_schur, (_q(rng, n, n),), {"max_iter": 40, "tol": 1e-10, "return_diagnostics": True}
    if name == "quaternion_schur_unified":
        return name, L.schur.quaternion_schur_unified, (_q(rng, n, n),), {"variant": "aed", "max_iter": 25, "tol": 1e-10, "return_diagnostics": True}
    if name in ("quaternion_schur_unified.rayleigh", "quaternion_schur_unified.implicit"):
        return "quaternion_schur_unified", L.schur.quaternion_schur_unified, (_q(rng, n, n),), {"variant": name.split(".")[1], "max_iter": 25, "tol": 1e-10, "return_diagnostics": True}
    if name.endswith("NewtonSchulzPseudoinverse.compute"):
        cls = getattr(sv, name.split(".")[0])
        obj = cls(max_iter=25) if "Higher" in name else cls(gamma=1.0, max_iter=40, tol=1e-10)
        return name, cls.compute, (obj, _q(rng, n + 2, n)), {}
    if name.startswith("QGMRESSolver.solve"):
        F = rng.standard_normal((n, n, 4))
        for i in range(n):
            F[i, i, 0] += 2.0 * np.sqrt(n)
        obj = sv.QGMRESSolver(tol=1e-8, preconditioner="left_lu" if name.endswith("left_lu") else None)
        return "QGMRESSolver.solve", sv.QGMRESSolver.solve, (obj, q_from_float(F), _q(rng, n, 1)), {}
    if name in ("RandomizedSketchProjectPseudoinverse.compute", "CGNEQSolver.compute", "HybridRSPNewtonSchulz.compute"):
        Qf, _ = np.linalg.qr(rng.standard_normal((n + 3, n)))
        F = np.zeros((n + 3, n, 4))
        F[..., 0] = Qf * np.linspace(1.0, 2.0, n)           # well conditioned (cond 2), real embedded plus a quaternion part
        F[..., 2] = 0.1 * rng.standard_normal((n + 3, n))
        if name.startswith("Randomized"):
            obj = sv.RandomizedSketchProjectPseudoinverse(block_size=4, max_iter=400, tol=1e-6, test_sketch_size=4)
        elif name.startswith("CGNE"):
            obj = sv.CGNEQSolver(tol=1e-8, max_iter=200)
        else:
            obj = sv.HybridRSPNewtonSchulz(r=4, p=4, T=3, tol=1e-6, max_iter=100)
        return name, type(obj).compute, (obj, q_from_float(F)), {}
    if name == "Hess_QR_ggivens":
        k = n
        H = np.triu(rng.standard_normal((k + 1, k)), -1)
        Hq = np.zeros((k + 1, k, 4))
        for c in range(4):
            Hq[..., c] = np.triu(rng.standard_normal((k + 1, k)), -1)
        return name, u.Hess_QR_ggivens, (np.vstack([Hq[..., c] for c in range(4)]),), {}
    if name == "UtriangleQsparse":
        T = np.zeros((n, n, 4))
        for c in range(4):
            T[..., c] = np.triu(rng.standard_normal((n, n)))
        for i in range(n):
            T[i, i, 0] += 3.0
        b = rng.standard_normal((n, 3, 4))
        return name, u.UtriangleQsparse, tuple(np.ascontiguousarray(T[..., c]) for c in range(4)) + tuple(np.ascontiguousarray(b[..., c]) for c in range(4)), {}
    if name == "tensor_unfold":
        return name, t.tensor_unfold, (quaternion.as_quat_array(rng.standard_normal((n, 3, 5, 4))), int(rng.integers(0, 3))), {}
    if name == "tensor_fold":
        T3 = quaternion.as_quat_array(rng.standard_normal((3, n, 2, 4)))
        mode = int(rng.integers(0, 3))
        return name, t.tensor_fold, (t.tensor_unfold(T3, mode), mode, T3.shape), {}
    raise KeyError(name)


def _embedding_laws(name, n, rng):
    """the structure-preserving embeddings at size: multiplicativity, *-preservation, additivity, norm scaling and (real
    expansion) the exact round trip, on integer matrices so that every law is exact"""
    u = lib().utils
    which = name.split(".")[1]
    A = rng.integers(-3, 4, (n, n + 1, 4)).astype(float)
    B = rng.integers(-3, 4, (n + 1, n - 1, 4)).astype(float)
    A2 = rng.integers(-3, 4, (n, n + 1, 4)).astype(float)

    def emb(F_):
        if which == "real_expand":
            return np.asarray(u.real_expand(q_from_float(F_)))
        if which == "Realp":
            return np.asarray(u.Realp(*[np.ascontiguousarray(F_[..., c]) for c in range(4)]))
        return np.asarray(u.quaternion_to_complex_adjoint(q_from_float(F_)))
    o = J.Out("C02", which, "size-sweep", {"shape": [n, n + 1], "size_sweep": True})
    if which == "complex_adjoint":
        A, B, A2 = A[:, :n], rng.integers(-3, 4, (n, n, 4)).astype(float), A2[:, :n]      # the adjoint is documented for square input
    EA, EB, EA2 = emb(A), emb(B), emb(A2)
    o.flag("Multiplicative", bool(np.array_equal(EA @ EB, emb(omul(A, B)))))
    o.flag("Additive", bool(np.array_equal(EA + EA2, emb(A + A2))))
    o.flag("StarPreserving", bool(np.array_equal(emb(oherm(A)), np.conj(EA).T)))
    fro2 = float(np.sum(A * A))
    o.flag("NormScaling", bool(abs(float(np.sum(np.abs(EA) ** 2)) - (4.0 if which != "complex_adjoint" else 2.0) * fro2) <= 1e-9 * max(fro2, 1.0)))
    if which == "real_expand":
        back = np.asarray(quaternion.as_float_array(u.real_contract(EA, A.shape[0], A.shape[1])))
        o.flag("RoundTrip", bool(np.array_equal(back, A)))
    return [o]


ASPECT = {"C05": ["classical_qsvd_full", "classical_qsvd"], "C06": ["qr_qua"], "C07": ["quaternion_lu", "quaternion_lu.mode2"],
          "C11": ["rank", "quat_null_space", "quat_null_space.left"], "C12": ["rand_qsvd", "pass_eff_qsvd"],
          "C15": ["quat_frobenius_norm", "matrix_norm.1", "matrix_norm.inf", "matrix_norm.2", "induced_matrix_norm_1", "induced_matrix_norm_inf", "spectral_norm_2", "normQ"],
          "C03": ["NewtonSchulzPseudoinverse.compute", "HigherOrderNewtonSchulzPseudoinverse.compute"], "C01": ["quat_hermitian"]}


NEARLY = {"C05": ["classical_qsvd_full", "classical_qsvd"], "C06": ["qr_qua"], "C07": ["quaternion_lu", "quaternion_lu.mode2"],
          "C09": ["hessenbergize"], "C10": ["quaternion_schur", "quaternion_schur_unified"], "C11": ["rank", "det"],
          "C15": ["matrix_norm.2", "spectral_norm_2", "matrix_norm.1", "induced_matrix_norm_inf"], "C19": ["power_iteration", "power_iteration_nonhermitian"],
          "C01": ["quat_hermitian"], "C12": ["rand_qsvd"], "C03": ["NewtonSchulzPseudoinverse.compute"]}


def build_nearly(name, n, rng):
    """name@nh / @nt / @nu: the first matrix argument replaced by a square matrix that is NEARLY Hermitian / upper triangular /
    unitary (per-entry relative or absolute defect 1e-6 .. 1e-7: inside the tolerance of np.allclose-style structure tests,
    far above rounding).  Such input is a general matrix and must be treated as one."""
    base, how = name.split("@")
    jn, fn, a, kw = build(base, max(n, 3), rng)
    a = list(a)
    k = next(i for i, x in enumerate(a) if isinstance(x, np.ndarray) and x.dtype == np.quaternion and x.ndim == 2)
    G = rng.standard_normal((n, n, 4))
    if how == "nh":
        H = G + oherm(G) + 4.0 * np.eye(n)[:, :, None] * [1.0, 0, 0, 0]
        M = H * (1.0 + 1e-6 * rng.standard_normal((n, n, 4)))
    elif how == "nt":
        M = np.triu(G.transpose(2, 0, 1)).transpose(1, 2, 0) + 3.0 * np.eye(n)[:, :, None] * [1.0, 0, 0, 0]
        M = M + 1e-7 * np.tril(rng.standard_normal((n, n, 4)).transpose(2, 0, 1), -1).transpose(1, 2, 0)
    else:
        Qm, _ = np.linalg.qr(rng.standard_normal((n, n)))
        M = np.zeros((n, n, 4))
        M[..., 0] = Qm
        M = M + 1e-7 * rng.standard_normal((n, n, 4))
    a[k] = q_from_float(M)
    if base in ("classical_qsvd", "rand_qsvd") and len(a) > k + 1:
        a[k + 1] = min(int(a[k + 1]), n)
    return jn, fn, tuple(a), kw


UNDERFLOW = {"C05": ["classical_qsvd_full", "classical_qsvd"], "C06": ["qr_qua"], "C07": ["quaternion_lu", "quaternion_lu.mode2"],
             "C08": ["tridiagonalize", "quaternion_eigendecomposition"], "C09": ["hessenbergize"],
             "C10": ["quaternion_schur", "quaternion_schur_unified"], "C11": ["rank", "det", "quat_null_space"],
             "C15": ["matrix_norm.2", "spectral_norm_2", "matrix_norm.1", "induced_matrix_norm_inf", "quat_frobenius_norm"],
             "C19": ["power_iteration"], "C04": ["QGMRESSolver.solve", "QGMRESSolver.solve.left_lu"],
             "C03": ["NewtonSchulzPseudoinverse.compute"]}
HERMITIAN_INPUT = ("tridiagonalize", "quaternion_eigendecomposition", "power_iteration")


def build_underflow(name, n, rng):
    """name@ue: the first matrix argument replaced by an O(1) matrix in which scattered entries (among them sub-diagonal
    ones, the pivots of the reductions) are scaled by 2^-505 .. 2^-545: numbers whose SQUARES are denormal or underflow.
    To every relative tolerance they are zeros; a routine that forms moduli from squared components must not lose
    unitarity or accuracy on them."""
    base, how = name.split("@")
    jn, fn, a, kw = build(base, max(n, 3), rng)
    a = list(a)
    k = next(i for i, x in enumerate(a) if isinstance(x, np.ndarray) and x.dtype == np.quaternion and x.ndim == 2)
    G = rng.standard_normal((n, n, 4)) + (2.0 * np.sqrt(n) * np.eye(n)[:, :, None] * [1.0, 0, 0, 0] if base.startswith("QGMRES") else 0.0)
    mask = rng.random((n, n)) < 0.2
    for j in range(0, n - 1, 2):
        mask[j + 1, j] = True
    mask[np.arange(n), np.arange(n)] = False
    expo = -rng.integers(505, 546, (n, n)).astype(float)
    G = G * np.where(mask, 2.0 ** expo, 1.0)[:, :, None]
    if base in HERMITIAN_INPUT:
        U = np.triu(G.transpose(2, 0, 1), 1).transpose(1, 2, 0)
        G = U + oherm(U)
        for i in range(n):
            G[i, i] = [float(rng.integers(1, 6)), 0, 0, 0]
    a[k] = q_from_float(G)
    if base in ("classical_qsvd", "rand_qsvd") and len(a) > k + 1:
        a[k + 1] = min(int(a[k + 1]), n)
    return jn, fn, tuple(a), kw


def build_aspect(name, n, rng):
    """the routine's first matrix argument replaced by a STRONGLY rectangular one: name@ts -> (4n+3) x n, name@sf -> n x (4n+3)"""
    base, how = name.split("@")
    jn, fn, a, kw = build(base, max(n, 3), rng)
    shape = (4 * n + 3, n) if how == "ts" else (n, 4 * n + 3)
    a = list(a)
    k = next(i for i, x in enumerate(a) if isinstance(x, np.ndarray) and x.dtype == np.quaternion and x.ndim == 2)
    if base in ("rank", "quat_null_space", "quat_null_space.left"):
        r_ = max(1, n - 1)
        a[k] = q_from_float(omul(rng.standard_normal((shape[0], r_, 4)), rng.standard_normal((r_, shape[1], 4))))
    else:
        a[k] = _q(rng, *shape)
    return jn, fn, tuple(a), kw


def _job(args):
    name, n, seed = args
    styled = None
    rng = np.random.default_rng(seed)
    if name.startswith("embedding_laws."):
        recs = _embedding_laws(name, n, rng)
        return [(o.prop, o.fn, o.cls, dict(o.detail, routine=name, n=n), o.events) for o in recs]
    if name.startswith("c14:"):
        return _c14_job(name[4:], n, seed)
    if name.endswith("@sp"):
        # the first matrix argument handed over in the library's own SPARSE container (storage variants cycle): routines
        # that accept it must answer as for the dense matrix; one that does not accept it on this tree is skipped
        from .qlib import sp_quat, q_to_float
        jn, fn, a, kw = build(name[:-3], n, rng)
        a = list(a)
        ks = [i for i, x in enumerate(a) if isinstance(x, np.ndarray) and x.dtype == np.quaternion and x.ndim == 2]
        if not ks:
            return []
        styled = (tuple(sp_quat(q_to_float(x)) if i == ks[0] else x for i, x in enumerate(a)), kw)
        a = tuple(a)
    elif name.endswith("@iv"):
        # the matrix written INLINE as an unnamed view of data the caller keeps - fn(quaternion.as_quat_array(data), ...),
        # fn(M[:k, :k]), fn(stack[i]) -: no name refers to the argument object, but its memory is the caller's; the call is
        # judged against that memory as it is afterwards
        from .qlib import q_to_float
        jn, fn, a, kw = build(name[:-3], n, rng)
        a = list(a)
        ks = [i for i, x in enumerate(a) if isinstance(x, np.ndarray) and x.dtype == np.quaternion and x.ndim == 2]
        if not ks:
            return []
        inline_k = ks[0]
        inline_data = np.ascontiguousarray(q_to_float(a[inline_k]))
        a[inline_k] = quaternion.as_quat_array(inline_data)          # the caller's window on its own data (for the judge)
        a = tuple(a)
    elif name.endswith(("@we", "@rb", "@rt", "@th")):
        jn, fn, a, kw = build(name[:-3], n, rng)
        if name.endswith("@rt") and not (a and not isinstance(a[0], np.ndarray) and hasattr(a[0], "tol")):
            return []
    elif name.endswith("@vb"):
        # the same call with verbose output switched on (solver attribute or keyword): printing is supposed to be inert
        jn, fn, a, kw = build(name[:-3], n, rng)
        kw = dict(kw)
        if a and hasattr(a[0], "verbose") and not isinstance(a[0], np.ndarray):
            a[0].verbose = True
        else:
            try:
                if "verbose" in inspect.signature(fn).parameters:
                    kw["verbose"] = True
                else:
                    return []
            except (TypeError, ValueError):
                return []
    elif name.endswith(("@pp", "@kw", "@oc", "@o0")):
        # calling styles: everything positional in the pinned parameter order / everything by keyword / numeric options
        # held as numpy scalars and 0-d arrays - the values are the same, so is the contract
        from .qlib import as_pinned_positional, as_all_keyword, numpy_carriers
        jn, fn, a, kw = build(name[:-3], n, rng)
        how_ = name[-2:]
        if how_ in ("oc", "o0"):
            obj0 = a[0] if a and not isinstance(a[0], np.ndarray) and hasattr(a[0], "__dict__") else None
            if obj0 is not None:                         # solver object: its numeric options are attributes
                for k_, v_ in list(vars(obj0).items()):
                    if isinstance(v_, (bool, int, float)) and not k_.startswith("_"):
                        setattr(obj0, k_, numpy_carriers((v_,), {}, zero_d=how_ == "o0")[0][0])
            a2, kw = numpy_carriers(a[1:] if obj0 is not None else a, kw, zero_d=how_ == "o0")
            a = ((obj0,) + a2) if obj0 is not None else a2
        else:
            r_ = (as_pinned_positional if how_ == "pp" else as_all_keyword)(fn, a, kw)
            if r_ is None:
                return []
            styled = r_
    elif name.endswith("@df"):
        # every option left at its DEFAULT: solver objects constructed without arguments, functions called with their
        # required arguments only (defaults are configuration values too; a changed default or None-sentinel shows here)
        jn, fn, a, kw = build(name[:-3], n, rng)
        a = list(a)
        if a and not isinstance(a[0], np.ndarray) and hasattr(a[0], "__dict__") and hasattr(type(a[0]), "compute" if hasattr(a[0], "compute") else "solve"):
            try:
                a[0] = type(a[0])()
            except TypeError:
                return []
        else:
            try:
                req = [p_ for p_ in inspect.signature(fn).parameters.values() if p_.default is inspect.Parameter.empty and p_.kind in (p_.POSITIONAL_ONLY, p_.POSITIONAL_OR_KEYWORD)]
            except (TypeError, ValueError):
                return []
            if len(req) == len(a) and not kw:
                return []                                 # nothing optional was passed: the plain sweep is this call
            a = a[:len(req)]
        a, kw = tuple(a), {}
    elif "@" in name:
        how_ = name.split("@")[1]
        jn, fn, a, kw = (build_nearly if how_ in ("nh", "nt", "nu") else build_underflow if how_ == "ue" else build_aspect)(name, n, rng)
    else:
        jn, fn, a, kw = build(name, n, rng)
    judge = {path.split(".")[-1] if "." not in path else path: j for _, path, j in J.REGISTRY}
    jf = judge.get(jn) or judge.get(jn.split(".")[-1]) or {p.split(".")[-1]: j for _, p, j in J.REGISTRY}[jn.split(".")[-1]]
    pre = tuple(x.copy() if isinstance(x, np.ndarray) else x for x in a)
    # what the caller ASKED for (option values as plain Python numbers, taken before any call can touch a carrier object)
    plain = lambda v: v.item() if isinstance(v, (np.generic, np.ndarray)) and np.ndim(v) == 0 and not isinstance(v, np.quaternion) else v
    kw_asked = {k_: plain(v_) for k_, v_ in kw.items()}
    pre = tuple(plain(x) for x in pre)
    np.random.seed(seed % (2 ** 31))
    a_call, kw_call = styled if styled is not None else (a, kw)          # the judge sees the call as the builder wrote it
    with contextlib.redirect_stdout(io.StringIO()):
        if name.endswith("@rb"):
            # what a call returned belongs to the caller, who works on it IN PLACE (truncates singular values, shifts a
            # diagonal, rescales a factor) and then calls again with an equal matrix: the judged call is the second one
            def _scr(o_):
                if isinstance(o_, np.ndarray) and o_.size and o_.flags.writeable:
                    try:
                        o_[...] = o_ * 0 + (np.quaternion(3.0, 1.0, 0.0, 0.0) if o_.dtype == np.quaternion else 3)
                    except Exception:
                        pass
                elif isinstance(o_, (tuple, list)):
                    for x_ in o_:
                        _scr(x_)
                elif isinstance(o_, dict):
                    for x_ in o_.values():
                        _scr(x_)
            import copy as _copy
            first_args = [x.copy() if isinstance(x, np.ndarray) else (_copy.deepcopy(x) if hasattr(x, "__dict__") and not callable(x) else x) for x in a_call]
            _scr(fn(*first_args, **kw_call))
            # ... and on what the library's small public helpers handed out (identities, reductions of the same matrix)
            L_ = lib()
            for k_ in sorted({1, 2, 3, n, max(n - 1, 1), n + 1, n + 2, n + 3}):
                _scr(L_.utils.quat_eye(k_))
            for x in a_call:
                if isinstance(x, np.ndarray) and x.dtype == np.quaternion and x.ndim == 2 and x.shape[0] == x.shape[1] and x.shape[0] <= 13:
                    try:
                        _scr(L_.hess.hessenbergize(x.copy()))
                    except Exception:
                        pass
            np.random.seed(seed % (2 ** 31))
        if name.endswith("@rt"):
            # the caller solves once, then tightens the documented tolerance option on the SAME object and
            # solves again: the judged call must honour the current value (judges read obj.tol)
            obj_ = a_call[0]
            fn(*[x.copy() if isinstance(x, np.ndarray) else x for x in a_call], **kw_call)
            if float(obj_.tol) > 0:
                obj_.tol = float(obj_.tol) * 1.0e-5          # tightened below the value the object was constructed with
            np.random.seed(seed % (2 ** 31))
        if name.endswith(("@oc", "@o0")):
            # the caller keeps its option objects (a 0-d array holding a tolerance or a budget) and passes them again:
            # the judged call is the SECOND one with the same objects
            # (array arguments are copied for the first call - some kernels overwrite them by design -, option objects are not)
            for _warm in range(2):
                fn(*[x.copy() if isinstance(x, np.ndarray) and x.ndim else x for x in a_call], **{k_: (v_.copy() if isinstance(v_, np.ndarray) and v_.ndim else v_) for k_, v_ in kw_call.items()})
            np.random.seed(seed % (2 ** 31))
        try:
            if name.endswith("@th"):
                # a batch processed by a thread pool (the natural way to use a library whose LAPACK calls release the GIL):
                # the judged call runs while three other calls of the same routine, on their own matrices and their own
                # solver objects, are in flight in the same process; the interpreter switches threads every 50 microseconds
                import copy as _copy
                import sys as _sys
                import threading
                own = lambda xs: [x.copy() if isinstance(x, np.ndarray) else (_copy.deepcopy(x) if hasattr(x, "__dict__") and not callable(x) else x) for x in xs]
                rng_t = np.random.default_rng(seed + 1)
                def other_args():
                    o_ = own(a_call)
                    for i_, x_ in enumerate(o_):
                        if isinstance(x_, np.ndarray) and x_.dtype == np.quaternion and x_.ndim == 2:
                            o_[i_] = q_from_float(rng_t.standard_normal(x_.shape + (4,)) * 3.0)
                    return o_
                others = [other_args() for _ in range(3)]
                box, go = {}, threading.Barrier(4)
                def run_(args_, key_):
                    go.wait()
                    try:
                        box[key_] = ("ok", fn(*args_, **kw_call))
                    except BaseException as e_:                   # noqa: BLE001 (re-raised in the caller's thread below)
                        box[key_] = ("exc", e_)
                si_ = _sys.getswitchinterval()
                _sys.setswitchinterval(5e-5)
                try:
                    ths = [threading.Thread(target=run_, args=(a_call, 0))] + [threading.Thread(target=run_, args=(o_, k_ + 1)) for k_, o_ in enumerate(others)]
                    for t_ in ths:
                        t_.start()
                    for t_ in ths:
                        t_.join()
                finally:
                    _sys.setswitchinterval(si_)
                if box[0][0] == "exc":
                    raise box[0][1]
                out = box[0][1]
            elif name.endswith("@iv"):
                env_ = {"fn": fn, "mk": (lambda: quaternion.as_quat_array(inline_data)), "kw": kw_call}
                env_.update({"x%d" % i_: x_ for i_, x_ in enumerate(a_call)})
                out = eval("fn(" + ", ".join("mk()" if i_ == inline_k else "x%d" % i_ for i_ in range(len(a_call))) + ", **kw)", env_)
            elif name.endswith("@we"):
                # a strict interpreter (python -W error::DeprecationWarning, the way many test suites run): behaviour that
                # numpy announces "will error in future" is an error now
                with warnings.catch_warnings():
                    warnings.simplefilter("error", DeprecationWarning)
                    warnings.simplefilter("error", FutureWarning)
                    warnings.simplefilter("error", PendingDeprecationWarning)
                    out = fn(*a_call, **kw_call)
            else:
                out = fn(*a_call, **kw_call)
        except TypeError as e_:
            if name.endswith("@sp"):
                return []          # this routine does not take the sparse container (on this tree)
            if styled is not None and any(t_ in str(e_) for t_ in ("unexpected keyword argument", "positional argument", "multiple values for")):
                return []      # the signature itself changed (a renamed or removed parameter): an API matter, not this property's
            raise
        except (AttributeError, ValueError, IndexError, NotImplementedError):
            if name.endswith("@sp"):
                return []
            raise
    attr = jn.split(".")[-1] if jn.split(".")[0][0].isupper() else jn
    if styled is None and attr not in J.INPLACE_BY_DESIGN and jn not in J.INPLACE_BY_DESIGN and "Hess_QR" not in jn:
        # the contract is about the matrix the CALLER holds: judge against the argument objects as they are after the call
        pre = tuple(x if (isinstance(x, np.ndarray) and x.ndim) or i_ >= len(pre) else pre[i_] for i_, x in enumerate(a))
    if name.endswith("@df"):
        try:
            recs = jf(attr if attr in ("compute", "solve") else jn, fn, pre, kw_asked, out)
        except Exception:
            return []                                     # the judge was written for another form of output (return_* options)
    else:
        recs = jf(attr if attr in ("compute", "solve") else jn, fn, pre, kw_asked, out)
    return [(o.prop, o.fn, o.cls, dict(o.detail, size_sweep=True, routine=name, n=n), o.events) for o in recs]


def _c14_job(name, n, seed):
    """C14 at size: arguments bit-identical after the call, and a repeated call (same global seed) repeats the result"""
    from .props.c14 import snap_value  # noqa: F401  (imported for its side-effect-free helpers)
    rng = np.random.default_rng(seed)
    try:
        jn, fn, a, kw = build(name, n, rng)
    except Exception:
        if n < 8:
            return []                         # this routine's builder has no instance that small
        raise
    from .qlib import numpy_carriers
    if a and not isinstance(a[0], np.ndarray) and hasattr(a[0], "__dict__"):
        a2_, kw = numpy_carriers(a[1:], kw, zero_d=True)
        a = (a[0],) + a2_
    else:
        a, kw = numpy_carriers(a, kw, zero_d=True)       # numeric options held as 0-d arrays: caller's arrays like any other
    carriers0 = [(x, x.item()) for x in list(a) + list(kw.values()) if isinstance(x, np.ndarray) and x.ndim == 0 and x.dtype != np.quaternion]
    pre = [J.arg_digest(x) for x in a]
    outs = []
    for rep in range(2):
        np.random.seed(seed % (2 ** 31))
        a_run = a if rep == 0 else a          # the same objects again
        try:
            with contextlib.redirect_stdout(io.StringIO()):
                outs.append(fn(*a_run, **kw))
        except Exception as e:
            if n >= 8:
                raise
            outs.append("raised:" + type(e).__name__)     # boundary sizes may be outside the domain (option values of the builder)
    post = [J.arg_digest(x) for x in a]
    inplace = name.split(".")[0] in J.INPLACE_BY_DESIGN

    def dig(o_):
        if isinstance(o_, (tuple, list)):
            return [dig(x) for x in o_]
        if isinstance(o_, dict):
            return {k: dig(v) for k, v in sorted(o_.items()) if "time" not in str(k)}
        d_ = J.arg_digest(o_)
        return d_ if d_ is not None else repr(o_)[:80]
    o = J.Out("C14", name, "size-sweep", {"n": n, "size_sweep": True})
    if not inplace:
        o.flag("ArgumentsUnchanged", bool(all(p is None or p == q for p, q in zip(pre, post)) and all(x.item() == v for x, v in carriers0)))
        if "HigherOrder" in name:
            outs = [o_[:2] for o_ in outs]        # the third return value is a list of wall-clock timings
        o.flag("RepeatRepeatsResult", bool(dig(outs[0]) == dig(outs[1])))
    return [(o.prop, o.fn, o.cls, o.detail, o.events)]


def stage(ctx, quick=False):
    names = PROP_ROUTINES.get(ctx.pid)
    if ctx.pid == "C14":
        names = ["c14:" + nm for p_, nms in sorted(PROP_ROUTINES.items()) for nm in nms if not nm.startswith("embedding_laws")]
    if not names:
        return
    sizes = [8, 13, 34, 67] if quick else [8, 13, 21, 34, 67, 130]
    if ctx.pid == "C14":
        sizes = [2, 3, 34, 67] if quick else [2, 3, 4, 13, 34, 67, 130]
    jobs = []
    for nm in names:
        for n in sizes:
            if n > CAP.get(nm.replace("c14:", ""), 1000):
                continue
            for rep in range(1 if quick else 2):
                jobs.append((nm, n, ctx.seed * 1013 + 17 * n + rep + len(jobs)))
    for nm in ASPECT.get(ctx.pid, []):
        for how in ("ts", "sf"):
            for n in ((3, 5) if quick else (3, 5, 8, 13)):
                jobs.append((nm + "@" + how, n, ctx.seed * 1013 + 29 * n + len(jobs)))
    for nm in NEARLY.get(ctx.pid, []):
        for how in ("nh", "nt", "nu"):
            for n in ((5,) if quick else (3, 5, 8)):
                if n > CAP.get(nm, 1000):
                    continue
                jobs.append((nm + "@" + how, n, ctx.seed * 1013 + 31 * n + len(jobs)))
    for nm in UNDERFLOW.get(ctx.pid, []):
        for n in ((4, 6) if quick else (3, 4, 6, 8)):
            if n > CAP.get(nm, 1000):
                continue
            for rep in range(1 if quick else 3):
                jobs.append((nm + "@ue", n, ctx.seed * 1013 + 37 * n + rep + len(jobs)))
    for nm in names:
        if nm.startswith(("c14:", "embedding_laws")):
            continue
        for n in ((5, 13) if quick else (3, 5, 8, 13)):
            if n > CAP.get(nm, 1000):
                continue
            jobs.append((nm + "@vb", n, ctx.seed * 1013 + 41 * n + len(jobs)))
            jobs.append((nm + "@we", n, ctx.seed * 1013 + 53 * n + len(jobs)))
            jobs.append((nm + "@rb", n, ctx.seed * 1013 + 59 * n + len(jobs)))
            jobs.append((nm + "@rt", n, ctx.seed * 1013 + 61 * n + len(jobs)))
            jobs.append((nm + "@sp", n, ctx.seed * 1013 + 67 * n + len(jobs)))
            jobs.append((nm + "@th", n, ctx.seed * 1013 + 71 * n + len(jobs)))
            jobs.append((nm + "@iv", n, ctx.seed * 1013 + 73 * n + len(jobs)))
            jobs.append((nm + "@df", n, ctx.seed * 1013 + 43 * n + len(jobs)))
            for st_ in ("@pp", "@kw", "@oc", "@o0"):
                jobs.append((nm + st_, n, ctx.seed * 1013 + 47 * n + len(jobs)))
    outs = par.pmap(_job, jobs, chunk=1)
    rec = S.Rec()
    ncalls = 0
    for recs in outs:
        for prop, fn, cls, detail, events in recs:
            if prop != ctx.pid:
                continue
            ncalls += 1
            t = rec.new(fn.replace(".repo-test", ""), cls.replace("repo-test", "size-sweep"), detail)
            for e in events:
                rec.events.append(dict(e, tid=t))
    ctx.notes["size_sweep"] = {"routines": names, "sizes": sizes, "calls_judged": ncalls}
    if rec.events:
        S.judge(ctx, rec.events, rec.info)
        ctx.count("size sweep (calls)", ncalls)
