"""bin/selftest: demonstrate that the trace specifications are bound to the recorded
fields (not vacuous): every recorded trace of every property is re-validated
after corrupting ONE field of ONE event, and TLC must reject exactly that event
with the expected clause.  Traces are recorded by running the quick checks with
VERIF_SELFTEST_DIR set."""
import copy
import glob
import json
import os
import subprocess
import sys
import tempfile

from . import tlc

VERIF = tlc.VERIF


def _first(events, pred):
    for i, e in enumerate(events):
        try:
            if pred(e):
                return i
        except (KeyError, IndexError, TypeError):
            continue
    return None


def _bump(path):
    """increment the integer at a nested path (list of keys / indices)"""
    def f(e):
        o = e
        for k in path[:-1]:
            o = o[k]
        o[path[-1]] = o[path[-1]] + 1 if not isinstance(o[path[-1]], bool) else (not o[path[-1]])
    return f


def _set(**kw):
    def f(e):
        e.update(kw)
    return f


# spec -> list of (description, selector, mutation, expected clause)
CORRUPTIONS = {
    "AlgebraTrace": [
        ("one component of a recorded product", lambda e: e["op"] == "mul", _bump(["C", 0, 0, 0]), "ProductIsHamilton"),
        ("one component of a recorded conjugate transpose", lambda e: e["op"] == "herm", _bump(["H", 0, 0, 1]), "HermIsConjTranspose"),
        ("recorded squared norm", lambda e: e["op"] == "fro", _bump(["n2"]), "FroIsRootSumSquares"),
        ("deviation of a float product", lambda e: e["op"] == "funit", _set(units=10 ** 6), "PathsAgreeToRounding"),
    ],
    "EmbedTrace": [
        ("entry of the embedding of a product", lambda e: e["op"] == "mul" and e["fn"] == "real_expand", _bump(["RAB", 0, 0]), "Multiplicative"),
        ("entry of the complex adjoint of a product", lambda e: e["op"] == "mul" and e["fn"] == "complex_adjoint", _bump(["RAB", 0, 0, 0]), "Multiplicative"),
        ("entry of the embedding of a sum", lambda e: e["op"] == "add" and e["fn"] == "Realp", _bump(["RS", 0, 0]), "Additive"),
        ("entry of the embedding of A^H", lambda e: e["op"] == "herm" and e["fn"] == "real_expand", _bump(["RAH", 0, 0]), "StarPreserving"),
        ("entry of an embedding (norm scaling)", lambda e: e["op"] == "emb" and e["fn"] == "real_expand", _bump(["RA", 0, 0]), "NormScaling"),
        ("contracted entry", lambda e: e["op"] == "contract" and e["C"], _bump(["C", 0, 0, 0]), "RoundTrip"),
    ],
    "LUTrace": [
        ("reconstruction residual (3 outputs)", lambda e: not e["raised3"], _set(units3=10 ** 6), "PA_eq_LU"),
        ("reconstruction residual (2 outputs)", lambda e: not e["raised3"], _set(units2=10 ** 6), "A_eq_L2U"),
        ("largest multiplier", lambda e: not e["raised3"], _set(maxmult=40000), "MultLeOne"),
        ("permutation vector with a repeated entry", lambda e: not e["raised3"] and e["m"] >= 2, lambda e: e["ip"].__setitem__(0, e["ip"][1]), "IsPermutation"),
        ("row map of the two-output L", lambda e: not e["raised3"] and e["m"] >= 2, lambda e: e.__setitem__("l2src", [[] for _ in e["l2src"]]), "L2IsPTL"),
    ],
    "QGMRESTrace": [
        ("converged flag with a large true residual", lambda e: e["ev"] == "Return" and e.get("finite"), _set(converged=True, true_lg=0, info_lg=0), "ConvSound"),
        ("reported residual", lambda e: e["ev"] == "Return" and e.get("finite") and e["true_lg"] > -2000, lambda e: e.__setitem__("info_lg", e["info_lg"] + 600), "Truthful"),
        ("a later residual-history entry", lambda e: e["ev"] == "Cycle" and e["m"] >= 2 and e["res_lg"] > -2000, lambda e: e.__setitem__("res_lg", e["res_lg"] + 400), "HistMono"),
        ("optimality ratio", lambda e: e["ev"] == "Opt" and e["res_lg"] > -2000, _set(ratio_fx=70000), "CycleOptimal"),
        ("preconditioner pair distance", lambda e: e["ev"] == "Pair" and e["kind"] == "prec", _set(diff_lg=0), "PrecIndependent"),
        ("zero right-hand side answer", lambda e: e["ev"] == "Return" and e.get("xzero"), _set(xzero=False), "ZeroRhsZero"),
    ],
    "MeasureTrace": [
        ("a measured residual", lambda e: e["op"] == "units", _set(units=10 ** 8), None),
        ("a discrete output", lambda e: e["op"] == "eqint" and isinstance(e["got"], int), _bump(["got"]), None),
        ("a flag", lambda e: e["op"] == "flag" and e["ok"], _set(ok=False), None),
    ],
    "NewtonSchulzTrace": [
        ("t_1 of the initial iterate", lambda e: e["ev"] == "Iter" and e["k"] == 0 and len(e["t"]) > 0 and e["t"][0] > 0, lambda e: e["t"].__setitem__(0, e["t"][0] + 300), "InitialScaling"),
        ("reported residual history entry", lambda e: e["ev"] == "Hist" and e["has_res"] and e["res_true_lg"] > -2000, lambda e: e.__setitem__("res_rep_lg", e["res_rep_lg"] + 100), "ResidualHistoryTruthful"),
        ("covariance history entry", lambda e: e["ev"] == "Hist" and e["cov_true_lg"] > -2000 and e["want_cov"] > 0, lambda e: e.__setitem__("cov_rep_lg", e["cov_rep_lg"] + 100), "CovarianceHistoryTruthful"),
        ("history length", lambda e: e["ev"] == "Hist", lambda e: e.__setitem__("len_res", e["len_res"] + 1), "HistoryLength"),
        ("error of a run stopped on tolerance", lambda e: e["ev"] == "Return" and e["stopped_on_tol"], _set(err_lg=0), "StopOnTolIsAccurate"),
    ],
    "SchurTrace": [
        ("similarity error", lambda e: e["finite"], _set(sim_lg=0), "SimilarityPreserved"),
        ("flag with a large strictly-lower entry", lambda e: e["finite"], _set(flag=True, lower_lg=0), "ConvergedImpliesUpperTriangular"),
        ("unitarity of Q", lambda e: e["finite"], _set(unitary_units=10 ** 7), "UnitaryQ"),
    ],
    "SketchTrace": [
        ("converged flag", lambda e: e["hist_len"] > 0, lambda e: e.__setitem__("converged", not e["converged"]), "M:FlagIsLastBelowTol"),
        ("true residual of a converged run", lambda e: e["converged"], _set(true_res_lg=0), "ConvergedSound"),
        ("iteration count", lambda e: True, lambda e: e.__setitem__("iters", e["iters"] + 1), "M:ItersIsHistLen"),
        ("last history entry", lambda e: e["proxy_known"] and e["hist_len"] > 0 and e["last_lg"] > -2000, lambda e: e.__setitem__("last_lg", e["last_lg"] + 60), "HistoryOfReturnedIterate"),
    ],
    "HistoryTrace": [
        ("comparison with a fresh object", lambda e: e["ev"] == "Call", _set(same_as_fresh=False), "SameAsFreshObject"),
        ("object fields after the call", lambda e: e["ev"] == "Call", _set(dict_unchanged=False), "ConfigStable"),
        ("argument hash", lambda e: e["ev"] == "Mutation", _set(args_unchanged=False), "ArgumentsUnchanged"),
        ("package-import digest", lambda e: e["ev"] == "Style", _set(digest_package="corrupted"), "ImportStyleIndependent"),
        ("seeded reproducibility", lambda e: e["ev"] == "Seeded", _set(same=False), "ReproducibleUnderSeed"),
    ],
    "NormsTrace": [
        ("an inequality margin", lambda e: e["op"] == "ineq", _set(viol=10 ** 6), None),
        ("an equality deviation", lambda e: e["op"] == "eq", _set(units=10 ** 6), None),
    ],
    "DeblurTrace": [
        ("one pixel of a recorded blur", lambda e: e["op"] == "blur", _bump(["B", 0, 0]), "BlurIsCentredCircularConvolution"),
        ("one entry of a builder matrix", lambda e: e["op"] == "matrix" and e["A"], _bump(["A", 0, 0]), "BuilderIsOperator"),
        ("a normal-equation residual", lambda e: e["op"] == "units" and e["clause"] == "NormalEquations", _set(units=10 ** 7), "NormalEquations"),
    ],
    "TensorTrace": [
        ("one label of an unfolding", lambda e: e["op"] == "unfold" and len(e["M"]) > 0 and len(e["M"][0]) > 1,
         lambda e: e["M"][0].__setitem__(0, e["M"][0][1]), ("ColumnsAreFibres", "EachFibreOnce")),
        ("one label of the folded tensor", lambda e: e["op"] == "fold" and e["T2"], _bump(["T2", 0, 0, 0]), "FoldInvertsUnfold"),
        ("one channel of the round-tripped rgb image", lambda e: e["op"] == "rgb", _bump(["back", 0, 0, 0]), "RgbRoundTrip"),
        ("psnr flag", lambda e: e["op"] == "metric", lambda e: e.__setitem__("psnr_inf", not e["psnr_inf"]), "PsnrInfIffEqual"),
        ("mean SNR", lambda e: e["op"] == "snr", lambda e: e.__setitem__("mean_mdb", e["mean_mdb"] + 2000), "SnrInExpectation"),
    ],
    "PowerIterTrace": [
        ("residual of the returned vector", lambda e: e["ev"] == "Return" and e["hermitian_gap"], _set(resid_lg=0), "VectorIsEigenvector"),
        ("eigenvalue estimate", lambda e: e["ev"] == "Return" and e["hermitian_gap"], _set(everr_lg=0), "EstimateIsDominantModulus"),
        ("norm of the returned vector", lambda e: e["ev"] == "Return", _set(unit_units=10 ** 6), "UnitNorm"),
        ("decay of the non-dominant component", lambda e: e["ev"] == "Iter" and e["k"] == 3 and e["r_lg"] > -2000, lambda e: e.__setitem__("r_lg", e["r_lg"] + 100), "M:DecayLaw"),
    ],
    "DeepLinearTrace": [
        ("kind of a recorded inner call (a right factor asked where the left one is due)", lambda e: e["ev"] == "Pinv" and e["kind"] == "X", _set(kind="W"), "M:Schedule"),
        ("shape of a recorded factor", lambda e: e["ev"] == "Pinv" and e["kind"] == "W", _bump(["cols"]), "M:FactorShape"),
        ("argument of an inner call is not the current product", lambda e: e["ev"] == "Pinv", _set(match=False), "M:FactorIsCurrentProduct"),
        ("one inner call removed from the log (mirror out of step)", lambda e: e["ev"] == "Pinv" and e["mirror_sweep"] == 1, _bump(["mirror_layer"]), "M:MirrorInStep"),
        ("length of the returned history", lambda e: e["ev"] == "Return" and e["nh"] > 0, lambda e: (e.__setitem__("nh", e["nh"] + 1), e["below"].append(False)), ("M:HistoryCountsSweeps", "M:StopRule")),
        ("an early history entry below tol", lambda e: e["ev"] == "Return" and e["nh"] >= 2, lambda e: e["below"].__setitem__(0, True), "M:StopsAtFirstBelowTol"),
        ("stopped although not below tol and budget left", lambda e: e["ev"] == "Return" and e["nh"] >= 1 and e["below"][-1] and e["nh"] < e["max_iter"], lambda e: e["below"].__setitem__(len(e["below"]) - 1, False), "M:StopRule"),
        ("recorded reconstruction error", lambda e: e["ev"] == "Return", _set(truthful=False), "M:ReconstructionErrorTruthful"),
        ("caller's array changed", lambda e: e["ev"] == "Return", _set(args_unchanged=False), "ArgumentsUnchanged"),
    ],
    "LibraryTrace": [
        ("rank of a recorded result", lambda e: e["op"] in ("herm", "pinv", "gram") and e["out"], _bump(["out", 0, "r"]), None),
        ("value returned by rank()", lambda e: e["op"] == "rank", _bump(["value", "nonzero"]), "Library:RankValue"),
        ("shape of a product", lambda e: e["op"] == "mul" and e["out"], _bump(["out", 0, "m"]), "Library:ProductDescriptor"),
    ],
}


def validate(spec, cfg, events):
    fd, path = tempfile.mkstemp(prefix="verif-selftest-", suffix=".ndjson")
    try:
        with os.fdopen(fd, "w") as f:
            for e in events:
                f.write(json.dumps(e, separators=(",", ":")) + "\n")
        res = tlc.run_tlc(spec, cfg, workers=1, env={"TRACE_FILE": path}, timeout=1800, deadlock=False)
        vals = tlc.printed_values(res["out"])
        bad = {(v[2], v[3]) for v in vals if v[1] == "bad"}
        consumed = [v[2] for v in vals if v[1] == "consumed"]
        return bad, (consumed[0] if consumed else None)
    finally:
        os.unlink(path)


def main(argv):
    props = argv or ["C%02d" % i for i in range(1, 21)]
    work = tempfile.mkdtemp(prefix="verif-selftest-")
    ok = True
    n = 0
    try:
        for pid in props:
            env = dict(os.environ, VERIF_SELFTEST_DIR=work, VERIF_NO_ALT="1")      # (the second interpreter would record the same traces again)
            subprocess.run([os.path.join(VERIF, "bin", "check"), pid, "--tier", "quick"], env=env,
                           stdout=subprocess.DEVNULL, stderr=subprocess.DEVNULL)
            for fn in sorted(glob.glob(os.path.join(work, "%s-*.json" % pid))):
                rec = json.load(open(fn))
                spec, cfg, events = rec["spec"], rec["cfg"], rec["events"]
                # keep the re-validation cheap: a prefix of the trace that still contains every event kind
                base, consumed = validate(spec, cfg, events)
                if consumed != len(events):
                    print("SELFTEST-FAIL %s %s: baseline consumed %s of %d" % (pid, spec, consumed, len(events)))
                    ok = False
                    continue
                for desc, sel, mut, clause in CORRUPTIONS.get(spec, []):
                    i = _first(events, sel)
                    if i is None:
                        print("selftest %s %-18s skip (no event for: %s)" % (pid, spec, desc))
                        continue
                    ev2 = copy.deepcopy(events)
                    mut(ev2[i])
                    want = clause or ev2[i].get("clause")
                    wants = want if isinstance(want, tuple) else (want,)
                    bad, consumed = validate(spec, cfg, ev2)
                    new = bad - base
                    hit = any((ev2[i]["tid"], w) in new or (w is None and any(t == ev2[i]["tid"] for t, _ in new)) for w in wants)
                    want = "/".join(str(w) for w in wants)
                    n += 1
                    print("selftest %s %-18s corrupt %-48s -> %s %s" % (pid, spec, desc, "rejected" if hit else "NOT REJECTED", want))
                    if not hit or consumed != len(events):
                        ok = False
                os.unlink(fn)
        if "C20" in props:
            # negative model: with the guard mechanisms of the PINNED tree (five assert statements in qslst.py) TLC must
            # find the cells that are answered under the optimized interpreter - the invariant is not vacuous
            from . import tlc
            res = tlc.run_tlc("Guards", "CONSTANT PinnedTree = TRUE\nSPECIFICATION Spec\nINVARIANT OutOfDomainRaises\nINVARIANT InterpreterIndependent\nCHECK_DEADLOCK FALSE\n")
            rejected = not res.get("ok") and "Invariant" in str(res.get("error", "")) + res.get("out", "")
            n += 1
            print("selftest C20 %-18s negative model %-46s -> %s" % ("Guards", "mechanism table of the pinned tree (assert guards)", "rejected by TLC" if rejected else "NOT REJECTED"))
            ok = ok and rejected
    finally:
        import shutil
        shutil.rmtree(work, ignore_errors=True)
    print("selftest: %d corruptions, %s" % (n, "all rejected with the expected clause" if ok else "FAILURES"))
    return 0 if ok else 1


if __name__ == "__main__":
    sys.exit(main(sys.argv[1:]))
