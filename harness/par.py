"""Fan work out over processes (fork; the library is imported in the parent).

An exception raised inside the library under test (innermost frame under
VERIF_REPO) while the harness calls it with in-domain arguments is not a
machinery failure: it is reported as LibraryRaised and becomes a VIOLATION
(clause InDomainNoException) in core.main."""
import multiprocessing as mp
import os
import sys
import traceback

_F = None
REPO = os.path.realpath(os.environ.get("VERIF_REPO", "/repo"))


class LibraryRaised(Exception):
    def __init__(self, tb, item=None):
        Exception.__init__(self, tb)
        self.tb = tb
        self.item = item


# exception types that judging code raises on malformed VALUES (as opposed to bugs of the harness itself)
INTERPRETATION_ERRORS = ("ValueError", "IndexError", "TypeError", "KeyError", "AttributeError", "ZeroDivisionError", "FloatingPointError",
                         "OverflowError", "AssertionError", "LinAlgError")


class JudgeError(Exception):
    """the harness' own judging code raised while interpreting what the library returned (shape it cannot
    broadcast, NaN that the oracle SVD rejects, a missing key in a diagnostics dict, ...).  On the unchanged
    tree this never happens (every soak run is free of it); on a changed tree it means the library returned
    something the contract does not allow, so core.main reports it as a verdict, not as a machinery failure."""

    def __init__(self, tb, item=None):
        Exception.__init__(self, tb)
        self.tb = tb
        self.item = item


def innermost_in_repo(tb):
    """True if the innermost frame that belongs to either the harness or the
    library under test is a library frame (frames of numpy/scipy/stdlib called
    from there are skipped)."""
    here = os.path.dirname(os.path.realpath(__file__)) + os.sep
    for fr in reversed(traceback.extract_tb(tb)):
        fn = os.path.realpath(fr.filename)
        if fn.startswith(REPO + os.sep):
            return True
        if fn.startswith(here):
            return False
    return False


def _call(args):
    try:
        import contextlib
        import io
        from . import qlib
        qlib.set_phase(args)                                   # layout / storage-variant cycles start from a function of the job, not of the worker's history
        with contextlib.redirect_stdout(io.StringIO()):      # the library prints progress / warnings; verdict lines are printed by core only
            return _F(args)
    except Exception:
        et, ev, tb = sys.exc_info()
        return ("__exc__", "".join(traceback.format_exception(et, ev, tb)), innermost_in_repo(tb), et.__name__)


def pmap(fn, items, procs=None, chunk=None):
    global _F
    items = list(items)
    if not items:
        return []
    procs = procs or min(16, os.cpu_count() or 1, max(1, len(items)))
    _F = fn
    if procs == 1 or len(items) < 4:
        out = [_call(a) for a in items]
    else:
        ctx = mp.get_context("fork")
        with ctx.Pool(procs) as pool:
            out = pool.map(_call, items, chunksize=chunk or max(1, len(items) // (procs * 8)))
            pool.close()
            pool.join()
    for a, r in zip(items, out):
        if isinstance(r, tuple) and len(r) == 4 and r[0] == "__exc__":
            if r[2]:
                raise LibraryRaised(r[1], repr(a)[:2000])
            if r[3] in INTERPRETATION_ERRORS:
                raise JudgeError(r[1], repr(a)[:2000])
            raise RuntimeError("harness exception in worker:\n" + r[1])      # NameError, ImportError, ...: a bug of the harness itself
    return out
