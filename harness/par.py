"""Fan work out over processes (fork; the library is imported in the parent)."""
import multiprocessing as mp
import os

_F = None


def _call(args):
    return _F(args)


def pmap(fn, items, procs=None, chunk=None):
    global _F
    items = list(items)
    if not items:
        return []
    procs = procs or min(16, os.cpu_count() or 1, max(1, len(items)))
    if procs == 1 or len(items) < 4:
        return [fn(a) for a in items]
    _F = fn
    ctx = mp.get_context("fork")
    with ctx.Pool(procs) as pool:
        return pool.map(_call, items, chunksize=chunk or max(1, len(items) // (procs * 8)))
