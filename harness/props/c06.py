"""C06 - quaternion QR for every shape.

F: classes of Spectral.tla (shape x rank structure, exact inputs) plus structure
   classes (integer, pure imaginary, zero columns, triangular with imaginary
   diagonal, scaled by powers of two) are run through qr_qua.
B: random float matrices of all shapes 1..6 x 1..6.
Contract (no sign convention assumed): Q is m x min(m,n) with orthonormal
columns, R is min(m,n) x n upper triangular/trapezoidal, A = QR.
"""
import numpy as np

from .. import par
from .. import spectral as S
from .. import exactfam as E
from ..qlib import lib, q_from_float, q_to_float, omul, oherm, ofro, osvals, units


def leading_deficient(A):
    """some leading block of columns A[:, :j], j <= min(m,n), is rank deficient: the QR
    factorisation is then not unique (a zero appears on R's diagonal)"""
    m, n = A.shape[:2]
    top = max(ofro(A), 1e-300)
    for j in range(1, min(m, n) + 1):
        s = osvals(A[:, :j])
        if s[-1] <= 1e-9 * top:
            return True
    return False


def measure(rec, cls, detail, A):
    Q = lib().qsvd
    m, n = A.shape[:2]
    k = min(m, n)
    if leading_deficient(A):
        cls = "rank-deficient-leading-columns"
        # the recorded finding concerns DEPENDENT non-zero columns; columns that are exactly zero (in any position, with
        # either sign of zero) are handled correctly by the unchanged tree and are judged strictly
        nzc = [j for j in range(n) if np.any(A[:, j] != 0)]
        if len(nzc) < n and (not nzc or not leading_deficient(A[:, nzc])):
            cls = "exact-zero-columns"
    elif cls.startswith("rank-deficient"):
        cls = "wide-full-leading-block" if m < n else "full-column-rank"
    t = rec.new("qr_qua", cls, detail)
    Qq, Rq = Q.qr_qua(q_from_float(A))
    Qf, Rf = q_to_float(np.asarray(Qq)), q_to_float(np.asarray(Rq))
    rec.eqint(t, "ShapeQ", list(Qf.shape[:2]), [m, k])
    rec.eqint(t, "ShapeR", list(Rf.shape[:2]), [k, n])
    if list(Qf.shape[:2]) != [m, k] or list(Rf.shape[:2]) != [k, n]:
        return
    scale = max(ofro(A), 1e-300)
    rec.units(t, "OrthonormalQ", S.ortho_units(Qf))
    if "graded" in cls:
        # recorded finding: the contraction of the real QR loses orthonormality in proportion to the conditioning of the
        # leading column blocks (the continuous form of the rank-deficient finding).  A second, weaker clause still bounds
        # the loss by eps * cond, so that a change which makes it eps * cond^2 (Gram-matrix shortcuts) is reported.
        cmax = 1.0
        for j in range(1, k + 1):
            sv = osvals(A[:, :j])
            cmax = max(cmax, float(sv[0] / max(sv[-1], 1e-300)))
        G = omul(oherm(Qf), Qf)
        for i in range(k):
            G[i, i, 0] -= 1.0
        rec.lgle(t, "OrthonormalQUpToConditioning", float(np.max(np.abs(G))), 2.0 ** -52 * cmax * 4 * m, 6 * 64)
    low = 0.0
    for i in range(k):
        for j in range(min(i, n)):
            low = max(low, float(np.max(np.abs(Rf[i, j]))))
    rec.units(t, "UpperTriangularR", units(low, scale, 4 * max(m, n)))
    rec.units(t, "Reconstruction", units(ofro(A - omul(Qf, Rf)), scale, 4 * max(m, n) * k))


def _class_job(args):
    st, salt = args
    rec = S.Rec()
    A, U, V, names = S.build(st, salt)
    m, n = A.shape[:2]
    r = st["out"]["rank"]
    if r < min(m, n):
        cls = "rank-deficient"
    elif m < n:
        cls = "wide-full-row-rank"
    else:
        cls = "full-column-rank"
    measure(rec, cls, {"shape": [m, n], "s": st["s"], "U": names[0], "V": names[1]}, A)
    # the same class scaled by an exact power of two (tiny / huge magnitudes)
    e = (-200, -60, 60, 200)[(m + 2 * n + len(str(st["s"]))) % 4]
    measure(rec, cls, {"shape": [m, n], "s": st["s"], "U": names[0], "V": names[1], "scaled_by_2^": e}, A * 2.0 ** e)
    return rec.events, rec.info


def _structure_job(args):
    seed, thorough = args
    rng = np.random.default_rng(seed)
    rec = S.Rec()
    shapes = [(m, n) for m in range(1, 6) for n in range(1, 6)]
    for (m, n) in shapes:
        k = min(m, n)
        wide = m < n
        base = "wide-" if wide else ""
        A = rng.integers(-3, 4, (m, n, 4)).astype(float)
        full = osvals(A)[k - 1] > 1e-9
        measure(rec, (base + "integer") if full else "rank-deficient", {"shape": [m, n], "A": A.tolist(), "structure": "integer"}, A)
        P = A.copy()
        P[..., 0] = 0.0
        full = osvals(P)[k - 1] > 1e-9
        measure(rec, (base + "pure-imaginary") if full else "rank-deficient", {"shape": [m, n], "A": P.tolist(), "structure": "pure imaginary"}, P)
        # upper triangular with purely imaginary diagonal: the eliminated diagonal has zero real part
        T = np.zeros((m, n, 4))
        for i in range(m):
            for j in range(i, n):
                T[i, j] = rng.integers(-2, 3, 4)
            if i < n:
                T[i, i] = [0, 1 + (i % 2), 0, 0] if i % 3 != 2 else [0, 0, -2, 1]
        measure(rec, base + "triangular-imaginary-diagonal", {"shape": [m, n], "A": T.tolist(), "structure": "upper triangular, diagonal with zero real part"}, T)
        Z = A.copy()
        Z[:, rng.integers(0, n)] = 0.0
        measure(rec, "rank-deficient" if (not wide or osvals(Z)[k - 1] <= 1e-9) else "wide-integer", {"shape": [m, n], "A": Z.tolist(), "structure": "zero column"}, Z)
        measure(rec, "rank-deficient", {"shape": [m, n], "structure": "zero matrix"}, np.zeros((m, n, 4)))
        for e in (-200, -60, -40, 30, 200):
            G = rng.standard_normal((m, n, 4)) * 2.0 ** e
            measure(rec, (base + "scaled-gaussian"), {"shape": [m, n], "A": G.tolist(), "structure": "gaussian * 2^%d" % e}, G)
    for _ in range(60 if thorough else 10):
        m, n = int(rng.integers(1, 7)), int(rng.integers(1, 7))
        G = rng.standard_normal((m, n, 4))
        measure(rec, ("wide-" if m < n else "") + "gaussian", {"shape": [m, n], "A": G.tolist(), "structure": "gaussian"}, G)
    # exactly zero columns whose zeros carry SIGN BITS (masking by "*= 0.0", negation): any position, entries to the right
    for _ in range(160 if thorough else 48):
        m, n = int(rng.integers(2, 7)), int(rng.integers(2, 7))
        Zs = rng.standard_normal((m, n, 4))
        j = int(rng.integers(0, n))
        Zs[:, j] *= (0.0, -0.0)[int(rng.integers(0, 2))]
        if rng.random() < 0.3:
            Zs = -Zs
        measure(rec, "signed-zero-column", {"shape": [m, n], "zero_column": j, "structure": "column masked by multiplication with a signed zero"}, Zs)
    # block structures with exactly zero blocks (full rank): block diagonal, block upper / lower triangular
    for (m, n) in ((4, 4), (6, 4), (4, 6), (7, 7)):
        G = rng.standard_normal((m, n, 4))
        hm, hn = m // 2, n // 2
        for which in ("block-diagonal", "block-upper", "block-lower"):
            B = G.copy()
            if which in ("block-diagonal", "block-upper"):
                B[hm:, :hn] = 0
            if which in ("block-diagonal", "block-lower"):
                B[:hm, hn:] = 0
            measure(rec, ("wide-" if m < n else "") + "block-structure", {"shape": [m, n], "structure": which, "A": B.tolist()}, B)
    # ill-conditioned (graded singular values, cond 2^10 .. 2^40) tall-skinny, square and wide inputs: orthonormality of Q
    # must not depend on the conditioning (a Gram-matrix based shortcut squares it)
    for (m, n) in ((8, 2), (12, 3), (9, 1), (16, 4), (5, 5), (3, 6)) + (((24, 5), (40, 3)) if thorough else ()):
        k = min(m, n)
        for ce in (10, 20, 26, 40):
            sv = [2.0 ** (-ce * i / max(k - 1, 1)) for i in range(k)]
            Uo, _ = np.linalg.qr(rng.standard_normal((m, k)))
            W = E.ulib(n)[int(rng.integers(0, len(E.ulib(n))))][1] if n <= 6 else None
            D = np.zeros((k, n, 4))
            for i in range(k):
                D[i, i, 0] = sv[i]
            Uq = np.zeros((m, k, 4))
            Uq[..., 0] = Uo
            A = omul(omul(Uq, D), oherm(W))
            measure(rec, ("wide-" if m < n else "") + "graded-ill-conditioned", {"shape": [m, n], "cond": "2^%d" % ce, "structure": "real orthonormal U x graded diag x exactly unitary V^H"}, A)
    return rec.events, rec.info


def run(ctx, replay=None):
    lib()
    thorough = ctx.tier == "thorough"
    ctx.assumptions += [
        "bounds: 1024 units of 2^-52*||A||_F*size for orthonormality, triangularity and reconstruction",
        "no sign convention of R's diagonal is assumed",
    ]
    cl = [c for c in S.classes(ctx, thorough) if c["kind"] == "svd"]
    ctx.exhaustive = True
    recs = par.pmap(_class_job, [(c, ctx.seed) for c in cl])
    recs += par.pmap(_structure_job, [(ctx.seed * 31 + i, thorough) for i in range(8 if thorough else 2)], chunk=1)
    events, info = S.merge(recs)
    S.judge(ctx, events, info)
    ctx.sample({"direction": "F", "class": {k: cl[7][k] for k in ("m", "n", "s", "ui", "vi")}, "expected_rank": cl[7]["out"]["rank"]})
    ctx.sample({"direction": "B", "event": events[2], "context": str(info[events[2]["tid"]][2])[:300]})
    return "model_checking"
