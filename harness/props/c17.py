"""C17 - QSLST restoration solves the Tikhonov normal equations of the documented blur.

M  (Deblur.tla): every (size, single-tap kernel, impulse) triple plus a
   catalogue of asymmetric kernels; TLC computes the blurred image and the
   explicit operator matrix from the definition and checks the operator laws.
F  each state is replayed into apply_blur_fft (four channels), both matrix
   builders of the application, qslst_restore_fft / qslst_restore_matrix.
B  random integer (exact, recomputed by TLC in DeblurTrace.tla) and float
   (oracle direct-sum convolution, residual units) images and kernels.
"""
import importlib.util
import os
import sys

import numpy as np

from .. import par
from ..qlib import lib, REPO, units, f_layout

MCFG = """CONSTANTS MaxH = %d
 MaxW = %d
 WithMatrix = TRUE
SPECIFICATION Spec
INVARIANTS MassPreserved ImpulseToCentredPsf MatrixIsOperator
CHECK_DEADLOCK FALSE
"""
TCFG = """CONSTANT UnitsBound = 4096
INIT TInit
NEXT TNext
INVARIANT Report
CHECK_DEADLOCK FALSE
"""
_APP = None
LAMS = [2.0 ** -10, 2.0 ** -3, 1.0, 10.0]
WEIGHTS = [1.0, 2.0, -3.0, 5.0]


def app():
    global _APP
    if _APP is None:
        lib()
        path = os.path.join(REPO, "applications", "image_deblurring", "script_image_deblurring.py")
        spec = importlib.util.spec_from_file_location("verif_app_deblur", path)
        mod = importlib.util.module_from_spec(spec)
        argv = sys.argv
        sys.argv = [path]
        try:
            spec.loader.exec_module(mod)
        finally:
            sys.argv = argv
        _APP = mod
    return _APP


def oconv(X, psf):
    """direct-sum centred circular convolution (oracle), X (H,W), psf (kH,kW)."""
    H, W = X.shape
    kH, kW = psf.shape
    cH, cW = kH // 2, kW // 2
    B = np.zeros((H, W))
    for u in range(kH):
        for v in range(kW):
            if psf[u, v] != 0:
                B += psf[u, v] * np.roll(np.roll(X, u - cH, axis=0), v - cW, axis=1)
    return B


def omatrix(psf, H, W):
    N = H * W
    A = np.zeros((N, N))
    for c in range(N):
        e = np.zeros(N)
        e[c] = 1.0
        A[:, c] = oconv(e.reshape(H, W), psf).reshape(-1)
    return A


def quat_image(X):
    """four channels: weighted and shifted copies so that channels are distinguishable"""
    return np.stack([WEIGHTS[c] * np.roll(X, c, axis=1) for c in range(4)], axis=-1)


def _replay_state(st):
    Q = lib().qslst
    X = np.array(st["X"], dtype=np.float64)
    psf = np.array(st["psf"], dtype=np.float64)
    Bexp = np.array(st["out"]["B"], dtype=np.float64)
    H, W = X.shape
    fails = []
    n = 0
    cls = st["kind"] + (":kernel<image" if (psf.shape[0] < H and psf.shape[0] > 1) or (psf.shape[1] < W and psf.shape[1] > 1) else "")
    detail = {"X": st["X"], "psf": st["psf"]}
    Qi = quat_image(X)
    Bq = Q.apply_blur_fft(f_layout(Qi), f_layout(psf))
    n += 1
    for c in range(4):
        exp = WEIGHTS[c] * np.roll(Bexp, c, axis=1)
        if Bq.shape != Qi.shape or np.max(np.abs(Bq[..., c] - exp)) > 1e-9 * max(1.0, np.max(np.abs(exp))):
            fails.append(("apply_blur_fft", "BlurIsCentredCircularConvolution", cls,
                          dict(detail, channel=c, got=np.round(Bq[..., c], 6).tolist(), expected=exp.tolist())))
            break
    A_exp = np.array(st["out"]["A"], dtype=np.float64) if st["out"]["A"] else omatrix(psf, H, W)
    if st["out"]["A"]:
        for name, build in (("_build_bccb_matrix", lambda: np.asarray(app()._build_bccb_matrix(psf.copy(), H, W))),
                            ("_build_bccb_csr", lambda: app()._build_bccb_csr(psf.copy(), H, W).toarray())):
            n += 1
            A = build()
            if A.shape != A_exp.shape or not np.array_equal(A, A_exp):
                fails.append((name, "BuilderIsOperator", cls, dict(detail, got=A.tolist(), expected=st["out"]["A"])))
    # restoration: normal equations with the SPEC's operator
    N = H * W
    Bobs = quat_image(Bexp) + quat_image(np.roll(X, 1, axis=0)) * 0.25        # some observed data
    for lam in LAMS:
        n += 1
        Xr = Q.qslst_restore_fft(f_layout(Bobs), f_layout(psf), lam)
        T = A_exp.T @ A_exp + lam * np.eye(N)
        worst = 0
        for c in range(4):
            r = T @ Xr[..., c].reshape(-1) - A_exp.T @ Bobs[..., c].reshape(-1)
            worst = max(worst, units(float(np.max(np.abs(r))), float(np.max(np.abs(T)) * max(np.max(np.abs(Xr)), 1e-300) + np.max(np.abs(Bobs))), N))
        if worst > 4096:
            fails.append(("qslst_restore_fft", "NormalEquations", cls, dict(detail, lam=lam, units=worst)))
        Xm = Q.qslst_restore_matrix(f_layout(Bobs), A_exp.copy(), lam)
        d = units(float(np.max(np.abs(Xm - Xr))), float(max(np.max(np.abs(Xm)), 1e-300)) * max(1.0, 1.0 / lam), N)
        if d > 4096:
            fails.append(("qslst_restore_matrix", "MatrixFormEqualsFftForm", cls, dict(detail, lam=lam, units=d)))
    # lambda = 0 inverts pure shifts (single-tap kernels) exactly
    if st["kind"] == "basis":
        n += 1
        X0 = Q.qslst_restore_fft(quat_image(Bexp), psf.copy(), 0.0)
        if np.max(np.abs(X0 - Qi)) > 1e-9:
            fails.append(("qslst_restore_fft", "LambdaZeroInvertsShift", cls, detail))
    return n, fails


def _b_events(args):
    seed, count, tid0 = args
    rng = np.random.default_rng(seed)
    Q = lib().qslst
    ev = []
    for t in range(count):
        tid = tid0 + t
        H, W = int(rng.integers(1, 6)), int(rng.integers(1, 6))
        kH, kW = int(rng.integers(1, H + 1)), int(rng.integers(1, W + 1))
        if t % 4 == 3:
            # images and kernels beyond the enumerated sizes (a fast path chosen by image or kernel SIZE must agree too)
            H, W = int(rng.choice([7, 9, 12, 16, 19])), int(rng.choice([6, 8, 11, 17, 20]))
            kH, kW = int(rng.integers(1, min(8, H + 1))), int(rng.integers(1, min(8, W + 1)))        # kernels no larger than the image
        if t % 3 == 0:
            psf = rng.integers(0, 4, (kH, kW)).astype(float)
            X = rng.integers(-4, 5, (H, W)).astype(float)
            Qi = np.stack([X, 2 * X, -X, np.roll(X, 1, axis=0)], axis=-1)
            B = Q.apply_blur_fft(f_layout(Qi), f_layout(psf))
            B0 = B[..., 0]
            integral = bool(np.max(np.abs(B0 - np.rint(B0))) <= 1e-9 * max(1.0, np.max(np.abs(B0))))
            ev.append({"tid": tid, "op": "blur", "psf": psf.astype(int).tolist(), "X": X.astype(int).tolist(),
                       "B": np.rint(B0).astype(int).tolist(), "integral": integral})
            ok = bool(np.allclose(B[..., 1], 2 * B0, atol=1e-9) and np.allclose(B[..., 2], -B0, atol=1e-9)
                      and np.allclose(B[..., 3], np.roll(B0, 1, axis=0), atol=1e-9))
            ev.append({"tid": tid, "op": "flag", "clause": "ChannelsIndependentAndShiftEquivariant", "ok": ok})
            if H * W <= 12:
                for name in ("_build_bccb_matrix", "_build_bccb_csr"):
                    A = getattr(app(), name)(psf.copy(), H, W)
                    A = A.toarray() if hasattr(A, "toarray") else np.asarray(A)
                    ev.append({"tid": tid, "op": "matrix", "fn": name, "psf": psf.astype(int).tolist(), "H": H, "W": W,
                               "A": np.rint(A).astype(int).tolist() if A.shape == (H * W, H * W) else []})
        else:
            psf = rng.random((kH, kW)) + 0.01
            if t % 3 == 1:
                psf /= psf.sum()
            if t % 2 == 0:
                psf = psf * 2.0 ** int(rng.integers(-12, 13))            # un-normalised kernels of any magnitude
            Xq = rng.standard_normal((H, W, 4)) * 10.0 ** int(rng.integers(-9, 10))
            B = Q.apply_blur_fft(f_layout(Xq), f_layout(psf))
            ref = np.stack([oconv(Xq[..., c], psf) for c in range(4)], axis=-1)
            ev.append({"tid": tid, "op": "units", "clause": "BlurIsCentredCircularConvolution",
                       "units": units(float(np.max(np.abs(B - ref))), float(np.max(np.abs(Xq)) * psf.sum()), H * W)})
            lam = float(rng.choice(LAMS + [1e-3, 5.0])) * float(np.sum(psf)) ** 2          # lambda on the scale of |H|^2
            A = omatrix(psf, H, W)
            N = H * W
            noisy = B + 0.01 * float(np.max(np.abs(B)) + 1e-300) * rng.standard_normal(B.shape)
            Xr = Q.qslst_restore_fft(f_layout(noisy), f_layout(psf), lam)
            T = A.T @ A + lam * np.eye(N)
            worst = 0
            for c in range(4):
                r = T @ Xr[..., c].reshape(-1) - A.T @ noisy[..., c].reshape(-1)
                worst = max(worst, units(float(np.max(np.abs(r))), float(np.max(np.abs(T)) * np.max(np.abs(Xr)) + np.max(np.abs(noisy))), N))
            ev.append({"tid": tid, "op": "units", "clause": "NormalEquations", "units": worst})
            # linearity in B
            B2 = rng.standard_normal(B.shape) * float(np.max(np.abs(B)) + 1e-300)
            lhs = Q.qslst_restore_fft(noisy + 2.0 * B2, psf.copy(), lam)
            rhs = Xr + 2.0 * Q.qslst_restore_fft(B2.copy(), psf.copy(), lam)
            ev.append({"tid": tid, "op": "units", "clause": "LinearInB",
                       "units": units(float(np.max(np.abs(lhs - rhs))), float(np.max(np.abs(lhs)) + 1e-300) * max(1.0, 1.0 / lam), N)})
            # channel independence, literally: another image that differs in ONE channel only (rescaled by 2^40, a missing-data
            # marker, a saturated sample) - the other three channels of the blur and of the restoration do not change by a bit
            c0 = int(rng.integers(0, 4))
            others = [c for c in range(4) if c != c0]
            for how in ("scaled 2^40", "nan", "inf"):
                X2, N2 = Xq.copy(), noisy.copy()
                if how == "scaled 2^40":
                    X2[..., c0] *= 2.0 ** 40
                    N2[..., c0] *= 2.0 ** 40
                else:
                    X2[0, 0, c0] = N2[0, 0, c0] = np.nan if how == "nan" else np.inf
                Bx = Q.apply_blur_fft(X2, psf.copy())
                Rx = Q.qslst_restore_fft(N2, psf.copy(), lam)
                same = bool(np.array_equal(np.asarray(Bx)[..., others], np.asarray(B)[..., others]) and np.array_equal(np.asarray(Rx)[..., others], np.asarray(Xr)[..., others]))
                ev.append({"tid": tid, "op": "flag", "clause": "ChannelsIndependentAndShiftEquivariant", "ok": same, "changed_channel": c0, "change": how})
            try:
                Xm = Q.qslst_restore_matrix(f_layout(noisy), A.copy(), lam)
            except np.linalg.LinAlgError:
                # the matrix form is "pseudo-inverse of T = A^T A + lambda I by numpy".  This sandbox's LAPACK (single-threaded
                # OpenBLAS, as bin/check runs it) fails to converge on some finite, well-conditioned T of a few hundred rows
                # (measured: a 323 x 323 T with cond 13, DESIGN 10.5): if numpy cannot pseudo-invert THIS T when the harness
                # asks it directly, the failure is the backend's and the comparison is skipped; otherwise it is the library's
                try:
                    np.linalg.pinv(T)
                except np.linalg.LinAlgError:
                    ev.append({"tid": tid, "op": "flag", "clause": "M:BackendPseudoInverseConverges", "ok": True, "backend_failed": True, "n": int(N)})
                    continue
                raise
            ev.append({"tid": tid, "op": "units", "clause": "MatrixFormEqualsFftForm",
                       "units": units(float(np.max(np.abs(Xm - Xr))), float(np.max(np.abs(Xr)) + 1e-300) * max(1.0, 1.0 / lam) * max(1.0, np.max(np.abs(T))), N)})
    return ev


def _psf_builders():
    Q = lib().qslst
    out = []
    for r in (0, 1, 2, 3):
        for s in (0.5, 1.0, 2.5):
            p = Q.build_psf_gaussian(r, s)
            ok = p.shape == (2 * r + 1, 2 * r + 1) and abs(p.sum() - 1) < 1e-12 and np.allclose(p, p.T) and \
                np.allclose(p, p[::-1, ::-1]) and np.all(p >= 0) and p[r, r] == p.max()
            out.append(("build_psf_gaussian", "PsfUnitSumSymmetricCentred", {"radius": r, "sigma": s}, bool(ok)))
    for L in (1, 2, 3, 4, 5, 7):
        for ang in (0.0, 30.0, 45.0, 90.0, 135.0):
            p = Q.build_psf_motion(L, ang)
            K = p.shape[0]
            ok = p.shape[0] == p.shape[1] and K % 2 == 1 and abs(p.sum() - 1) < 1e-12 and np.all(p >= 0) and \
                np.allclose(p, p[::-1, ::-1])           # centred support: symmetric under point reflection
            out.append(("build_psf_motion", "PsfUnitSumSymmetricCentred", {"length": L, "angle": ang}, bool(ok)))
    return out


def run(ctx, replay=None):
    lib()
    app()
    thorough = ctx.tier == "thorough"
    ctx.assumptions += [
        "blurring is bilinear in (psf, image): single-tap kernels x impulses at every position of every size determine the operator on that size",
        "FFT results on integer data are integers up to 1e-9; normal-equation residuals bounded at 4096 units of 2^-52*scale*N",
        "application script imported by path with its main() not run",
    ]
    mh, mw = (4, 4) if thorough else (3, 3)
    res = ctx.model("Deblur", MCFG % (mh, mw), dump=True, timeout=1500)
    done = [s for s in res["states"] if s["pc"] == "done"]
    ctx.exhaustive = True
    for st, (n, fails) in zip(done, par.pmap(_replay_state, done)):
        ctx.replays += n
        ctx.case(("F", str(st["psf"]), str(st["X"])))
        for fn, clause, cls, detail in fails:
            ctx.fail(fn, clause, cls, detail)
    mid = [s for s in done if s["kind"] == "cat"][0]
    ctx.sample({"direction": "F", "psf": mid["psf"], "X": mid["X"], "expected_blur": mid["out"]["B"]})
    for fn, clause, detail, ok in _psf_builders():
        ctx.replays += 1
        if not ok:
            ctx.fail(fn, clause, "catalogue", detail)
    total = 1600 if thorough else 240
    per = total // 16
    events = []
    for ev in par.pmap(_b_events, [(ctx.seed * 7907 + c, per, c * per) for c in range(16)], chunk=1):
        events += ev
    bad = ctx.trace("DeblurTrace", events, TCFG)
    idx = {}
    for e in events:
        idx.setdefault(e["tid"], []).append(e)
    for tid, clause in bad:
        es = [e for e in idx[tid] if e.get("clause", None) == clause or e["op"] in ("blur", "matrix")]
        e = es[0] if es else idx[tid][0]
        fn = e.get("fn") or {"BlurIsCentredCircularConvolution": "apply_blur_fft", "BlurIntegral": "apply_blur_fft",
                             "NormalEquations": "qslst_restore_fft", "LinearInB": "qslst_restore_fft",
                             "MatrixFormEqualsFftForm": "qslst_restore_matrix"}.get(clause, "apply_blur_fft")
        if clause == "BuilderIsOperator":
            e = [x for x in idx[tid] if x["op"] == "matrix"][0]
            for x in idx[tid]:
                if x["op"] == "matrix":
                    e = x
            fn = e["fn"]
        ctx.fail(fn, clause, "random", {k: v for k, v in e.items() if k != "A"})
    for e in events:
        ctx.case(("B", e["tid"], e["op"], e.get("clause"), e.get("fn")))
    ctx.sample({"direction": "B", "event": events[0]})
    return "model_checking"
