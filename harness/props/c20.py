"""C20 - arguments outside an operation's domain are rejected loudly, never answered.

M  (Guards.tla): entry points with domain attributes x argument classes; the
   expected outcome of every applicable cell is DERIVED from the domain
   predicates by TLC (raises / returns) and the table is sanity-checked.
F  every cell is instantiated and called on copies; outcome class (raise vs
   return) and SHA-256 of the arguments (unchanged, "before modifying anything")
   are compared.  The exception TYPE is not pinned.
"""
import contextlib
import io
import os

import numpy as np
import quaternion
from scipy import sparse

from .. import par
from ..qlib import lib, q_from_float, sha, omul

MCFG = """CONSTANT PinnedTree = FALSE
SPECIFICATION Spec
INVARIANT OutOfDomainRaises
INVARIANT InterpreterIndependent
CHECK_DEADLOCK FALSE
"""


def base_matrix(cls, rng):
    """float array (m,n,4) for an in-domain shape class"""
    if cls == "ok_generic":
        return rng.standard_normal((3, 2, 4))
    if cls == "ok_square_hermitian":
        G = rng.standard_normal((3, 3, 4))
        return G + np.transpose(G, (1, 0, 2)) * [1, -1, -1, -1] + 6 * np.eye(3)[:, :, None] * [1.0, 0, 0, 0]
    if cls == "ok_1x1":
        return np.array([[[2.5, 0.0, 0.0, 0.0]]])
    if cls == "ok_1xn":
        return rng.standard_normal((1, 3, 4))
    if cls == "ok_nx1":
        return rng.standard_normal((3, 1, 4))
    if cls == "ok_rank_deficient":
        # EXACTLY rank one: rows are dyadic multiples of one integer quaternion row, so elimination meets an
        # exactly zero column (a float rank-deficient matrix would leave a noise-level pivot and either outcome)
        u = np.zeros((4, 1, 4))
        u[:, 0, 0] = [1.0, 2.0, 4.0, 2.0]
        return omul(u, rng.integers(-3, 4, (1, 3, 4)).astype(float) + np.array([1.0, 0, 0, 0]))
    raise KeyError(cls)


def _sp(F):
    u = lib().utils
    from ..qlib import sp_quat
    return sp_quat(F)


def build(ep, cls, rng, verbose=False):
    """-> (callable, list of argument objects to hash) for one cell"""
    L = lib()
    u, sv, t, q = L.utils, L.solver, L.tensor, L.qslst
    ok = cls.startswith("ok_")
    F = base_matrix(cls if ok else "ok_square_hermitian", rng)
    # ---- generic out-of-domain transformations of the matrix argument
    if cls == "nonsquare":
        F = rng.standard_normal((3, 2, 4))
    elif cls == "nonsquare_wide":
        F = rng.standard_normal((3, 5, 4))
    elif cls == "nonhermitian":
        F = F.copy()
        F[0, 2, 1] += 0.05 * float(np.max(np.abs(F)))
    elif cls == "nonhermitian_diagonal":
        F = F.copy()
        F[1, 1, 2] += 0.3 * float(np.max(np.abs(F)))          # Hermitian off-diagonal part, non-real diagonal entry
    elif cls.startswith("nonhermitian_diagonal_"):
        F = F.copy()
        F[1, 1, "wxyz".index(cls[-1])] += 0.3 * float(np.max(np.abs(F)))           # one component of one diagonal entry
    elif cls.startswith("nonhermitian_") and cls[-1] in "wxyz" and cls[-2] == "_":
        F = F.copy()
        F[0, 2, "wxyz".index(cls[-1])] += 0.05 * float(np.max(np.abs(F)))          # asymmetry confined to one component
    elif cls == "too_small":
        F = np.array([[[2.5, 0.0, 0.0, 0.0]]])
    elif cls == "wide_for_tall":
        F = rng.standard_normal((2, 4, 4))
    elif cls == "tall_for_wide":
        F = rng.standard_normal((4, 2, 4))
    A = q_from_float(F)
    if cls == "real_dtype":
        A = F[..., 0].copy()
    elif cls == "complex_dtype":
        A = (F[..., 0] + 1j * F[..., 1]).copy()
    elif cls == "sparse_storage":
        A = _sp(F)
    m, n = F.shape[:2]
    opt_bad = cls.startswith("unknown_option")

    def bad(valid, other):
        """an out-of-domain value of an enumerated option: another word, a fragment of the valid word, the empty
        string, the valid word in another case, or a value of the wrong type"""
        if cls == "unknown_option":
            return other
        if isinstance(valid, str):
            return {"unknown_option_fragment": valid[:len(valid) // 2] if len(valid) >= 4 else valid + valid, "unknown_option_empty": "",
                    "unknown_option_case": valid.swapcase(), "unknown_option_type": 0}[cls]
        return {"unknown_option_fragment": valid + 3, "unknown_option_empty": "", "unknown_option_case": str(valid) + "x",
                "unknown_option_type": "one"}[cls]
    mis = cls == "mismatched_pair"
    vb = {"verbose": True} if verbose else {}          # printing is supposed to be inert: a guard must hold with it switched on
    simple = {
        "induced_matrix_norm_1": lambda: (lambda: u.induced_matrix_norm_1(A), [A]),
        "induced_matrix_norm_inf": lambda: (lambda: u.induced_matrix_norm_inf(A), [A]),
        "spectral_norm_2": lambda: (lambda: u.spectral_norm_2(A), [A]),
        "matrix_norm": lambda: (lambda: u.matrix_norm(A, bad("fro", "nuc") if opt_bad else 1), [A]),
        "real_expand": lambda: (lambda: u.real_expand(A), [A]),
        "quaternion_to_complex_adjoint": lambda: (lambda: u.quaternion_to_complex_adjoint(A, axis=bad("x", "y") if opt_bad else "x"), [A]),
        "ishermitian": lambda: (lambda: u.ishermitian(A), [A]),
        "det_dieudonne": lambda: (lambda: u.det(A, bad("Dieudonne", "Foo") if opt_bad else "Dieudonne"), [A]),
        "det_moore": lambda: (lambda: u.det(A, "Moore"), [A]),
        "power_iteration": lambda: (lambda: u.power_iteration(A, max_iterations=5, **vb), [A]),
        "quat_null_space": lambda: (lambda: u.quat_null_space(A, side=bad("left", "up") if opt_bad else "left"), [A]),
        "quaternion_lu": lambda: (lambda: L.LU.quaternion_lu(A, return_p=True), [A]),
        "tridiagonalize": lambda: (lambda: L.tridiag.tridiagonalize(A), [A]),
        "quaternion_eigendecomposition": lambda: (lambda: L.eigen.quaternion_eigendecomposition(A, **vb), [A]),
        "quaternion_eigenvalues": lambda: (lambda: L.eigen.quaternion_eigenvalues(A, **vb), [A]),
        "quaternion_eigenvectors": lambda: (lambda: L.eigen.quaternion_eigenvectors(A, **vb), [A]),
        "hessenbergize": lambda: (lambda: L.hess.hessenbergize(A), [A]),
        "quaternion_schur": lambda: (lambda: L.schur.quaternion_schur(A, max_iter=5, **vb), [A]),
        "quaternion_schur_pure": lambda: (lambda: L.schur.quaternion_schur_pure(A, max_iter=5, **vb), [A]),
        "quaternion_schur_pure_implicit": lambda: (lambda: L.schur.quaternion_schur_pure_implicit(A, max_iter=5, **vb), [A]),
        "quaternion_schur_unified": lambda: (lambda: L.schur.quaternion_schur_unified(A, variant="aed", max_iter=5, **vb), [A]),
        "quaternion_schur_experimental": lambda: (lambda: L.schur.quaternion_schur_experimental(A, max_iter=5, **vb), [A]),
        "rsp_column": lambda: (lambda: sv.RandomizedSketchProjectPseudoinverse(block_size=2, max_iter=3, test_sketch_size=2, **vb).compute_column_variant(A), [A]),
        "rsp_row": lambda: (lambda: sv.RandomizedSketchProjectPseudoinverse(block_size=2, max_iter=3, test_sketch_size=2, **vb).compute_row_variant(A), [A]),
        "hybrid_compute": lambda: (lambda: sv.HybridRSPNewtonSchulz(r=2, T=1, max_iter=2, **vb).compute(A), [A]),
        "cgne_compute": lambda: (lambda: sv.CGNEQSolver(max_iter=3, **vb).compute(A), [A]),
        "classical_qsvd_full": lambda: (lambda: L.qsvd.classical_qsvd_full(A), [A]),
        "classical_qsvd": lambda: (lambda: L.qsvd.classical_qsvd(A, 1), [A]),
        "qr_qua": lambda: (lambda: L.qsvd.qr_qua(A), [A]),
        "rank": lambda: (lambda: u.rank(A), [A]),
        "quat_matmat": lambda: (lambda: u.quat_matmat(A, u.quat_hermitian(A)), [A]),
        "quat_frobenius_norm": lambda: (lambda: u.quat_frobenius_norm(A), [A]),
        "ns_compute": lambda: (lambda: sv.NewtonSchulzPseudoinverse(max_iter=3, **vb).compute(A), [A]),
        "hon_compute": lambda: (lambda: sv.HigherOrderNewtonSchulzPseudoinverse(max_iter=2, **vb).compute(A), [A]),
        "rsp_compute": lambda: (lambda: sv.RandomizedSketchProjectPseudoinverse(block_size=2, max_iter=3, test_sketch_size=2, **vb).compute(A), [A]),
    }
    if ep in simple:
        return simple[ep]()
    if ep == "real_contract":
        R = u.real_expand(q_from_float(F))
        mm, nn = (m + 1, n) if mis else (m, n)
        return (lambda: u.real_contract(R, mm, nn)), [R]
    if ep == "UtriangleQsparse":
        k = m
        T = np.triu(rng.standard_normal((k, k, 4)).transpose(2, 0, 1)).transpose(1, 2, 0) + 2 * np.eye(k)[:, :, None] * [1.0, 0, 0, 0]
        b = rng.standard_normal((k + 1 if mis else k, 1, 4))
        args = [np.ascontiguousarray(T[..., c]).copy() for c in range(4)] + [np.ascontiguousarray(b[..., c]).copy() for c in range(4)]
        # UtriangleQsparse overwrites b by documented design: only R is hashed when it returns
        return (lambda: u.UtriangleQsparse(*args)), (args if mis else args[:4])
    if ep in ("qgmres_solve", "qgmres_solve_left_lu"):
        b = q_from_float(rng.standard_normal((m + 1 if mis else m, 1, 4)))
        prec = "left_lu" if ep.endswith("left_lu") else None
        how = int(rng.integers(0, 3))
        if how == 0:
            return (lambda: sv.QGMRESSolver(tol=1e-8, preconditioner=prec, **vb).solve(A, b)), [A, b]

        def retuned():
            # the documented options are public attributes: a caller builds ONE solver and sets / toggles them between solves
            sol = sv.QGMRESSolver(tol=1e-2, preconditioner=("left_lu" if prec is None else None) if how == 2 else None, **vb)
            if how == 2:                        # a first, in-domain solve under the other configuration
                k0 = min(A.shape[0], 3)
                sol.solve(q_from_float(np.eye(k0)[:, :, None] * [2.0, 0, 0, 0]), q_from_float(np.ones((k0, 1, 1)) * [1.0, 0, 0, 0]))
            sol.preconditioner = prec or "none"
            sol.tol = 1e-8
            return sol.solve(A, b)
        return retuned, [A, b]
    if ep == "deeplinear_compute":
        lay = [n + 1 if mis else n, m]
        return (lambda: sv.DeepLinearNewtonSchulz(max_iter=1).compute(A, lay)), [A]
    if ep == "sparse_scalar_mul":
        Ssp = _sp(F)
        c = {"complex_scalar": 1 + 2j, "numpy_complex_scalar": np.complex128(2j), "nonnumeric_scalar": "2", "quaternion_scalar": np.quaternion(0, 1, 0, 0)}.get(cls, (2, 0.5, np.float64(3.0))[int(rng.integers(0, 3))])
        left = bool(rng.integers(0, 2))
        return (lambda: (c * Ssp) if left and not isinstance(c, str) else (Ssp * c)), [Ssp]
    if ep == "sparse_matmul":
        Ssp = _sp(F)
        other = {"unsupported_operand": [[1.0] * 1] * n}.get(cls, q_from_float(rng.standard_normal((n, 2, 4))))
        return (lambda: Ssp @ other), [Ssp]
    if ep.startswith("product_"):
        # left operand m x n; the right operand is conformable (n x k) in the in-domain classes and has a wrong inner
        # dimension otherwise - including the pairs a broadcasting product would silently answer (a 1x1 operand)
        shapes = {"inner_mismatch": ((3, 2), (3, 2)), "inner_mismatch_1x1_right": ((3, 2), (1, 1)), "inner_mismatch_1x1_left": ((1, 1), (3, 2)),
                  "inner_mismatch_vector": ((3, 3), (2, 1)), "outer_swapped": ((2, 1), (2, 1))}
        if cls in shapes:
            FB, FC = rng.standard_normal(shapes[cls][0] + (4,)), rng.standard_normal(shapes[cls][1] + (4,))
        else:
            FB, FC = F, rng.standard_normal((n, 1 + int(rng.integers(0, 3)) if n > 1 or rng.integers(0, 2) else 1, 4))
        if ep == "product_planes":
            planes = [np.ascontiguousarray(X[..., c]).copy() for X in (FB, FC) for c in range(4)]
            return (lambda: u.timesQsparse(*planes)), planes
        Bq, Cq = q_from_float(FB), q_from_float(FC)
        Bs, Cs = _sp(FB), _sp(FC)
        alt = bool(rng.integers(0, 2))
        if ep == "product_dense":
            return (lambda: u.quat_matmat(Bq, Cq)), [Bq, Cq]
        if ep == "product_sparse_dense":
            return (lambda: (Bs @ Cq) if alt else u.quat_matmat(Bs, Cq)), [Bs, Cq]
        if ep == "product_dense_sparse":
            return (lambda: u.quat_matmat(Bq, Cs)), [Bq, Cs]
        return (lambda: (Bs @ Cs) if alt else u.quat_matmat(Bs, Cs)), [Bs, Cs]
    if ep in ("quaternion_modulus", "quaternion_triu", "quaternion_tril"):
        return (lambda: getattr(L.LU, ep)(A)), [A]
    if ep == "normQsparse":
        planes = [np.ascontiguousarray(F[..., c]).copy() for c in range(4)]
        return (lambda: u.normQsparse(*planes, bad("d", "nuc-like") if opt_bad else None)), planes
    if ep.startswith("tensor_unfold"):
        mode = {"tensor_unfold": 1, "tensor_unfold_mode0": 0, "tensor_unfold_mode2": 2}[ep]
        if cls == "not_order3":
            T3 = q_from_float(F)
        elif cls in ("real_dtype", "complex_dtype"):
            T3 = np.ones((2, 3, 2))
        else:
            T3 = quaternion.as_quat_array(rng.standard_normal((m, n, 2, 4)))
        return (lambda: t.tensor_unfold(T3, bad(mode, 3 if mode else -1) if opt_bad else mode)), [T3]
    if ep.startswith("tensor_fold"):
        mode = {"tensor_fold": 1, "tensor_fold_mode0": 0, "tensor_fold_mode2": 2}[ep]
        shape = (m + 1, n + 1, n + 3)    # distinct dims so that a wrong 2-D shape with the right count exists
        T3 = quaternion.as_quat_array(rng.standard_normal(shape + (4,)))
        M = t.tensor_unfold(T3, mode)
        if mis:
            other = t.tensor_unfold(T3, (mode + 1) % 3)
            M = other if M.shape != other.shape else M.T.copy()   # same element count, wrong shape
        return (lambda: t.tensor_fold(M, bad(mode, 7) if opt_bad else mode, shape)), [M]
    img = rng.random((max(m, 2), max(n, 2), 4))
    psf = np.array([[0.25, 0.5, 0.25]]) if img.shape[1] >= 3 else np.array([[1.0]])
    if ep == "apply_blur_fft":
        return (lambda: q.apply_blur_fft(img, psf, boundary=bad("periodic", "reflect") if opt_bad else "periodic")), [img, psf]
    if ep == "qslst_restore_fft":
        return (lambda: q.qslst_restore_fft(img, psf, 0.1, boundary=bad("periodic", "zero") if opt_bad else "periodic")), [img, psf]
    if ep == "qslst_restore_matrix":
        N = img.shape[0] * img.shape[1]
        Am = np.eye(N + 1 if mis else N)
        return (lambda: q.qslst_restore_matrix(img, Am, 0.1)), [img, Am]
    if ep == "rgb_to_quat":
        rgb = img if mis else img[..., :3].copy()
        return (lambda: q.rgb_to_quat(rgb)), [rgb]
    if ep == "quat_to_rgb":
        qq = img[..., :3].copy() if mis else img
        return (lambda: q.quat_to_rgb(qq)), [qq]
    if ep == "householder_vector":
        a = q_from_float(rng.standard_normal((3, 4)).reshape(3, 1, 4))[:, 0]
        v = np.zeros(4 if mis else 3)
        v[0] = 1.0
        return (lambda: L.tridiag.householder_vector(a, v)), [a, v]
    raise KeyError(ep)


def _hash(objs):
    out = []
    for o in objs:
        if hasattr(o, "real") and hasattr(o, "i") and hasattr(o, "k") and hasattr(o, "shape") and not isinstance(o, np.ndarray):
            out.append(sha(o.real.toarray(), o.i.toarray(), o.j.toarray(), o.k.toarray()))
        else:
            out.append(sha(o))
    return out


def _cell(args):
    ep, cls, want, seed = args
    rng = np.random.default_rng(seed)
    try:
        f, objs = build(ep, cls, rng)
    except Exception as e:      # could not even build the arguments: machinery problem
        return {"ep": ep, "cls": cls, "want": want, "got": "harness-error", "err": repr(e), "args_unchanged": True}
    before = _hash(objs)
    np.random.seed(3)
    try:
        with contextlib.redirect_stdout(io.StringIO()):
            f()
        got, err = "returns", ""
    except BaseException as e:
        got, err = "raises", type(e).__name__
    out = {"ep": ep, "cls": cls, "want": want, "got": got, "err": err, "args_unchanged": _hash(objs) == before}
    # the same cell with verbose output switched on (where the entry point has the option): same outcome
    try:
        fv, objs_v = build(ep, cls, np.random.default_rng(seed), verbose=True)
        np.random.seed(3)
        try:
            with contextlib.redirect_stdout(io.StringIO()):
                fv()
            gv = "returns"
        except BaseException:
            gv = "raises"
        if gv != got and got == want:
            out.update(got=gv, err="outcome with verbose=True", verbose=True)
    except Exception:
        pass
    # the same cell with every argument of every library FUNCTION passed by its (pinned) keyword name: same outcome
    try:
        from ..qlib import as_all_keyword
        import inspect
        Lns = lib()
        patched = []
        for mod in (Lns.utils, Lns.LU, Lns.qsvd, Lns.eigen, Lns.tridiag, Lns.hess, Lns.schur, Lns.tensor, Lns.qslst):
            for nm, fn0 in list(vars(mod).items()):
                if inspect.isfunction(fn0) and fn0.__module__ == mod.__name__ and not nm.startswith("_"):
                    def mk(fn0=fn0):
                        def kwcall(*a, **k):
                            r_ = as_all_keyword(fn0, a, k)
                            return fn0(**r_[1]) if r_ is not None else fn0(*a, **k)
                        kwcall.__wrapped__ = fn0
                        return kwcall
                    patched.append((mod, nm, fn0))
                    setattr(mod, nm, mk())
        try:
            fk, _ = build(ep, cls, np.random.default_rng(seed))
            np.random.seed(3)
            try:
                with contextlib.redirect_stdout(io.StringIO()):
                    fk()
                gk = "returns"
            except TypeError as e:
                gk = got if "unexpected keyword" in str(e) or "got multiple values" in str(e) else "raises"      # a renamed parameter is not this property's business
            except BaseException:
                gk = "raises"
        finally:
            for mod, nm, fn0 in patched:
                setattr(mod, nm, fn0)
        if gk != got and got == want and not out.get("verbose"):
            out.update(got=gk, err="outcome when every argument is passed by keyword", keyword_style=True)
    except Exception:
        pass
    return out


def _plain_outcome(args):
    ep, cls, want, seed = args
    try:
        f, _objs = build(ep, cls, np.random.default_rng(seed))
    except Exception as e:
        return "harness-error: " + repr(e)
    np.random.seed(3)
    try:
        with contextlib.redirect_stdout(io.StringIO()):
            f()
        return "returns"
    except BaseException:
        return "raises"


def _optimized_main(jobs_path, out_path):
    """entry point of the second interpreter (python -O: __debug__ is False, assert statements are not compiled)"""
    import json
    lib()
    with open(jobs_path) as fh:
        jobs = [tuple(j) for j in json.load(fh)]
    with open(out_path, "w") as fh:
        json.dump({"optimized": not __debug__, "outcomes": par.pmap(_plain_outcome, jobs)}, fh)


def _optimized_outcomes(jobs):
    """the outcome (returns / raises) of every cell under `python -O` (PYTHONOPTIMIZE=1, usual in production images)"""
    import json
    import subprocess
    import sys
    import tempfile
    d = tempfile.mkdtemp(prefix="verif-c20-O-")
    jp, op = os.path.join(d, "jobs.json"), os.path.join(d, "out.json")
    try:
        with open(jp, "w") as fh:
            json.dump([list(j) for j in jobs], fh)
        root = os.path.dirname(os.path.dirname(os.path.dirname(os.path.abspath(__file__))))
        pr = subprocess.run([sys.executable, "-O", "-c", "import sys; sys.path.insert(0, %r); from harness.props import c20; c20._optimized_main(%r, %r)" % (root, jp, op)],
                            stdout=subprocess.PIPE, stderr=subprocess.PIPE, text=True, timeout=1800,
                            env=dict(os.environ, PYTHONDONTWRITEBYTECODE="1", MPLBACKEND="Agg"))
        if pr.returncode != 0:
            raise RuntimeError("optimized interpreter failed:\n" + pr.stderr[-2000:])
        with open(op) as fh:
            res = json.load(fh)
        if not res["optimized"]:
            raise RuntimeError("python -O did not switch __debug__ off")
        return res["outcomes"]
    finally:
        import shutil
        shutil.rmtree(d, ignore_errors=True)


def run(ctx, replay=None):
    lib()
    thorough = ctx.tier == "thorough"
    ctx.assumptions += [
        "applicability: an out-of-domain class is a cell of an entry point only if it probes a requirement that entry point documents (Guards.tla EP table); in-domain boundary classes apply to every entry point",
        "the exception type is not pinned; outcome class (raise / return) and argument hashes are",
        "unknown variant=/shift= strings of the Schur routines are not in the property's list of enumerated options and are not cells",
    ]
    res = ctx.model("Guards", MCFG, dump=True)
    done = [s for s in res["states"] if s["pc"] == "done"]
    cells = sorted((s for s in done if s["interp"] == "default"), key=lambda s: (s["ep"], s["cls"]))
    cells_opt = sorted((s for s in done if s["interp"] == "optimized"), key=lambda s: (s["ep"], s["cls"]))
    if [(c["ep"], c["cls"]) for c in cells] != [(c["ep"], c["cls"]) for c in cells_opt]:
        raise RuntimeError("Guards.tla: the cells of the two interpreters differ")
    ctx.exhaustive = True
    reps = 3 if thorough else 1
    jobs = [(c["ep"], c["cls"], c["want"], ctx.seed * 1009 + r * 7 + i) for i, c in enumerate(cells) for r in range(reps)]
    outs = par.pmap(_cell, jobs)
    # the cells of the OPTIMIZED interpreter (Guards.tla: interp = "optimized") are evaluated in a python -O child, with the
    # same seeds as their default-interpreter twins (a guard written as an assert statement is not a guard there)
    jobs_opt = [(c["ep"], c["cls"], c["want"], ctx.seed * 1009 + r * 7 + i) for i, c in enumerate(cells_opt) for r in range(reps)]
    opt = _optimized_outcomes(jobs_opt)
    for o, jo, go in zip(outs, jobs_opt, opt):
        if go.startswith("harness-error"):
            raise RuntimeError("cannot build cell %s/%s under python -O: %s" % (o["ep"], o["cls"], go))
        ctx.case((jo[0], jo[1], "optimized"))
        if go != jo[2] and o["got"] == o["want"]:
            o.update(want=jo[2], got=go, err="outcome under python -O (assert statements are not executed)", optimized_interpreter=True)
    ctx.notes["cells_under_python_O"] = len(opt)
    ctx.replays += len(opt)
    for o in outs:
        ctx.replays += 1
        ctx.case((o["ep"], o["cls"]))
        if o["got"] == "harness-error":
            raise RuntimeError("cannot build cell %s/%s: %s" % (o["ep"], o["cls"], o["err"]))
        if o["got"] != o["want"]:
            clause = "OutOfDomainRejected" if o["want"] == "raises" else "InDomainAccepted"
            ctx.fail(o["ep"], clause, o["cls"], o)
        elif not o["args_unchanged"]:
            ctx.fail(o["ep"], "RejectsBeforeModifying" if o["want"] == "raises" else "ArgumentsUnchanged", o["cls"], o)
    ctx.count("OutOfDomainRejected", sum(1 for o in outs if o["want"] == "raises"))
    ctx.count("InDomainAccepted", sum(1 for o in outs if o["want"] == "returns"))
    ctx.notes["entry_points"] = len({c["ep"] for c in cells})
    ctx.notes["cells"] = len(cells)
    ctx.sample({"direction": "F", "cell": outs[5]})
    ctx.sample({"direction": "F", "cell": [o for o in outs if o["want"] == "raises"][3]})
    return "model_checking"
