"""C08 - Hermitian eigendecomposition and tridiagonalisation are exact unitary reductions.

F: every Hermitian class of Spectral.tla (A = U diag(lam) U^H, all multiplicity
   and sign patterns, expectations from TLC) and structure classes (diagonal,
   tridiagonal, integer sparse patterns with zero sub-columns, low rank, zero),
   scaled by 2^-27 / 2^27, through tridiagonalize and quaternion_eigendecomposition.
   Guards: non-Hermitian (by a margin) and non-square input must raise.
B: random Hermitian float matrices (oracle spectrum: eigvalsh of the adjoint).
"""
import numpy as np

from .. import par
from .. import spectral as S
from .. import exactfam as E
from ..qlib import lib, q_from_float, q_to_float, omul, oherm, oeye, ofro, oadj, units, EPS


def herm_measure(rec, cls, detail, A, lam_exp):
    L = lib()
    n = A.shape[0]
    scale = max(ofro(A), 1e-300)
    Aq = q_from_float(A)
    if n >= 2:
        t = rec.new("tridiagonalize", cls, detail)
        Pq, Bq = L.tridiag.tridiagonalize(Aq.copy())
        Pf, Bf = q_to_float(np.asarray(Pq)), q_to_float(np.asarray(Bq))
        rec.eqint(t, "ShapesPB", [list(Pf.shape[:2]), list(Bf.shape[:2])], [[n, n], [n, n]])
        rec.units(t, "UnitaryP", S.unitary_units(Pf))
        band = all(not np.any(Bf[i, j]) for i in range(n) for j in range(n) if abs(i - j) > 1)
        real = not np.any(Bf[..., 1:])
        sym = bool(np.array_equal(Bf[..., 0], Bf[..., 0].T) or np.max(np.abs(Bf[..., 0] - Bf[..., 0].T)) <= 1024 * EPS * scale)
        rec.flag(t, "BRealSymmetricTridiagonal", band and real and sym)
        rec.units(t, "PAPh_eq_B", units(ofro(omul(omul(Pf, A), oherm(Pf)) - Bf), scale, 4 * n * n))
    t = rec.new("quaternion_eigendecomposition", cls, detail)
    ev, Vq = L.eigen.quaternion_eigendecomposition(Aq.copy())
    ev = np.asarray(ev)
    Vf = q_to_float(np.asarray(Vq, dtype=np.quaternion))
    rec.eqint(t, "ShapesEig", [int(ev.shape[0]), list(Vf.shape[:2])], [n, [n, n]])
    if ev.shape[0] != n or list(Vf.shape[:2]) != [n, n]:
        return
    top = max(max(abs(float(x)) for x in lam_exp), 1e-300) if len(lam_exp) else 1.0
    rec.units(t, "EigenvaluesReal", units(float(np.max(np.abs(np.imag(ev)))), top, 4 * n))
    got = np.sort(np.real(ev))
    rec.units(t, "SpectrumOfA", units(float(np.max(np.abs(got - np.sort(np.asarray(lam_exp, dtype=float))))), top, 4 * n * n))
    rec.units(t, "UnitaryV", S.unitary_units(Vf))
    D = np.zeros((n, n, 4))
    for i in range(n):
        D[i, i, 0] = float(np.real(ev[i]))
    rec.units(t, "AV_eq_VLambda", units(ofro(omul(A, Vf) - omul(Vf, D)), max(scale, 1e-300), 4 * n * n))
    # the library's own verifier agrees with the oracle residual (mechanism level, recorded as M: clause)
    vr = L.eigen.verify_eigendecomposition(Aq.copy(), ev, np.asarray(Vq, dtype=np.quaternion))
    orc = max([ofro(omul(A, Vf[:, i:i + 1]) - Vf[:, i:i + 1] * float(np.real(ev[i]))) for i in range(n)] + [0.0])
    rec.flag(t, "M:LibraryVerifierAgrees", bool(abs(float(vr["max_error"]) - orc) <= 1e-9 * max(scale, 1.0) and bool(vr["success"]) == bool(vr["max_error"] < 1e-6)))
    # eigenvalues-only / eigenvectors-only entry points agree
    ev2 = np.asarray(L.eigen.quaternion_eigenvalues(Aq.copy()))
    V2 = q_to_float(np.asarray(L.eigen.quaternion_eigenvectors(Aq.copy()), dtype=np.quaternion))
    # the narrow entry points must meet the CONTRACT themselves (spectrum; unitary matrix of eigenvectors); that they
    # return the very same arrays as the full decomposition is a mechanism fact only (eigenvectors are not unique)
    ok_vals = bool(ev2.shape == ev.shape and np.allclose(np.sort(np.real(ev2)), np.sort(np.asarray(lam_exp, dtype=float)), atol=4096 * EPS * top * n))
    ok_vecs = bool(V2.shape == Vf.shape)
    if ok_vecs:
        rec.units(t, "EigenvectorsEntryPointUnitary", S.unitary_units(V2))
        AV = omul(A, V2)
        resid = 0.0
        for j in range(n):
            v = V2[:, j:j + 1]
            mu = omul(oherm(v), AV[:, j:j + 1])[0, 0, 0]          # Rayleigh quotient (real for Hermitian A)
            resid = max(resid, ofro(AV[:, j:j + 1] - v * mu))
        rec.units(t, "EigenvectorsEntryPointColumnsAreEigenvectors", units(resid, max(scale, 1e-300), 4 * n * n))
    rec.flag(t, "EntryPointsAgree", ok_vals and ok_vecs)
    rec.flag(t, "M:EntryPointsReturnIdenticalArrays", bool(ok_vecs and np.array_equal(V2, Vf)))


def inplace_history(rec, cls, detail, A, lam_exp):
    """the narrow entry points called again after the caller updated the SAME array in place"""
    L = lib()
    n = A.shape[0]
    if n < 2:
        return
    t = rec.new("quaternion_eigenvalues", cls + ":in-place-history", detail)
    Aq = np.array(q_from_float(A))              # a writable array: the caller updates it in place below
    L.eigen.quaternion_eigenvalues(Aq)
    L.eigen.quaternion_eigenvectors(Aq)
    Aq *= 2.0                                            # same object, doubled spectrum
    w = np.sort(np.real(np.asarray(L.eigen.quaternion_eigenvalues(Aq))))
    top = max(max(abs(float(x)) for x in lam_exp), 1e-300) * 2.0
    rec.units(t, "SpectrumOfA", units(float(np.max(np.abs(w - 2.0 * np.sort(np.asarray(lam_exp, dtype=float))))), top, 4 * n * n))
    Vf = q_to_float(np.asarray(L.eigen.quaternion_eigenvectors(Aq), dtype=np.quaternion))
    D = np.zeros((n, n, 4))
    wu = np.real(np.asarray(L.eigen.quaternion_eigenvalues(Aq)))
    for i in range(n):
        D[i, i, 0] = float(wu[i])
    A2 = q_to_float(Aq)
    rec.units(t, "AV_eq_VLambda", units(ofro(omul(A2, Vf) - omul(Vf, D)), max(ofro(A2), 1e-300), 4 * n * n))
    Aq[0, n - 1] = Aq[0, n - 1] + np.quaternion(0.0, 0.3 * top, 0.0, 0.0)      # now non-Hermitian, same object
    for fn in (L.eigen.quaternion_eigenvalues, L.eigen.quaternion_eigenvectors):
        try:
            import contextlib
            import io
            with contextlib.redirect_stdout(io.StringIO()):
                fn(Aq)
            rec.flag(t, "RejectsOutOfDomain", False)
        except Exception:
            rec.flag(t, "RejectsOutOfDomain", True)


def _class_job(args):
    st, salt = args
    rec = S.Rec()
    A, U, _, names = S.build(st, salt)
    lam = st["s"]
    rep = len(set(lam)) < len(lam)
    cls = "repeated-eigenvalue" if rep else "simple-spectrum"
    detail = {"lambda": lam, "U": names[0], "n": st["m"]}
    herm_measure(rec, cls, detail, A, lam)
    if any(x != 0 for x in lam):
        inplace_history(rec, cls, detail, A, lam)
    e = (-27, 27)[(st["m"] + len(str(lam))) % 2]
    herm_measure(rec, cls, dict(detail, scaled_by_pow2=e), A * 2.0 ** e, [v * 2.0 ** e for v in lam])
    return rec.events, rec.info


def seed_i(rng):
    return int(rng.integers(0, 1000))


def _structure_job(args):
    seed, thorough = args
    rng = np.random.default_rng(seed)
    rec = S.Rec()
    L = lib()

    def spec(A):
        w = np.linalg.eigvalsh(oadj(A))
        return list(w[0::2])
    for n in range(1, 6):
        # diagonal (repeated entries), zero, identity multiples
        for d in ([3] * n, list(range(1, n + 1)), [(-1) ** i * 2 for i in range(n)], [0] * n):
            A = S.diag_q(d, n, n)
            herm_measure(rec, "diagonal", {"structure": "diagonal", "d": d}, A, d)
        if n >= 2:
            # already real symmetric tridiagonal
            T = np.zeros((n, n, 4))
            for i in range(n):
                T[i, i, 0] = i + 1
                if i + 1 < n:
                    T[i, i + 1, 0] = T[i + 1, i, 0] = 1.0 if i % 2 == 0 else 0.0
            herm_measure(rec, "already-tridiagonal", {"structure": "real tridiagonal", "n": n}, T, spec(T))
            # real tridiagonal with NEGATIVE and mixed-sign off-diagonals (second-difference / negative-correlation matrices)
            T2 = T.copy()
            for i in range(n - 1):
                T2[i, i + 1, 0] = T2[i + 1, i, 0] = (-1.0, -2.0, 3.0, -1.0)[i % 4]
            herm_measure(rec, "already-tridiagonal:negative-offdiagonal", {"structure": "real tridiagonal, negative off-diagonals", "n": n}, T2, spec(T2))
            L2 = np.zeros((n, n, 4))
            for i in range(n):
                L2[i, i, 0] = 2.0
                if i + 1 < n:
                    L2[i, i + 1, 0] = L2[i + 1, i, 0] = -1.0
            herm_measure(rec, "already-tridiagonal:second-difference", {"structure": "second-difference matrix", "n": n}, L2, spec(L2))
            # integer Hermitian with zero sub-columns (alpha = 0 / r = 0 reflector branches)
            H = np.zeros((n, n, 4))
            for i in range(n):
                H[i, i, 0] = rng.integers(-3, 4)
            if n >= 3:
                q = rng.integers(-2, 3, 4).astype(float)
                H[0, 2] = q
                H[2, 0] = q * [1, -1, -1, -1]          # (1,0) entry is zero, (2,0) is not
            if n >= 4:
                q = rng.integers(-2, 3, 4).astype(float)
                H[1, 3] = q
                H[3, 1] = q * [1, -1, -1, -1]
            herm_measure(rec, "integer-zero-subcolumn", {"structure": "integer, zero first sub-diagonal entries", "A": H.tolist()}, H, spec(H))
            G = rng.integers(-3, 4, (n, n, 4)).astype(float)
            Hh = G + oherm(G)
            herm_measure(rec, "integer-dense", {"structure": "integer Hermitian", "A": Hh.tolist()}, Hh, spec(Hh))
            if n >= 3:
                # first row / column (off the diagonal) so small that the squares underflow
                for e_ in (-530, -1072):           # squares underflow; entries are denormal
                    Hu = Hh.copy()
                    Hu[1:, 0] *= 2.0 ** e_
                    Hu[0, 1:] *= 2.0 ** e_
                    herm_measure(rec, "underflow-subcolumn", {"structure": "integer Hermitian, first off-diagonal row/column scaled by 2^%d" % e_, "n": n}, Hu, spec(Hu))
                # only the pivot entry (1,0) / (0,1) is that small, the rest of the first row / column is O(1)
                for e_ in (-20, -27, -30, -34, -40, -46, -60, -505, -520, -530, -536, -540, -545, -1074):
                    Hp = Hh.copy()
                    if not np.any(Hp[1, 0]):
                        Hp[1, 0] = [1.0, -2.0, 1.0, 3.0]
                    Hp[1, 0] *= 2.0 ** e_
                    Hp[0, 1] = Hp[1, 0] * [1, -1, -1, -1]
                    herm_measure(rec, "underflow-pivot" if e_ < -100 else "small-pivot", {"structure": "integer Hermitian, entries (1,0), (0,1) scaled by 2^%d" % e_, "n": n}, Hp, spec(Hp))
            v = rng.standard_normal((n, 1, 4))
            R1 = omul(v, oherm(v))
            herm_measure(rec, "low-rank", {"structure": "rank one", "v": v.tolist()}, R1, spec(R1))
        for _ in range(6 if thorough else 2):
            G = rng.standard_normal((n, n, 4)) * 10.0 ** rng.integers(-8, 9)
            Hh = G + oherm(G)
            herm_measure(rec, "random-hermitian", {"structure": "gaussian hermitian", "A": Hh.tolist()}, Hh, spec(Hh))
    # Hermitian dilations [[0, X], [X^H, 0]] (hollow: zero diagonal blocks; the tridiagonal form has a numerically zero
    # diagonal) - the standard way to obtain singular values from a Hermitian eigensolver; spectrum = +-singular values of X
    for (p_, q_) in ((2, 2), (2, 3), (3, 3), (1, 4)):
        for kind_ in ("gaussian", "integer"):
            X = rng.standard_normal((p_, q_, 4)) if kind_ == "gaussian" else rng.integers(-3, 4, (p_, q_, 4)).astype(float)
            n_ = p_ + q_
            Dl = np.zeros((n_, n_, 4))
            Dl[:p_, p_:] = X
            Dl[p_:, :p_] = oherm(X)
            herm_measure(rec, "hermitian-dilation", {"structure": "[[0, X], [X^H, 0]]", "X_shape": [p_, q_], "entries": kind_}, Dl, spec(Dl))
    # block-diagonal Hermitian matrices (exactly decoupled blocks: zero sub-columns in the middle of the reduction)
    for blocks in ((2, 2), (3, 3), (1, 3, 2), (3, 1, 3)):
        n = sum(blocks)
        Hb = np.zeros((n, n, 4))
        o = 0
        for b in blocks:
            G = rng.standard_normal((b, b, 4))
            Hb[o:o + b, o:o + b] = G + oherm(G)
            o += b
        herm_measure(rec, "block-diagonal", {"structure": "block diagonal Hermitian", "blocks": list(blocks)}, Hb, spec(Hb))
    # graded spectra (cond 2^10 .. 2^40, mixed signs), exactly representable: A = U diag(lam) U^H with exactly unitary U
    for n in (2, 3, 4, 5):
        for ce in (10, 20, 30, 40):
            lam = [(-1) ** i * 2.0 ** (3 - (ce * i) // (n - 1)) for i in range(n)]
            un, U = E.ulib(n)[(seed_i(rng) + ce) % len(E.ulib(n))]
            A = E.herm_from_spectrum(U, lam)
            herm_measure(rec, "graded-spectrum", {"lambda": lam, "U": un, "cond": "2^%d" % ce}, A, lam)
    # guards
    for n in (2, 3, 4):
        G = rng.standard_normal((n, n, 4))
        Hh = G + oherm(G)
        N = Hh.copy()
        N[0, n - 1, 1] += 0.05 * np.max(np.abs(Hh))          # non-Hermitian by a margin
        R = rng.standard_normal((n, n + 1, 4))
        Dg = Hh.copy()
        Dg[n - 1, n - 1, 2] += 0.3 * np.max(np.abs(Hh))      # conjugate-symmetric off the diagonal, one NON-REAL diagonal entry
        Dt = Hh.copy()
        Dt[0, 0, 1:] = [1e-3 * np.max(np.abs(Hh)), 0, 0]     # a small (1e-3 relative) but not rounding-level diagonal defect
        for fn, f in (("tridiagonalize", L.tridiag.tridiagonalize), ("quaternion_eigendecomposition", L.eigen.quaternion_eigendecomposition),
                      ("quaternion_eigenvalues", L.eigen.quaternion_eigenvalues), ("quaternion_eigenvectors", L.eigen.quaternion_eigenvectors)):
            # the defect confined to ONE of the four components (a guard that compares three of them misses the fourth)
            per = []
            for c_ in range(4):
                Nc = Hh.copy()
                Nc[0, n - 1, c_] += 0.05 * np.max(np.abs(Hh))
                per.append(("non-hermitian:component-%s" % "wxyz"[c_], Nc))
                if c_:
                    Dc = Hh.copy()
                    Dc[n - 1, n - 1, c_] += 0.3 * np.max(np.abs(Hh))
                    per.append(("non-real-diagonal:component-%s" % "wxyz"[c_], Dc))
            for what, M in [("non-hermitian", N), ("non-square", R), ("non-real-diagonal", Dg), ("slightly-non-real-diagonal", Dt)] + per:
                t = rec.new(fn, "guard:" + what, {"n": n, "A": M.tolist()})
                import contextlib
                import io
                # the guard holds in every calling style: defaults, verbose by keyword, verbose positionally
                for style in ((), ("kw",), ("pos",)):
                    try:
                        with contextlib.redirect_stdout(io.StringIO()):
                            if not style:
                                f(q_from_float(M))
                            elif style[0] == "kw":
                                f(q_from_float(M), verbose=True)
                            else:
                                f(q_from_float(M), True)
                        rejected = False
                    except TypeError:
                        rejected = True if not style else None      # the routine has no such option / position: nothing to judge
                    except Exception:
                        rejected = True
                    if rejected is not None:
                        rec.flag(t, "RejectsOutOfDomain", rejected)
    return rec.events, rec.info


def run(ctx, replay=None):
    lib()
    thorough = ctx.tier == "thorough"
    ctx.assumptions += [
        "exact family: A = U diag(lam) U^H with integer lam of either sign; spectrum known exactly (TLC); random Hermitian inputs use eigvalsh of the complex adjoint as oracle",
        "bounds: 1024 units of 2^-52*||A||*size",
    ]
    cl = [c for c in S.classes(ctx, thorough) if c["kind"] == "herm"]
    ctx.exhaustive = True
    recs = par.pmap(_class_job, [(c, ctx.seed) for c in cl])
    recs += par.pmap(_structure_job, [(ctx.seed * 37 + i, thorough) for i in range(6 if thorough else 2)], chunk=1)
    events, info = S.merge(recs)
    S.judge(ctx, events, info)
    ctx.sample({"direction": "F", "class": {k: cl[11][k] for k in ("m", "s", "ui")}, "expected": cl[11]["out"]})
    ctx.sample({"direction": "B", "event": events[5]})
    return "model_checking"
