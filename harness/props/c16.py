"""C16 - Givens QR of Hessenberg matrices and triangular solves are exact building blocks.

M  (Kernels.tla): integer triangular systems with unit-modulus diagonal solved
   exactly by TLC (1..3 right-hand sides, upper and lower), the case analysis of
   the Givens generator on Pythagorean pairs, and all zero patterns of (k+1) x k
   Hessenberg matrices.
F  every state is replayed: triangular systems rescaled by exact powers of two
   (diagonal moduli 2^-20..2^20) through the dense and component-form solvers;
   Givens pairs (also scaled to tiny / huge) through ggivens; Hessenberg patterns
   instantiated with seeded values through Hess_QR_ggivens.
B  the Hessenberg matrices and triangular systems that real Q-GMRES runs produce
   (captured by wrapping the module-level kernels from the harness) and random ones.
"""
import contextlib
import io

import numpy as np

from .. import par
from .. import spectral as S
from ..qlib import lib, q_from_float, q_to_float, omul, oherm, oeye, ofro, units, EPS, f_layout

MCFG = """CONSTANTS MaxK = %d
 MaxRhs = %d
SPECIFICATION Spec
INVARIANT SolutionSolves
CHECK_DEADLOCK FALSE
"""


def comps(F):
    return [np.ascontiguousarray(F[..., c]).copy() for c in range(4)]


def from_a2(M):
    """[A0 A2 A1 A3] real layout -> float quaternion array via the library's own A2A0123"""
    A0, A1, A2, A3 = lib().utils.A2A0123(M)
    return np.stack([A0, A1, A2, A3], axis=-1)


def tri_measure(rec, st, which):
    L = lib()
    T = np.array(st["T"], dtype=float)
    B = np.array(st["B"], dtype=float)
    X = np.array(st["out"]["X"], dtype=float)
    k, nr = B.shape[:2]
    up = st["upper"]
    er = [(-20, 7, 0, 20, -3)[(i + which) % 5] for i in range(k)]
    ec = [(0, -9, 13, 2)[(i + 2 * which) % 4] for i in range(k)] if which % 2 else [0] * k
    Dr = np.array([2.0 ** e for e in er])
    Dc = np.array([2.0 ** e for e in ec])
    Ts = T * Dr[:, None, None] * Dc[None, :, None]
    Bs = B * Dr[:, None, None]
    Xs = X / Dc[:, None, None]
    scale = max(float(np.max(np.abs(Xs))), 1e-300)
    detail = {"T": st["T"], "B": st["B"], "upper": up, "row_exp": er, "col_exp": ec, "rhs": nr}
    fn = "_solve_upper_triangular_quat" if up else "_solve_lower_triangular_quat"
    t = rec.new(fn, "rhs=%d" % nr, detail)
    f = L.solver._solve_upper_triangular_quat if up else L.solver._solve_lower_triangular_quat
    Tq, Bq = q_from_float(Ts), q_from_float(Bs)
    Xg = q_to_float(np.asarray(f(Tq, Bq)))
    rec.eqint(t, "SolutionShape", list(Xg.shape[:2]), [k, nr])
    if list(Xg.shape[:2]) == [k, nr]:
        rec.units(t, "TX_eq_B", units(float(np.max(np.abs(Xg - Xs))), scale, 4 * k * k))
    rec.flag(t, "InputsUnchanged", bool(np.array_equal(q_to_float(Tq), Ts) and np.array_equal(q_to_float(Bq), Bs)))
    if up:
        t = rec.new("UtriangleQsparse", "rhs=%d" % nr, detail)
        try:
            with contextlib.redirect_stdout(io.StringIO()):
                out = L.utils.UtriangleQsparse(*comps(Ts), *comps(Bs))
            Xc = np.stack([np.asarray(o) for o in out], axis=-1)
            ok_shape = list(Xc.shape[:2]) == [k, nr]
            rec.eqint(t, "SolutionShape", list(Xc.shape[:2]), [k, nr])
            if ok_shape:
                rec.units(t, "TX_eq_B", units(float(np.max(np.abs(Xc - Xs))), scale, 4 * k * k))
        except Exception as e:
            rec.flag(t, "SolvesEveryNumberOfRightHandSides", False)
            rec.info[t] = (rec.info[t][0], rec.info[t][1], dict(detail, exception=repr(e)))


def givens_check(rec, cls, detail, x1, x2, t_exact=None):
    u = lib().utils
    t = rec.new("ggivens", cls, detail)
    G = np.asarray(u.ggivens(x1.copy(), x2.copy()))
    rec.eqint(t, "GivensShape", list(G.shape), [8, 8])
    if list(G.shape) != [8, 8]:
        return
    rec.units(t, "GivensUnitary", units(float(np.max(np.abs(G.T @ G - np.eye(8)))), 1.0, 8))
    vec = np.array([x1[0], x2[0], x1[1], x2[1], x1[2], x2[2], x1[3], x2[3]])
    y = G.T @ vec
    nrm = float(np.sqrt(np.sum(x1 * x1) + np.sum(x2 * x2)))
    want = np.zeros(8)
    want[0] = nrm if t_exact is None else t_exact
    rec.units(t, "GivensMapsPairToNormZero", units(float(np.max(np.abs(y - want))), max(nrm, 1e-300), 8))
    # stored rotations (the GMRES pattern): a rotation still held by the caller maps ITS pair after further rotations
    # have been generated for other pairs (no shared work array handed out as the result)
    Graw = u.ggivens(x1.copy(), x2.copy())
    snap = np.array(Graw, dtype=np.float64, copy=True)
    u.ggivens(x2.copy() + 1.0, x1.copy() - 2.0)
    u.ggivens(np.array([0.0, 1.0, 0.0, 0.0]), np.array([0.0, 0.0, 2.0, 0.0]))
    rec.flag(t, "GivensMapsPairToNormZero", bool(np.array_equal(np.asarray(Graw, dtype=np.float64), snap)))


def single_rotation_check(rec, cls, detail, g):
    """GRSGivens (the rotation Hess_QR_ggivens uses for the last column), both calling forms:
    orthogonal, and G^T g is real with modulus |g|"""
    u = lib().utils
    nrm = float(np.sqrt(np.sum(g * g)))
    outs = []
    for form in ("vector", "scalars"):
        t = rec.new("GRSGivens(%s)" % form, cls, detail)
        G = np.asarray(u.GRSGivens(g.copy()) if form == "vector" else u.GRSGivens(float(g[0]), float(g[1]), float(g[2]), float(g[3])))
        rec.eqint(t, "GivensShape", list(G.shape), [4, 4])
        if list(G.shape) != [4, 4]:
            continue
        outs.append(G)
        rec.units(t, "GivensUnitary", units(float(np.max(np.abs(G.T @ G - np.eye(4)))), 1.0, 4))
        y = G.T @ g
        rec.units(t, "SingleRotationMapsToReal", units(max(float(np.max(np.abs(y[1:]))), abs(abs(float(y[0])) - nrm)), max(nrm, 1e-300), 4))
    if len(outs) == 2:
        rec.flag(t, "CallingFormsAgree", bool(np.max(np.abs(outs[0] - outs[1])) <= 1e-13))     # same rotation to rounding


def hess_check(rec, cls, detail, Hf):
    """Hf: float array (k+1, k, 4) upper Hessenberg"""
    u = lib().utils
    k1, k = Hf.shape[:2]
    t = rec.new("Hess_QR_ggivens", cls, detail)
    Hess = np.vstack([Hf[..., c] for c in range(4)]).copy()
    with contextlib.redirect_stdout(io.StringIO()):
        W, R = u.Hess_QR_ggivens(f_layout(Hess, byteorder_only=True))
    Wf, Rf = from_a2(np.asarray(W)), from_a2(np.asarray(R))
    rec.eqint(t, "HessQRShapes", [list(Wf.shape[:2]), list(Rf.shape[:2])], [[k1, k1], [k1, k]])
    if [list(Wf.shape[:2]), list(Rf.shape[:2])] != [[k1, k1], [k1, k]]:
        return
    scale = max(ofro(Hf), 1e-300)
    rec.units(t, "WUnitary", S.unitary_units(Wf))
    low = max([float(np.max(np.abs(Rf[i, j]))) for i in range(k1) for j in range(k) if i > j] + [0.0])
    rec.units(t, "RUpperTriangular", units(low, scale, 4 * k1))
    rec.units(t, "WR_eq_H", units(ofro(omul(Wf, Rf) - Hf), scale, 4 * k1 * k))


def _state_job(args):
    st, seed = args
    rec = S.Rec()
    rng = np.random.default_rng(seed)
    if st["kind"] == "tri":
        for which in range(3):
            tri_measure(rec, st, which)
    elif st["kind"] == "giv":
        x1 = np.array(st["x1"], dtype=float)
        x2 = np.array(st["x2"], dtype=float)
        o = st["out"]
        base = {"x1": st["x1"], "x2": st["x2"], "branch": o["branch"]}
        for e in (0, -70, -40, 40, 300, -300):
            sc = 2.0 ** e
            cls = "pair:%s%s" % (o["branch"], "" if e == 0 else (":tiny" if e < 0 else ":huge"))
            givens_check(rec, cls, dict(base, scaled_by_pow2=e), x1 * sc, x2 * sc, (o["t"] * sc) if o["perfect"] else None)
            for g in (x1, x2, x1 * [1, 0, 0, 1], x2 * [0, 0, 0, 1], x1 * [1, 0, 1, 0], x2 * [-1, 0, 0, 0]):
                zs = "".join("0" if v == 0 else "x" for v in g)
                single_rotation_check(rec, "single:" + zs + ("" if e == 0 else (":tiny" if e < 0 else ":huge")), {"g": list(map(float, g)), "scaled_by_pow2=e": e}, np.asarray(g, dtype=float) * sc)
    else:
        pat = st["pat"]
        k = len(pat)
        H = np.zeros((k + 1, k, 4))
        for c, p in enumerate(pat):
            H[:c, c] = rng.integers(-3, 4, (c, 4))
            if p[0] == "d":
                H[c, c] = rng.integers(1, 4, 4) * rng.choice([-1, 1], 4)
            if p[1] in "ds" and p != "d0" and p != "00":
                H[c + 1, c] = [rng.integers(1, 5), 0, 0, 0]        # Arnoldi sub-diagonals are real
        cls = "pattern:" + ("zero-column" if "00" in pat else ("zero-subdiagonal" if "d0" in pat else ("zero-diagonal" if "0s" in pat else "generic")))
        hess_check(rec, cls, {"pattern": pat, "H": H.tolist()}, H)
        Hq = H.copy()
        for c, p in enumerate(pat):
            if p[1] in "ds" and p not in ("d0", "00"):
                Hq[c + 1, c] = rng.integers(-3, 4, 4)              # general quaternion sub-diagonal
        hess_check(rec, cls + ":quaternion-subdiagonal", {"pattern": pat, "H": Hq.tolist()}, Hq)
        Hp = H.copy()
        for c, p in enumerate(pat):
            if p[1] in "ds" and p not in ("d0", "00"):
                v = rng.integers(-3, 4, 4).astype(float)
                v[0] = 0.0                                         # purely imaginary sub-diagonal (zero real part)
                if not np.any(v):
                    v[1 + c % 3] = 2.0
                Hp[c + 1, c] = v
        hess_check(rec, cls + ":imaginary-subdiagonal", {"pattern": pat, "H": Hp.tolist()}, Hp)
    return rec.events, rec.info


def _captured_job(args):
    """kernel calls made by real Q-GMRES runs (captured by interposition) + random ones"""
    seed, count = args
    rng = np.random.default_rng(seed)
    L = lib()
    rec = S.Rec()
    captured = {"hess": [], "tri": []}
    solver_mod = L.solver
    orig_h, orig_u = solver_mod.Hess_QR_ggivens, solver_mod.UtriangleQsparse

    def wrap_h(Hess):
        captured["hess"].append(np.array(Hess, copy=True))
        return orig_h(Hess)

    def wrap_u(R0, R1, R2, R3, b0, b1, b2, b3, *a, **k):
        captured["tri"].append(([np.array(x, copy=True) for x in (R0, R1, R2, R3)], [np.array(x, copy=True) for x in (b0, b1, b2, b3)]))
        return orig_u(R0, R1, R2, R3, b0, b1, b2, b3, *a, **k)
    solver_mod.Hess_QR_ggivens, solver_mod.UtriangleQsparse = wrap_h, wrap_u
    try:
        for _ in range(count):
            n = int(rng.integers(1, 6))
            A = rng.standard_normal((n, n, 4)) * 10.0 ** rng.integers(-6, 7)
            b = rng.standard_normal((n, 1, 4))
            with contextlib.redirect_stdout(io.StringIO()):
                solver_mod.QGMRESSolver(tol=1e-12).solve(q_from_float(A), q_from_float(b))
    finally:
        solver_mod.Hess_QR_ggivens, solver_mod.UtriangleQsparse = orig_h, orig_u
    for Hs in captured["hess"]:
        k1 = Hs.shape[0] // 4
        Hf = np.stack([Hs[c * k1:(c + 1) * k1] for c in range(4)], axis=-1)
        hess_check(rec, "captured-from-qgmres", {"H": Hf.tolist()}, Hf)
    for (R, bb) in captured["tri"]:
        Tf = np.stack(R, axis=-1)
        Bf = np.stack(bb, axis=-1)
        k = Tf.shape[0]
        t = rec.new("UtriangleQsparse", "captured-from-qgmres", {"T": Tf.tolist(), "B": Bf.tolist()})
        with contextlib.redirect_stdout(io.StringIO()):
            out = L.utils.UtriangleQsparse(*[x.copy() for x in R], *[x.copy() for x in bb])
        Xc = np.stack([np.asarray(o) for o in out], axis=-1)
        res = omul(np.triu(Tf.transpose(2, 0, 1)).transpose(1, 2, 0), Xc) - Bf
        dmin = min(float(np.sqrt(np.sum(Tf[i, i] ** 2))) for i in range(k))
        rec.units(t, "TX_eq_B", units(float(np.max(np.abs(res))), max(ofro(Tf) * float(np.max(np.abs(Xc))), 1e-300), 4 * k * k), loose=True)
    # random Givens pairs and random triangular systems with wide diagonal range, several rhs
    for _ in range(count * 4):
        x1, x2 = rng.standard_normal(4) * 10.0 ** rng.integers(-12, 13), rng.standard_normal(4)
        if rng.random() < 0.2:
            x2[:] = 0
        givens_check(rec, "random-pair", {"x1": x1.tolist(), "x2": x2.tolist()}, x1, x2)
        k, nr = int(rng.integers(1, 6)), int(rng.integers(1, 5))
        for up in (True, False):
            T = rng.standard_normal((k, k, 4))
            T = (np.triu if up else np.tril)(T.transpose(2, 0, 1)).transpose(1, 2, 0).copy()
            for i in range(k):
                T[i, i] = T[i, i] / np.sqrt(np.sum(T[i, i] ** 2)) * 10.0 ** rng.uniform(-6, 6)
            Xt = rng.standard_normal((k, nr, 4))
            Bm = omul(T, Xt)
            f = L.solver._solve_upper_triangular_quat if up else L.solver._solve_lower_triangular_quat
            t = rec.new(f.__name__, "random:rhs=%d" % nr, {"T": T.tolist(), "X": Xt.tolist()})
            Xg = q_to_float(np.asarray(f(q_from_float(T), q_from_float(Bm))))
            # backward error: T Xg - B relative to |T||Xg|
            rec.units(t, "TX_eq_B", units(float(np.max(np.abs(omul(T, Xg) - Bm))), max(float(np.max(np.abs(T))) * float(np.max(np.abs(Xg))), 1e-300), 4 * k * k), loose=True)
            # sparsity patterns of the off-diagonal part: rows without any off-diagonal entry after rows that have some
            # (block diagonal, a decoupled unknown in the middle, random sparse), also through the component-form solve
            k2 = int(rng.integers(3, 9))
            for pat in ("block-diagonal", "decoupled-middle", "random-sparse", "diagonal"):
                M = np.ones((k2, k2), dtype=bool)
                if pat == "block-diagonal":
                    h = k2 // 2
                    M[:h, h:] = M[h:, :h] = False
                elif pat == "decoupled-middle":
                    c = k2 // 2
                    M[c, :] = M[:, c] = False
                elif pat == "random-sparse":
                    M = rng.random((k2, k2)) < 0.3
                else:
                    M[:] = False
                np.fill_diagonal(M, True)
                Tp = rng.standard_normal((k2, k2, 4)) * M[..., None]
                Tp = (np.triu if up else np.tril)(Tp.transpose(2, 0, 1)).transpose(1, 2, 0).copy()
                for i in range(k2):
                    Tp[i, i] = rng.standard_normal(4)
                    Tp[i, i] *= 10.0 ** rng.uniform(-2, 2) / np.sqrt(np.sum(Tp[i, i] ** 2))
                Xp = rng.standard_normal((k2, nr, 4))
                Bp = omul(Tp, Xp)
                t = rec.new(f.__name__, "sparse-pattern:%s" % pat, {"T": Tp.tolist(), "rhs": nr})
                Xg = q_to_float(np.asarray(f(q_from_float(Tp), q_from_float(Bp))))
                rec.units(t, "TX_eq_B", units(float(np.max(np.abs(omul(Tp, Xg) - Bp))), max(float(np.max(np.abs(Tp))) * float(np.max(np.abs(Xg))), 1e-300), 4 * k2 * k2), loose=True)
                if up:
                    t = rec.new("UtriangleQsparse", "sparse-pattern:%s" % pat, {"T": Tp.tolist(), "rhs": nr})
                    with contextlib.redirect_stdout(io.StringIO()):
                        out = L.utils.UtriangleQsparse(*comps(Tp), *comps(Bp.copy()))
                    Xc = np.stack([np.asarray(o).reshape(k2, -1) for o in out], axis=-1)
                    rec.units(t, "TX_eq_B", units(float(np.max(np.abs(omul(Tp, Xc) - Bp))), max(float(np.max(np.abs(Tp))) * float(np.max(np.abs(Xc))), 1e-300), 4 * k2 * k2), loose=True)
    return rec.events, rec.info


def run(ctx, replay=None):
    lib()
    thorough = ctx.tier == "thorough"
    ctx.assumptions += [
        "triangular exact family: unit-modulus diagonal (solution integral, computed by TLC) rescaled by exact powers of two by rows and columns: diagonal moduli 2^-29..2^33; comparison at 1024 units (the code inverts the diagonal in floating point)",
        "Givens: Pythagorean pairs have an integer norm known to TLC; scaled by 2^-300..2^300; unitarity and image bounded at 1024 units",
        "W, R of Hess_QR_ggivens are decoded with the library's own A2A0123 layout, exactly as the solver consumes them",
    ]
    res = ctx.model("Kernels", MCFG % ((4, 4) if thorough else (3, 3)), dump=True)
    done = [s for s in res["states"] if s["pc"] == "done"]
    ctx.exhaustive = True
    recs = par.pmap(_state_job, [(s, ctx.seed * 13 + i) for i, s in enumerate(done)])
    recs += par.pmap(_captured_job, [(ctx.seed * 17 + i, 6) for i in range(16 if thorough else 4)], chunk=1)
    events, info = S.merge(recs)
    S.judge(ctx, events, info)
    ctx.notes["givens_branches"] = sorted({s["out"]["branch"] for s in done if s["kind"] == "giv"})
    ctx.notes["hessenberg_patterns"] = sum(1 for s in done if s["kind"] == "hess")
    tri = [s for s in done if s["kind"] == "tri"][3]
    ctx.sample({"direction": "F", "T": tri["T"], "B": tri["B"], "upper": tri["upper"], "expected_X": tri["out"]["X"]})
    ctx.sample({"direction": "B", "event": events[1]})
    return "model_checking"
