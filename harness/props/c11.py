"""C11 - rank, null spaces and determinants agree with the singular / eigen structure.

F: every class of Spectral.tla (all shapes, all ranks 0..min, repeated values;
   rank, nullities, Dieudonne / Moore determinants computed by TLC) is built
   exactly; rank, quat_null_space (both sides + aliases), det are called and
   compared.  Laws on class pairs: rank(A^H), rank(GAH), det(AB) = det(A)det(B).
B: random float matrices of prescribed rank.
"""
import contextlib
import io
import math

import numpy as np

from .. import par
from .. import spectral as S
from .. import exactfam as E
from ..qlib import lib, q_from_float, q_to_float, omul, oherm, ofro, osvals, units, lg, EPS


def nullspace_measure(rec, cls_deg, detail, A, r):
    u = lib().utils
    m, n = A.shape[:2]
    scale = max(ofro(A), 1e-300)
    Aq = q_from_float(A)
    for side, dim, fn_alias in (("right", n, u.quat_null_right), ("left", m, u.quat_null_left)):
        want = dim - r
        cls = "nullity>=2" if want >= 2 else "nullity<=1"
        t = rec.new("quat_null_space(%s)" % side, cls, dict(detail, side=side))
        N = q_to_float(np.asarray(u.quat_null_space(Aq.copy(), side=side)))
        rec.eqint(t, "NullSpaceDimension", list(N.shape[:2]), [dim, want])
        N2 = q_to_float(np.asarray(fn_alias(Aq.copy())))
        N3 = q_to_float(np.asarray(u.quat_kernel(Aq.copy(), side=side)))
        # the aliases must meet the contract themselves (dimension, annihilation); bit-identity with the main entry
        # point is a mechanism fact (a null-space basis is not unique)
        okal = True
        for Nx in (N2, N3):
            okal = okal and list(Nx.shape[:2]) == [dim, want]
            if okal and want:
                Rz = omul(A, Nx) if side == "right" else omul(oherm(A), Nx)
                okal = okal and ofro(Rz) <= 2.0 ** -30 * max(ofro(A), 1e-300) * max(ofro(Nx), 1e-300)
        rec.flag(t, "AliasesAgree", bool(okal))
        rec.flag(t, "M:AliasesReturnIdenticalArrays", bool(N2.shape == N.shape and N3.shape == N.shape and np.array_equal(N2, N) and np.array_equal(N3, N)))
        if list(N.shape[:2]) != [dim, want] or want == 0:
            continue
        res = omul(A, N) if side == "right" else omul(oherm(N), A)
        rec.units(t, "MapsToZero", units(float(np.max(np.abs(res))), scale * max(1.0, float(np.max(np.abs(N)))), 4 * max(m, n)))
        sv = osvals(N)
        # quaternion-linear independence: smallest singular value of N bounded away from 0
        rec.lgge(t, "ColumnsIndependent", float(sv[-1]), 2.0 ** -10, 0)


def _class_job(args):
    st, salt = args
    u = lib().utils
    rec = S.Rec()
    A, U, V, names = S.build(st, salt)
    m, n = A.shape[:2]
    out = st["out"]
    r = out["rank"]
    detail = {"kind": st["kind"], "shape": [m, n], "s": st["s"], "U": names[0], "V": names[1]}
    Aq = q_from_float(A)
    t = rec.new("rank", "exact", detail)
    rec.eqint(t, "RankIsNumberOfNonzeroSingularValues", int(u.rank(Aq.copy())), r)
    rec.eqint(t, "RankOfConjugateTranspose", int(u.rank(q_from_float(oherm(A)))), r)
    # invertible (non-unitary) factors G, H
    G = omul(E.ulib(m)[-1][1], S.diag_q([1 + (i % 3) for i in range(m)], m, m))
    H = omul(S.diag_q([2 - (i % 2) for i in range(n)], n, n), E.ulib(n)[1 % len(E.ulib(n))][1])
    rec.eqint(t, "RankInvariantUnderInvertible", int(u.rank(q_from_float(omul(omul(G, A), H)))), r)
    e = (-60, 60)[(m + n) % 2]
    rec.eqint(t, "RankScaleInvariant", int(u.rank(q_from_float(A * 2.0 ** e))), r)
    nullspace_measure(rec, None, detail, A, r)
    e2 = (-40, 40)[(m + 2 * n + len(str(st["s"]))) % 2]
    nullspace_measure(rec, None, dict(detail, scaled_by_pow2=e2), A * 2.0 ** e2, r)
    if m == n:
        t = rec.new("det(Dieudonne)", "scaled-" + ("singular" if r < n else "regular"), dict(detail, scaled_by_pow2=e2))
        ds = float(u.det(q_from_float(A * 2.0 ** e2), "Dieudonne"))
        wants = float(out["detD"]) * 2.0 ** (e2 * n)
        tops = float(np.prod([max(v, 1) for v in out["svals"]])) * 2.0 ** (e2 * n) if out["svals"] else 1.0
        rec.units(t, "DieudonneIsProductOfSingularValues", units(abs(ds - wants), tops, 4 * n * n))
    if m == n:
        t = rec.new("det(Dieudonne)", "singular" if r < n else "regular", detail)
        d = float(u.det(Aq.copy(), "Dieudonne"))
        d2 = float(u.det(Aq.copy(), "Dieudonné"))
        want = float(out["detD"])
        top = float(np.prod([max(v, 1) for v in out["svals"]])) if out["svals"] else 1.0
        rec.units(t, "DieudonneIsProductOfSingularValues", units(abs(d - want), top, 4 * n * n))
        rec.flag(t, "DetSpellingsAgree", abs(d - d2) <= 1e-12 * max(abs(d), abs(d2), top * 1e-3))
        rec.flag(t, "ZeroIffSingular", (abs(d) <= 1024 * EPS * top * n * n) == (r < n))
        if st["kind"] == "herm":
            t = rec.new("det(Moore)", "hermitian", detail)
            dm = complex(u.det(Aq.copy(), "Moore"))
            rec.units(t, "MooreIsProductOfEigenvalues", units(abs(dm - float(out["moore"])), top, 4 * n * n))
            rec.flag(t, "IsHermitianTrue", bool(u.ishermitian(Aq.copy())))
            if n >= 2:
                Np = A.copy()
                Np[0, n - 1, 2] += 0.03 * max(1.0, float(np.max(np.abs(A))))
                rec.flag(t, "IsHermitianFalseOnPerturbed", not bool(u.ishermitian(q_from_float(Np))))
                try:
                    with contextlib.redirect_stdout(io.StringIO()):
                        u.det(q_from_float(Np), "Moore")
                    rec.flag(t, "MooreRejectsNonHermitian", False)
                except Exception:
                    rec.flag(t, "MooreRejectsNonHermitian", True)
    return rec.events, rec.info


def _pair_job(args):
    """multiplicativity of the Dieudonne determinant and rank of products on class pairs"""
    pairs, salt = args
    u = lib().utils
    rec = S.Rec()
    for (a, b) in pairs:
        A = S.build(a, salt)[0]
        B = S.build(b, salt + 1)[0]
        n = A.shape[0]
        AB = omul(A, B)
        t = rec.new("det(Dieudonne)", "product", {"sA": a["s"], "sB": b["s"], "n": n})
        dAB = float(u.det(q_from_float(AB), "Dieudonne"))
        want = float(a["out"]["detD"]) * float(b["out"]["detD"])
        top = float(np.prod([max(v, 1) for v in a["out"]["svals"] + b["out"]["svals"]]))
        rec.units(t, "DeterminantMultiplicative", units(abs(dAB - want), top, 8 * n * n))
        # rank of a product with an invertible factor
        if b["out"]["rank"] == n:
            rec.eqint(t, "RankInvariantUnderInvertible", int(u.rank(q_from_float(AB))), a["out"]["rank"])
    return rec.events, rec.info


def _rand_job(args):
    seed, count = args
    rng = np.random.default_rng(seed)
    u = lib().utils
    rec = S.Rec()
    for t_ in range(count):
        m, n = int(rng.integers(1, 7)), int(rng.integers(1, 7))
        k = min(m, n)
        r = int(rng.integers(0, k + 1))
        A = omul(rng.standard_normal((m, r, 4)), rng.standard_normal((r, n, 4))) if r > 0 else np.zeros((m, n, 4))
        A *= 10.0 ** rng.integers(-4, 5)
        detail = {"kind": "random", "shape": [m, n], "rank": r, "A": A.tolist()}
        t = rec.new("rank", "random", detail)
        sv = osvals(A)
        thr = np.finfo(float).eps * max(m, n) * (sv[0] if len(sv) else 0.0)
        if not (len(sv) and np.any((sv > 1e-3 * thr) & (sv < 1e3 * thr))):     # no singular value at the documented threshold
            rec.eqint(t, "RankIsNumberOfNonzeroSingularValues", int(u.rank(q_from_float(A))), int(np.sum(sv > thr)))
        nullspace_measure(rec, None, detail, A, r)
        # GRADED rows / columns (scales 1, 2^-30, 2^-60, ...): the documented rank counts the singular values of the matrix
        # AS GIVEN above eps * max(m, n) * s_max - no row or column equilibration - and is the same for A and A^H
        if min(m, n) >= 2:
            G = rng.standard_normal((m, n, 4))
            for which in ("rows", "columns"):
                Ag = G * ((2.0 ** (-30.0 * np.arange(m)))[:, None, None] if which == "rows" else (2.0 ** (-30.0 * np.arange(n)))[None, :, None])
                svg = osvals(Ag)
                thg = np.finfo(float).eps * max(m, n) * svg[0]
                if np.any((svg > thg / 64) & (svg < thg * 64)):
                    continue
                want = int(np.sum(svg > thg))
                t = rec.new("rank", "graded-" + which, {"kind": "graded", "shape": [m, n], "A": Ag.tolist()})
                rec.eqint(t, "RankIsNumberOfNonzeroSingularValues", int(u.rank(q_from_float(Ag))), want)
                rec.eqint(t, "RankOfConjugateTranspose", int(u.rank(q_from_float(oherm(Ag)))), want)
        if m == n and r == n:
            B = rng.standard_normal((n, n, 4))
            dA = float(u.det(q_from_float(A), "Dieudonne"))
            dB = float(u.det(q_from_float(B), "Dieudonne"))
            dAB = float(u.det(q_from_float(omul(A, B)), "Dieudonne"))
            t = rec.new("det(Dieudonne)", "random-product", detail)
            rec.units(t, "DeterminantMultiplicative", units(abs(dAB - dA * dB), abs(dA * dB) + 1e-300, 64 * n * n))
            rec.units(t, "DieudonneIsProductOfSingularValues", units(abs(dA - float(np.prod(osvals(A)))), abs(dA) + 1e-300, 16 * n * n))
    return rec.events, rec.info


def run(ctx, replay=None):
    lib()
    thorough = ctx.tier == "thorough"
    ctx.assumptions += [
        "exact family: rank, nullities and determinants known exactly from the construction (computed by TLC)",
        "independence of null-space columns: smallest quaternion singular value of the returned basis >= 2^-10 (oracle: complex adjoint)",
        "bounds: 1024 units",
    ]
    cl = S.classes(ctx, thorough)
    ctx.exhaustive = True
    recs = par.pmap(_class_job, [(c, ctx.seed) for c in cl])
    sq = {}
    for c in cl:
        if c["kind"] == "svd" and c["m"] == c["n"] and c["ui"] == 1 and c["vi"] == 1:
            sq.setdefault(c["m"], []).append(c)
    pairs = []
    for n, lst in sq.items():
        for i, a in enumerate(lst):
            for j in (i, (3 * i + 1) % len(lst), (7 * i + 2) % len(lst)):
                pairs.append((a, lst[j]))
    chunks = [pairs[i::16] for i in range(16)]
    recs += par.pmap(_pair_job, [(ch, ctx.seed) for ch in chunks if ch], chunk=1)
    recs += par.pmap(_rand_job, [(ctx.seed * 43 + i, 20) for i in range(24 if thorough else 6)], chunk=1)
    events, info = S.merge(recs)
    S.judge(ctx, events, info)
    # system-level stage: operation sequences explored by TLC on Library.tla (cross-routine rank consistency)
    from .. import libprog
    libprog.stage(ctx, thorough, ctx.seed)
    ctx.sample({"direction": "F", "class": {k: cl[40][k] for k in ("kind", "m", "n", "s")}, "expected": cl[40]["out"]})
    ctx.sample({"direction": "B", "event": events[6]})
    ctx.notes["determinant_pairs"] = len(pairs)
    return "model_checking"
