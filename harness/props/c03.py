"""C03 - Newton-Schulz solvers converge monotonically to the Moore-Penrose inverse.

M  (NewtonSchulz.tla): the scalar recurrences on the 2^-15 grid for every
   spectrum pattern (rank <= 3, repeats, zeros), gamma in {1/4,1/2,3/4,1}, both
   solvers; TLC checks range, monotonicity, E1 non-increase, fixed points.
F/B each (solver, gamma, spectrum) state of M is embedded in several shapes
   (square, tall, wide, rank deficient) with exactly unitary U, V; the real
   solver is run with max_iter = 0..K, every iterate is projected onto the
   singular basis and the trajectory is validated by NewtonSchulzTrace.tla
   (initial scaling, recurrence step by step, history truthfulness, stop rule).
"""
import math

import numpy as np
from scipy import sparse

from .. import par
from .. import exactfam as E
from ..qlib import lib, q_from_float, q_to_float, omul, oherm, oeye, ofro, units, lg

MCFG = """CONSTANTS MaxRank = 3
 SVals = {0, 1, 2, 3, 8}
 Gammas = {1, 2, 3, 4}
 MaxK = %d
SPECIFICATION Spec
INVARIANTS InUnit ZeroStays HistLen HistMonotone
PROPERTIES Monotone OneAttracts
CHECK_DEADLOCK FALSE
"""
TCFG = """CONSTANTS DeltaFx = 6
 DeltaLg = 6
 FloorLg <- FloorV
 OffBound = 4096
 HistSlack = 3
 ErrSlack = 64
INIT TInit
NEXT TNext
INVARIANT Report
CHECK_DEADLOCK FALSE
"""
S = 32768
FLOOR = -2560   # lg(2^-40)


_SPD = __import__("harness.qlib", fromlist=["register_counter"]).register_counter([0])


def _sp(F):
    """the sparse container with the planes stored in float64, or - when the values allow it exactly - float32 / int64
    (cycling): a result is a function of the values, not of the storage dtype"""
    u = lib().utils
    _SPD[0] += 1
    dts = [np.float64] + ([np.float32] if np.array_equal(F.astype(np.float32).astype(np.float64), F) else []) + \
        ([np.int64] if np.array_equal(np.rint(F), F) and np.max(np.abs(F), initial=0.0) < 2 ** 40 else [])
    dt = dts[_SPD[0] % len(dts)]
    return u.SparseQuaternionMatrix(*[sparse.csr_matrix(F[..., c].astype(dt)) for c in range(4)], F.shape[:2])


def solver_obj(solver, gamma, max_iter, tol, compute_residuals=True):
    Sv = lib().solver
    if solver == "damped":
        return Sv.NewtonSchulzPseudoinverse(gamma=gamma, max_iter=max_iter, tol=tol, verbose=False, compute_residuals=compute_residuals)
    return Sv.HigherOrderNewtonSchulzPseudoinverse(max_iter=max_iter, tol=tol, verbose=False)


def project(A, X, U, V, s):
    """t_i = diag(U^H A X U), distance of X from V diag(t/s) U^H in units, E1, covariance"""
    m, n = A.shape[:2]
    AX = omul(A, X)
    M = omul(omul(oherm(U), AX), U)
    k = len(s)
    t = [float(M[i, i, 0]) for i in range(k)]
    D = np.zeros((n, m, 4))
    for i in range(k):
        if s[i] != 0:
            D[i, i, 0] = t[i] / float(s[i])
    Xm = omul(omul(V, D), oherm(U))
    return t, Xm, AX


def _case(args):
    """one (solver, gamma, spectrum, shape) class: trajectory + histories + stop runs -> events"""
    tid, solver, g, s0, shape, K, seed, thorough = args
    m, n = shape
    kmin = min(m, n)
    s = list(s0) + [0] * (kmin - len(s0))
    gamma = g / 4.0
    Us, Vs = E.ulib(m), E.ulib(n)
    U = Us[(3 + tid) % len(Us)][1]
    V = Vs[(4 + 2 * tid) % len(Vs)][1]
    e2 = (0, 8, -8)[tid % 3]
    A = E.usv(U, s, V) * 2.0 ** e2
    ss = [v * 2.0 ** e2 for v in s]
    P = E.pinv_usv(U, s, V) * 2.0 ** (-e2)
    r = sum(1 for v in s if v != 0)
    nrmA = max(ofro(A), 1e-300)
    ev = []
    cls = "%s:%s" % (solver, "zero" if r == 0 else ("rank-deficient" if r < kmin else "full-rank"))
    start = {"tid": tid, "ev": "Start", "solver": solver, "gfx": int(round(gamma * S)),
             "lg1mg": lg(1.0 - gamma) if gamma < 1 else 0, "s": [int(v) for v in s], "shape": [m, n], "K": K, "cls": cls,
             "scaled_by_pow2": e2}
    ev.append(start)
    Aq = q_from_float(A)
    res_hist = None
    cov_hist = None
    Xs = []
    finite = True
    for k in range(0, K + 1):
        out = solver_obj(solver, gamma, k, 0.0).compute(Aq.copy())
        X = q_to_float(np.asarray(out[0]))
        if not np.all(np.isfinite(X)):
            finite = False
            break
        Xs.append(X)
        if k == K:
            res_hist = out[1]
            cov_hist = out[2] if solver == "damped" else None
    if not finite:
        ev.append({"tid": tid, "ev": "Return", "stopped_on_tol": False, "err_lg": 100000, "bound_lg": 0, "expect_converged": False,
                   "conv_bound_lg": 0, "finite": False, "sparse_same": True})
        return ev, {"cls": cls, "s": s, "shape": shape, "gamma": gamma, "solver": solver}
    growth = (1.0 + gamma) if solver == "damped" else 3.0
    for k, X in enumerate(Xs):
        t, Xm, AX = project(A, X, U, V, ss)
        e1 = ofro(omul(AX, A) - A) / nrmA
        noise = growth ** k if r < kmin else 1.0
        ev.append({"tid": tid, "ev": "Iter", "k": k,
                   "t": [int(round(min(max(x, -1.0), 2.0) * S)) for x in t],
                   "lg1mt": [lg(abs(1.0 - x)) for x in t],
                   "model_units": units(ofro(X - Xm), max(ofro(X), 1e-300) * noise, 4 * max(m, n) * (k + 1)),
                   "e1_lg": lg(e1)})
    # histories: residual entry j belongs to iterate j+1, covariance entry j to iterate j
    want_res = K
    for j in range(K):
        Xa = Xs[j + 1]
        AX = omul(A, Xa)
        true_res = ofro(omul(AX, A) - A)
        rep = float(res_hist["AXA-A"][j]) if len(res_hist["AXA-A"]) > j else float("nan")
        e = {"tid": tid, "ev": "Hist", "k": j, "has_res": True, "res_rep_lg": lg(rep / nrmA), "res_true_lg": lg(true_res / nrmA),
             "len_res": len(res_hist["AXA-A"]), "want_res": want_res}
        if cov_hist is not None:
            Xb = Xs[j]
            if m >= n:
                dev = omul(Xb, A) - oeye(n)
            else:
                dev = omul(A, Xb) - oeye(m)
            e.update(cov_rep_lg=lg(float(cov_hist[j]) if len(cov_hist) > j else float("nan")), cov_true_lg=lg(ofro(dev)),
                     len_cov=len(cov_hist), want_cov=K)
        else:
            e.update(cov_rep_lg=0, cov_true_lg=-100000, len_cov=0, want_cov=0)
        ev.append(e)
    # a REUSED solver object: the histories returned by a later call belong to that call only
    obj = solver_obj(solver, gamma, K, 0.0)
    obj.compute(Aq.copy())
    obj.compute(q_from_float(A[: max(1, m - 1), :].copy() if m > 1 else A.copy()))
    out2 = obj.compute(Aq.copy())
    rh2 = out2[1]["AXA-A"]
    ch2 = out2[2] if solver == "damped" else None
    j = K - 1
    if K >= 1:
        Xa = Xs[K]
        true_res = ofro(omul(omul(A, Xa), A) - A)
        e = {"tid": tid, "ev": "Hist", "k": j, "has_res": True, "reused_object": True,
             "res_rep_lg": lg(float(rh2[-1]) / nrmA) if len(rh2) else 100000, "res_true_lg": lg(true_res / nrmA),
             "len_res": len(rh2), "want_res": K}
        if ch2 is not None:
            Xb = Xs[K - 1]
            dev = (omul(Xb, A) - oeye(n)) if m >= n else (omul(A, Xb) - oeye(m))
            e.update(cov_rep_lg=lg(float(ch2[-1])) if len(ch2) else 100000, cov_true_lg=lg(ofro(dev)), len_cov=len(ch2), want_cov=K)
        else:
            e.update(cov_rep_lg=0, cov_true_lg=-100000, len_cov=0, want_cov=0)
        ev.append(e)
    # stop-rule runs
    smin = min([abs(v) for v in ss if v != 0], default=1.0)
    for tol in (1e-3, 1e-7):
        for cr in ((True, False) if solver == "damped" else (True,)):
            if solver == "cubic" and tol <= 0:
                continue
            cap = 300
            out = solver_obj(solver, gamma, cap, tol, cr).compute(Aq.copy())
            X = q_to_float(np.asarray(out[0]))
            fin = bool(np.all(np.isfinite(X)))
            n_it = len(out[2]) if solver == "damped" else len(out[1]["AXA-A"])
            stopped = n_it < cap
            err = ofro(X - P) if fin else float("inf")
            same = True
            if solver == "damped" and cr and tol == 1e-3:
                Xs_ = q_to_float(np.asarray(solver_obj(solver, gamma, cap, tol, cr).compute(_sp(A))[0]))
                same = bool(np.array_equal(Xs_, X))
            rcls = "zero" if r == 0 else ("rank-deficient" if r < kmin else "full-rank")
            ev.append({"tid": tid, "ev": "Return", "tol_lg": lg(tol), "compute_residuals": cr, "iters": n_it,
                       "cls": "%s:%s:%s%s" % (solver, rcls, "residual-stop" if cr else "covariance-stop", ":smin>1" if smin > 1 else ""),
                       "stopped_on_tol": bool(stopped), "err_lg": lg(err), "bound_lg": lg(tol / (smin * smin)),
                       "expect_converged": bool(gamma >= 0.5 and r == kmin and r > 0),
                       "conv_bound_lg": lg(max(tol, 1e-9) * 64 * max(1.0 / smin, 1.0 / (smin * smin)) + 1e-12),
                       "finite": fin, "sparse_same": same})
    return ev, {"cls": cls, "s": s, "shape": shape, "gamma": gamma, "solver": solver, "scaled_by_pow2": e2}


def _rand(args):
    """random float matrices of prescribed rank: trajectory via oracle SVD basis"""
    tid, seed, K = args
    rng = np.random.default_rng(seed)
    m, n = int(rng.integers(1, 6)), int(rng.integers(1, 6))
    kmin = min(m, n)
    # orthonormal factors from the exact library, random positive spectrum (clusters / wide range)
    U = E.ulib(m)[int(rng.integers(0, len(E.ulib(m))))][1]
    V = E.ulib(n)[int(rng.integers(0, len(E.ulib(n))))][1]
    kind = tid % 5
    if kind == 4:
        # gapped: a cluster plus one small singular value (ratio 2^-12): the residual plateaus while the small value converges
        s = sorted([2.0] * max(kmin - 1, 0) + [2.0 ** -11], reverse=True)[:kmin] if kmin > 1 else [1.0]
    elif kind == 0:
        s = sorted(rng.random(kmin) + 0.5, reverse=True)
    elif kind == 1:
        s = sorted([1.0 + 1e-3 * i for i in range(kmin)], reverse=True)           # cluster
    elif kind == 2:
        s = sorted([2.0 ** (-3 * i) for i in range(kmin)], reverse=True)          # wide range
    else:
        s = sorted(list(rng.random(max(kmin - 1, 0)) + 0.5) + [0.0], reverse=True)[:kmin]   # rank deficient
    solver = ("damped", "cubic")[tid % 2]
    gamma = float(rng.choice([0.3, 0.5, 0.8, 1.0])) if solver == "damped" else 1.0
    # overall magnitude: the recurrence is scale free (X scales inversely); exact powers of two
    e2 = ((0, -20, -34, 30) if solver == "damped" else (0, -20, -28, 30))[(tid // 10) % 4]
    s = [v * 2.0 ** e2 for v in s]
    A = E.usv(U, s, V)
    r = sum(1 for v in s if v != 0)
    nrmA = max(ofro(A), 1e-300)
    cls = "%s:random:%s" % (solver, "rank-deficient" if r < kmin else "full-rank")
    ev = [{"tid": tid, "ev": "Start", "solver": solver, "gfx": int(round(gamma * S)), "lg1mg": lg(1.0 - gamma) if gamma < 1 else 0,
           "s": [0] * kmin, "shape": [m, n], "K": K, "cls": cls}]
    tot = sum(v * v for v in s)
    growth = (1.0 + gamma) if solver == "damped" else 3.0
    for k in range(0, K + 1):
        Ain = q_from_float(A)
        if tid % 7 == 3:
            Ain = np.asmatrix(Ain)          # the argument held as a numpy.matrix: the solvers accept it and return the same iterates
        X = q_to_float(np.asarray(solver_obj(solver, gamma, k, 0.0).compute(Ain)[0]))
        t, Xm, AX = project(A, X, U, V, s)
        # model trajectory computed by the harness in floating point (non-integer s: TLC checks structure + bounds)
        tm = [(v * v / tot) if tot > 0 else 0.0 for v in s]
        for _ in range(k):
            tm = [x * (1 + gamma * (1 - x)) if solver == "damped" else 1 - (1 - x) ** 3 for x in tm]
        dev = max([abs(a - b) for a, b in zip(t, tm)] + [0.0])
        noise = growth ** k if r < kmin else 1.0
        ev.append({"tid": tid, "ev": "Iter", "k": k, "t": [0] * kmin, "lg1mt": [0] * kmin,
                   "model_units": max(units(ofro(X - Xm), max(ofro(X), 1e-300) * noise, 4 * max(m, n) * (k + 1)),
                                      units(dev, noise, 64 * (k + 1) * max(1.0, (s[0] / min([v for v in s if v > 0], default=1.0)) ** 2)) if True else 0),
                   # below the rounding level eps * cond(A) of forming A X A the residual is noise: reported as zero
                   "e1_lg": (lambda e_: lg(e_) if e_ > 2.0 ** -46 * (max(s) / min([v for v in s if v > 0], default=1.0)) else -100000)(ofro(omul(AX, A) - A) / nrmA)})
    return ev, {"cls": cls, "s": list(map(float, s)), "shape": [m, n], "gamma": gamma, "solver": solver}


def _documented(args):
    """the library's own documented inputs: Example 5.2 of Huang-Wang-Zhang (data_gen.small_test_Mat with its
    published pseudoinverse) and matrices from data_gen.create_test_matrix (all options), through both solvers
    with constructor DEFAULTS and with explicit settings; expectation = oracle pseudoinverse (complex adjoint)"""
    tid, seed = args
    from ..qlib import opinv, osvals
    L = lib()
    dg, Sv = L.data_gen, L.solver
    rng = np.random.default_rng(seed)
    ins = [("example-5.2", q_to_float(dg.small_test_Mat()))]
    np.random.seed(seed)
    ins.append(("create_test_matrix", q_to_float(dg.create_test_matrix(4, 3))))
    ins.append(("create_test_matrix:rank", q_to_float(dg.create_test_matrix(5, 4, rank=2))))
    ins.append(("create_test_matrix:cond", q_to_float(dg.create_test_matrix(4, 4, cond_number=50.0))))
    ins.append(("create_sparse_quat_matrix", None))
    ev = []
    first = None
    for name, A in ins:
        if A is None:
            try:
                Sq = dg.create_sparse_quat_matrix(5, 4, density=0.6)
                A = np.stack([Sq.real.toarray(), Sq.i.toarray(), Sq.j.toarray(), Sq.k.toarray()], axis=-1)
            except Exception:
                continue
        sv = osvals(A)
        r = int(np.sum(sv > 1e-10 * max(sv[0], 1e-300)))
        smin = float(sv[r - 1]) if r else 1.0
        P = opinv(A)
        if name == "example-5.2":
            Pdoc = q_to_float(dg.theoretical_pseudoinverse_example_5_2())
            ev.append({"tid": tid, "ev": "Return", "tol_lg": 0, "compute_residuals": True, "iters": 0, "cls": "documented:example-5.2:published-pseudoinverse",
                       "stopped_on_tol": False, "err_lg": lg(ofro(Pdoc - P)), "bound_lg": 0, "expect_converged": True, "conv_bound_lg": lg(1e-12),
                       "finite": True, "sparse_same": True})
        full = r == min(A.shape[:2])
        for label, obj in (("damped:defaults", Sv.NewtonSchulzPseudoinverse()), ("cubic:defaults", Sv.HigherOrderNewtonSchulzPseudoinverse()),
                           ("damped:gamma0.5", Sv.NewtonSchulzPseudoinverse(gamma=0.5, max_iter=300, tol=1e-9)),
                           ("damped:noresiduals", Sv.NewtonSchulzPseudoinverse(gamma=1.0, max_iter=300, tol=1e-9, compute_residuals=False)),
                           ("cubic:tol", Sv.HigherOrderNewtonSchulzPseudoinverse(max_iter=60, tol=1e-9))):
            import contextlib
            import io
            with contextlib.redirect_stdout(io.StringIO()):
                out = obj.compute(q_from_float(A))
            X = q_to_float(np.asarray(out[0]))
            fin = bool(np.all(np.isfinite(X)))
            tol = float(getattr(obj, "tol", 1e-9) or 1e-9)
            ev.append({"tid": tid, "ev": "Return", "tol_lg": lg(tol), "compute_residuals": True, "iters": 0,
                       "cls": "documented:%s:%s" % (name, label), "stopped_on_tol": False,
                       "err_lg": lg(ofro(X - P)) if fin else 100000, "bound_lg": 0,
                       "expect_converged": bool(full), "conv_bound_lg": lg(max(tol, 1e-9) * 64 * max(1.0 / smin, 1.0 / (smin * smin)) + 1e-12),
                       "finite": fin if full else True, "sparse_same": True})
    return ev, {"cls": "documented", "s": [], "shape": [], "gamma": 1.0, "solver": "damped", "inputs": [n for n, _ in ins]}


RETURN_CLAUSES = ("StopOnTolIsAccurate", "ConvergesToPinv", "Finite", "SparseSameAsDense")


def _ret_fails(e, clause):
    """which Return event of a run failed the clause (same predicates as NewtonSchulzTrace.tla)"""
    if clause == "Finite":
        return not e["finite"]
    if clause == "SparseSameAsDense":
        return not e["sparse_same"]
    if clause == "StopOnTolIsAccurate":
        return e["stopped_on_tol"] and e["err_lg"] > e["bound_lg"] + 64 and e["err_lg"] > FLOOR
    if clause == "ConvergesToPinv":
        return e["expect_converged"] and e["err_lg"] > e["conv_bound_lg"]
    return False


def run(ctx, replay=None):
    lib()
    ctx.notes["reflectors_certified_by_TLC"] = E.check_against_tlc(ctx)
    thorough = ctx.tier == "thorough"
    K = 24 if thorough else 10
    ctx.assumptions += [
        "projection onto the singular basis uses the constructed exactly unitary U, V; t_i is read from diag(U^H A X U)",
        "fixed-point slack 6 units of 2^-15 per step, 6 Lg units per step of the logarithmic law, floor 2^-40; model distance <= 4096 units (growth-aware (1+gamma)^k resp. 3^k on rank-deficient inputs, where round-off in the null space is amplified)",
        "trajectories are checked for k <= %d; 'tends to' beyond that only through the stop-rule runs (cap 300)" % K,
        "HigherOrderNewtonSchulz regularises ||A||_F^2 + 1e-30: inputs with ||A||_F^2 < ~1e-24 are outside the claim",
    ]
    res = ctx.model("NewtonSchulz", MCFG % 12, dump=True)
    inits = [s for s in res["states"] if s["k"] == 0 and s["pc"] == "iter"]
    jobs = []
    tid = 0
    for st in inits:
        s0 = st["s"]
        r = len(s0)
        shapes = [(max(r, 1), max(r, 1)), (r + 1, max(r, 1)), (max(r, 1), r + 2)]
        if not thorough:
            shapes = [shapes[(len(jobs) + r) % 3]] + ([(r + 1, r + 1)] if (len(jobs) % 4 == 0) else [])
        else:
            shapes.append((r + 1, r + 1))
        for sh in shapes:
            tid += 1
            jobs.append((tid, st["solver"], st["g"], s0, sh, K, ctx.seed, thorough))
    ctx.exhaustive = True
    outs = par.pmap(_case, jobs)
    nr = 200 if thorough else 32
    outs += par.pmap(_rand, [(100000 + i, ctx.seed * 101 + i, K) for i in range(nr)])
    outs += par.pmap(_documented, [(200000 + i, ctx.seed * 7 + i) for i in range(4 if thorough else 2)], chunk=1)
    events = []
    meta = {}
    for ev, info in outs:
        events += ev
        meta[ev[0]["tid"]] = info
    bad = ctx.trace("NewtonSchulzTrace", events, TCFG, timeout=1800)
    seen = set()
    for tid_, clause in bad:
        info = meta[tid_]
        if clause.startswith("M:"):
            ctx.drift.append("%s %s" % (clause, info["cls"]))
            continue
        key = (tid_, clause)
        if key in seen:
            continue
        seen.add(key)
        fn = "NewtonSchulzPseudoinverse.compute" if info["solver"] == "damped" else "HigherOrderNewtonSchulzPseudoinverse.compute"
        evs = [e for e in events if e["tid"] == tid_][:4]
        cls = info["cls"]
        if clause in RETURN_CLAUSES:
            rets = [e for e in events if e["tid"] == tid_ and e["ev"] == "Return" and _ret_fails(e, clause)]
            for e in rets:
                ctx.fail(fn, clause, e.get("cls", cls), dict(info, return_event=e))
            continue
        ctx.fail(fn, clause, cls, dict(info, first_events=evs))
    for tid_ in meta:
        ctx.case((tid_,))
    ctx.replays = sum(1 for e in events if e["ev"] in ("Iter", "Return"))
    for c in ("Recurrence", "InitialScaling", "ResidualHistoryTruthful", "StopOnTolIsAccurate"):
        ctx.count(c, sum(1 for e in events if e["ev"] == {"Recurrence": "Iter", "InitialScaling": "Start", "ResidualHistoryTruthful": "Hist", "StopOnTolIsAccurate": "Return"}[c]))
    ctx.sample({"direction": "F/B", "trace_head": events[:4]})
    # growth of the system specification: the deep-linear solver, whose inner calls are real-use inputs of this property
    from .. import deeplinear
    deeplinear.stage(ctx, quick=not thorough)
    return "model_checking"
