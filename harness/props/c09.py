"""C09 - Hessenberg reduction is a unitary similarity to upper Hessenberg form.

F: square classes of Spectral.tla (svd and Hermitian kinds, exact, with known
   ||A||_F^2 and trace invariants from TLC) plus structure classes: already
   Hessenberg, triangular, Hermitian, zero column, integer / 0-1 / permutation
   patterns with zero sub-diagonal entries, scaled replicas.
B: random Gaussian matrices n = 1..7.
Contract: P unitary, H = P A P^H, entries below the first sub-diagonal
negligible, hence ||H||_F = ||A||_F and (Hermitian classes) trace invariants.
"""
import numpy as np

from .. import par
from .. import spectral as S
from .. import exactfam as E
from ..qlib import lib, q_from_float, q_to_float, omul, oherm, ofro, units, EPS


def measure(rec, cls, detail, A, fro2=None, trace=None, pow2=0):
    """pow2: the library is given A * 2^pow2 and its H is scaled back by 2^-pow2 (both exact) before judging, so that
    magnitudes at which the ORACLE's own squares would underflow can be judged too"""
    L = lib()
    n = A.shape[0]
    t = rec.new("hessenbergize", cls, detail)
    A0 = A.copy()
    Aq_ = q_from_float(A * 2.0 ** pow2)
    Pq, Hq = L.hess.hessenbergize(Aq_)
    Pf, Hf = q_to_float(np.asarray(Pq)), q_to_float(np.asarray(Hq)) * 2.0 ** -pow2
    A0 = q_to_float(Aq_) * 2.0 ** -pow2          # the matrix the caller holds AFTER the call is the one the contract speaks of
    rec.eqint(t, "Shapes", [list(Pf.shape[:2]), list(Hf.shape[:2])], [[n, n], [n, n]])
    if list(Pf.shape[:2]) != [n, n] or list(Hf.shape[:2]) != [n, n]:
        return
    scale = max(ofro(A0), 1e-300)
    rec.units(t, "UnitaryP", S.unitary_units(Pf))
    rec.units(t, "H_eq_PAPh", units(ofro(omul(omul(Pf, A0), oherm(Pf)) - Hf), scale, 4 * n * n))
    low = 0.0
    for i in range(n):
        for j in range(n):
            if i > j + 1:
                low = max(low, float(np.sqrt(np.sum(Hf[i, j] ** 2))))
    rec.units(t, "UpperHessenberg", units(low, scale, 4 * n * n))
    rec.units(t, "FrobeniusPreserved", units(abs(ofro(Hf) - ofro(A0)), scale, 4 * n * n))
    if fro2 is not None:
        rec.units(t, "FrobeniusIsKnown", units(abs(ofro(Hf) ** 2 - fro2), max(fro2, 1e-300), 8 * n * n))
    if trace is not None:
        tr = float(sum(Hf[i, i, 0] for i in range(n)))
        rec.units(t, "TracePreserved", units(abs(tr - trace), scale, 4 * n * n))
    # call history: the caller works IN PLACE on what it was given back (shift on H, rotations folded into P), then reduces
    # an equal matrix again - the second answer must again satisfy the contract for A
    if n >= 2 and not detail.get("second_call"):
        try:
            Hq -= Hq[0, 0] * 0 + 3.0
            Pq[0, :] = Pq[0, :] * 2.0
        except Exception:
            pass
        P2q, H2q = L.hess.hessenbergize(q_from_float(A0 * 2.0 ** pow2))
        P2, H2 = q_to_float(np.asarray(P2q)), q_to_float(np.asarray(H2q)) * 2.0 ** -pow2
        t2 = rec.new("hessenbergize", cls + ":after-caller-overwrote-result", dict(detail, second_call=True))
        if list(P2.shape[:2]) == [n, n] and list(H2.shape[:2]) == [n, n]:
            rec.units(t2, "UnitaryP", S.unitary_units(P2))
            rec.units(t2, "H_eq_PAPh", units(ofro(omul(omul(P2, A0), oherm(P2)) - H2), scale, 4 * n * n))


def _class_job(args):
    st, salt = args
    rec = S.Rec()
    A, U, V, names = S.build(st, salt)
    detail = {"kind": st["kind"], "n": st["m"], "s": st["s"], "U": names[0], "V": names[1]}
    herm = st["kind"] == "herm"
    measure(rec, "exact-" + st["kind"], detail, A, fro2=float(st["out"]["fro2"]),
            trace=float(st["out"]["trace"]) if herm else None)
    e = (-100, 100)[(st["m"] + len(str(st["s"]))) % 2]
    measure(rec, "exact-" + st["kind"] + "-scaled", dict(detail, scaled_by_pow2=e), A * 2.0 ** e,
            fro2=float(st["out"]["fro2"]) * 4.0 ** e)
    return rec.events, rec.info


def _structure_job(args):
    seed, thorough = args
    rng = np.random.default_rng(seed)
    rec = S.Rec()
    for n in range(1, 7):
        G = rng.integers(-3, 4, (n, n, 4)).astype(float)
        measure(rec, "integer-dense", {"A": G.tolist()}, G)
        Hs = G.copy()
        for i in range(n):
            for j in range(n):
                if i > j + 1:
                    Hs[i, j] = 0
        measure(rec, "already-hessenberg", {"A": Hs.tolist()}, Hs)
        T = G.copy()
        for i in range(n):
            for j in range(i):
                T[i, j] = 0
        measure(rec, "triangular", {"A": T.tolist()}, T)
        measure(rec, "hermitian", {"A": (G + oherm(G)).tolist()}, G + oherm(G), trace=float(2 * sum(G[i, i, 0] for i in range(n))))
        if n >= 3:
            # nearly (but not) Hermitian: a unitary similarity must keep the non-Hermitian part
            Hn = (G + oherm(G)) * 1.0
            Hn[0, n - 1] += np.array([0.0, 3e-7, -2e-7, 1e-7]) * float(np.max(np.abs(Hn)))
            measure(rec, "nearly-hermitian", {"A": Hn.tolist()}, Hn)
            Hf = rng.standard_normal((n, n, 4))
            Hf = Hf + oherm(Hf)
            lowtri = np.tril(np.ones((n, n)), -1)[:, :, None]
            Hf32 = Hf * (1 - lowtri) + Hf.astype(np.float32).astype(np.float64) * lowtri   # one triangle rounded to float32
            measure(rec, "nearly-hermitian", {"A": Hf32.tolist(), "how": "lower triangle rounded to float32"}, Hf32)
        Z = G.copy()
        Z[:, 0] = 0
        measure(rec, "zero-column", {"A": Z.tolist()}, Z)
        measure(rec, "zero-matrix", {"n": n}, np.zeros((n, n, 4)))
        if n >= 3:
            # zero sub-diagonal entry with non-zeros beneath it, at every elimination step
            for k in range(n - 2):
                S0 = G.copy()
                S0[k + 1, k] = 0
                measure(rec, "zero-subdiagonal-entry", {"A": S0.tolist(), "step": k}, S0)
            B01 = (rng.random((n, n)) < 0.4).astype(float)
            B = np.zeros((n, n, 4))
            B[..., 0] = B01
            B[1, 0] = 0
            B[2:, 0, 0] = 1
            measure(rec, "zero-one-pattern", {"A": B.tolist()}, B)
            measure(rec, "permutation-like", {"which": "mono:rev"}, E.ulib(n)[2][1])
            measure(rec, "permutation-like", {"which": "mono:cyc"}, E.ulib(n)[1][1])
            # sparsity patterns whose zero columns are filled in by EARLIER reflectors: arrow, zero interior column,
            # full first column + banded rest, upper-left-justified block
            if n >= 4:
                Ar = np.zeros((n, n, 4))
                Ar[0, :], Ar[:, 0] = G[0, :], G[:, 0]
                for i in range(n):
                    Ar[i, i] = G[i, i]
                measure(rec, "fill-in-pattern", {"which": "arrow", "A": Ar.tolist()}, Ar)
                for kz in range(1, n - 2):
                    Zi = G.copy()
                    Zi[kz + 2:, kz] = 0
                    measure(rec, "fill-in-pattern", {"which": "interior column %d zero below the sub-diagonal" % kz, "A": Zi.tolist()}, Zi)
                Bd = np.zeros((n, n, 4))
                for i in range(n):
                    for j in range(n):
                        if abs(i - j) <= 1 or j == 0:
                            Bd[i, j] = G[i, j]
                measure(rec, "fill-in-pattern", {"which": "full first column, tridiagonal rest", "A": Bd.tolist()}, Bd)
            # a sub-column whose entries are so small that their SQUARES underflow (graded matrices, outputs of
            # earlier reductions): the reflector must still be unitary
            for e_ in (-530, -520, -1072):
                Dn = G.copy()
                Dn[1:, 0] *= 2.0 ** e_
                measure(rec, "underflow-subcolumn", {"A": "G with column 0 below the diagonal scaled by 2^%d" % e_, "n": n}, Dn)
            # the WHOLE matrix that small (every modulus formed anywhere in the reduction is affected)
            for e_ in (-520, -540, -560, -700, -1000):
                measure(rec, "underflow-uniform", {"A": "G * 2^%d" % e_, "n": n}, G, pow2=e_)
            # only the PIVOT entry of the sub-column (the one the reflector maps the column onto) is that small while
            # the rest of the column is O(1): its modulus must not be formed from squared components either
            for e_ in (-20, -27, -30, -34, -40, -46, -60, -505, -512, -520, -530, -536, -540, -545, -1074):
                Dp = G.copy()
                Dp[1, 0] *= 2.0 ** e_
                if n >= 4 and e_ % 2:
                    Dp[2, 1] *= 2.0 ** e_
                measure(rec, "underflow-pivot" if e_ < -100 else "small-pivot", {"A": "G with entry (1,0) scaled by 2^%d" % e_, "n": n}, Dp)
            # pure imaginary / single axis sub-column
            Pm = G.copy()
            Pm[1:, 0, 0] = 0
            measure(rec, "imaginary-subcolumn", {"A": Pm.tolist()}, Pm)
    # block structures: columns that stay exactly zero below the sub-diagonal while reduced columns precede AND follow them
    for blocks in ((3, 3), (3, 4), (4, 3), (2, 5)) + (((5, 4), (3, 3, 3)) if thorough else ()):
        n = sum(blocks)
        G = rng.standard_normal((n, n, 4))
        off = np.cumsum((0,) + blocks)
        BT = np.zeros((n, n, 4))
        BD = np.zeros((n, n, 4))
        for bi in range(len(blocks)):
            r0, r1 = off[bi], off[bi + 1]
            BD[r0:r1, r0:r1] = G[r0:r1, r0:r1]
            BT[r0:r1, r0:] = G[r0:r1, r0:]
        measure(rec, "block-structure", {"which": "block upper triangular", "blocks": list(blocks), "A": BT.tolist()}, BT)
        measure(rec, "block-structure", {"which": "block diagonal", "blocks": list(blocks), "A": BD.tolist()}, BD)
        measure(rec, "block-structure", {"which": "block lower triangular", "blocks": list(blocks)}, np.transpose(BT, (1, 0, 2)).copy())
    for _ in range(40 if thorough else 8):
        n = int(rng.integers(1, 8))
        A = rng.standard_normal((n, n, 4)) * 10.0 ** rng.integers(-8, 9)
        measure(rec, "gaussian", {"A": A.tolist()}, A)
    return rec.events, rec.info


def run(ctx, replay=None):
    lib()
    thorough = ctx.tier == "thorough"
    ctx.assumptions += ["bounds: 1024 units of 2^-52*||A||_F*size; entries below the first sub-diagonal must be below that bound (exact zeros accepted)"]
    cl = [c for c in S.classes(ctx, thorough) if c["m"] == c["n"]]
    ctx.exhaustive = True
    recs = par.pmap(_class_job, [(c, ctx.seed) for c in cl])
    recs += par.pmap(_structure_job, [(ctx.seed * 41 + i, thorough) for i in range(6 if thorough else 2)], chunk=1)
    events, info = S.merge(recs)
    S.judge(ctx, events, info)
    ctx.sample({"direction": "F", "class": {k: cl[9][k] for k in ("kind", "m", "s", "ui", "vi")}, "fro2": cl[9]["out"]["fro2"]})
    ctx.sample({"direction": "B", "event": events[4]})
    return "model_checking"
