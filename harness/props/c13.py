"""C13 - sketch-and-project, hybrid and CGNE solvers never flag a wrong inverse converged.

M  (SketchSolvers.tla): draw / micro-solve (qr, spd-cg, ns-fallback, failed-skip)
   / update / hyperpower / stop machine; TLC checks that the flag, the iteration
   count and the last history entry are functions of the history and describe
   the RETURNED iterate.
F/B configurations x shapes x prescribed condition numbers x seeds are run on the
   real solvers with the drawn sketches recorded (numpy.random.randn wrapped from
   the harness); the proxy of the returned X is recomputed from the recorded test
   sketch, the true residual and the distance to the constructed pseudoinverse
   are measured, and SketchTrace.tla judges the run.
"""
import contextlib
import copy
import io
import math

import numpy as np

from .. import par
from .. import exactfam as E
from ..qlib import lib, q_from_float, q_to_float, omul, oherm, oeye, ofro, lg

MCFG = """CONSTANTS MaxIter = 4
 Levels = 2
SPECIFICATION Spec
INVARIANTS FlagIsLastBelowTol HistoryOfReturnedIterate ConvergedSound ItersIsHistLen
PROPERTY SkippedLeavesStateUnchanged
CHECK_DEADLOCK FALSE
"""
TCFG = """CONSTANTS LgK = 384
 HistSlack = 3
INIT TInit
NEXT TNext
INVARIANT Report
CHECK_DEADLOCK FALSE
"""


def problem(m, n, cond, seed):
    rng = np.random.default_rng(seed)
    k = min(m, n)
    U = E.ulib(m)[int(rng.integers(0, len(E.ulib(m))))][1]
    V = E.ulib(n)[int(rng.integers(0, len(E.ulib(n))))][1]
    s = [cond ** (-i / max(k - 1, 1)) for i in range(k)]
    sc = 2.0 ** ((0, -30, 20)[seed % 3])          # exact power-of-two scaling: the pseudoinverse scales by 1/sc
    s = [x * sc for x in s]
    A = E.usv(U, s, V)
    P = E.pinv_usv(U, s, V)
    return A, P, s


class Recorder:
    """wraps numpy.random.randn for the duration of a call"""

    def __init__(self):
        self.draws = []

    def __enter__(self):
        self.orig = np.random.randn

        def rec(*shape):
            x = self.orig(*shape)
            self.draws.append(np.array(x, copy=True))
            return x
        np.random.randn = rec
        return self

    def __exit__(self, *a):
        np.random.randn = self.orig


def _run(args):
    tid, kind, cfg, shape, cond, tol, seed = args
    Sv = lib().solver
    m, n = shape
    A, P, s = problem(m, n, cond, seed)
    Aq = q_from_float(A)
    np.random.seed(seed)
    if kind == "rsp":
        obj = Sv.RandomizedSketchProjectPseudoinverse(block_size=cfg["block"], max_iter=cfg["max_iter"], tol=tol,
                                                      column_solver=cfg["solver"], seed=cfg.get("seed"), **({} if cfg.get("test") == "default" else {"test_sketch_size": cfg.get("test", 4)}))
        call = obj.compute
    elif kind == "rsp_col":
        obj = Sv.RandomizedSketchProjectPseudoinverse(block_size=cfg["block"], max_iter=cfg["max_iter"], tol=tol,
                                                      column_solver=cfg["solver"], seed=cfg.get("seed"), **({} if cfg.get("test") == "default" else {"test_sketch_size": cfg.get("test", 4)}))
        call = obj.compute_column_variant
    elif kind == "rsp_row":
        obj = Sv.RandomizedSketchProjectPseudoinverse(block_size=cfg["block"], max_iter=cfg["max_iter"], tol=tol, seed=cfg.get("seed"), **({} if cfg.get("test") == "default" else {"test_sketch_size": cfg.get("test", 4)}))
        call = obj.compute_row_variant
    elif kind == "hybrid":
        obj = Sv.HybridRSPNewtonSchulz(r=cfg["block"], p=cfg["p"], T=cfg["T"], tol=tol, max_iter=cfg["max_iter"], column_solver=cfg["solver"], seed=cfg.get("seed"))
        call = obj.compute
    else:
        pr = cfg.get("prec", 0)
        obj = Sv.CGNEQSolver(tol=tol, max_iter=cfg["max_iter"], preconditioner_rank=(n if pr == "n" else pr), seed=cfg.get("pseed"))
        call = obj.compute
    from .c14 import snap_value, _same_dict
    before = {k_: snap_value(v_) for k_, v_ in vars(obj).items()}
    # ---- observe (and optionally fault-inject) the micro-solvers by wrapping them from the harness
    micro = {"spd_ok": 0, "spd_fail": 0, "ns_fallback": 0, "qr": 0, "qr_raise": 0}
    RSP = Sv.RandomizedSketchProjectPseudoinverse
    orig_spd, orig_inv = RSP._solve_spd_quat, RSP._invert_quat_small
    import decomp.qsvd as _qsvd_flat
    inj = cfg.get("inject", {})
    calls = {"spd": 0, "qr": 0}

    def w_spd(self_, G, B, tol=1e-8, max_iter=200):
        calls["spd"] += 1
        Z, ok = orig_spd(self_, G, B, tol=tol, max_iter=max_iter)
        if inj.get("spd_fail_every") and calls["spd"] % inj["spd_fail_every"] == 0:
            ok = False                                   # injected fault: the CG micro-solver reports failure
        micro["spd_ok" if ok else "spd_fail"] += 1
        return Z, ok

    def w_inv(self_, G, ns_iters=12):
        micro["ns_fallback"] += 1
        return orig_inv(self_, G, ns_iters=ns_iters)
    RSP._solve_spd_quat, RSP._invert_quat_small = w_spd, w_inv
    qr_mods = []
    import importlib as _il
    try:
        _il.import_module("quatica.decomp.qsvd")       # the solvers import qr_qua from the package copy at call time
    except Exception:
        pass
    for modname in ("quatica.decomp.qsvd", "decomp.qsvd"):
        import sys as _sys
        mod = _sys.modules.get(modname)
        if mod is not None and hasattr(mod, "qr_qua"):
            qr_mods.append((mod, mod.qr_qua))

    def make_qr(orig_qr):
        def w_qr(Y):
            calls["qr"] += 1
            if inj.get("qr_raise_every") and calls["qr"] % inj["qr_raise_every"] == 0:
                micro["qr_raise"] += 1
                raise np.linalg.LinAlgError("injected QR failure")
            micro["qr"] += 1
            return orig_qr(Y)
        return w_qr
    if kind in ("rsp", "rsp_col", "hybrid") and cfg.get("solver") == "qr":
        for mod, oq in qr_mods:
            mod.qr_qua = make_qr(oq)
    if cfg.get("warm"):
        # call history: the same object has just solved a NEARBY problem of the same shape
        rngw = np.random.default_rng(seed + 4242)
        with contextlib.redirect_stdout(io.StringIO()):
            np.random.seed(seed + 1)
            call(q_from_float(A + 0.02 * ofro(A) / math.sqrt(m * n * 4) * rngw.standard_normal(A.shape)))
        for k_ in micro:
            micro[k_] = 0              # the observation counters describe the measured call only
        calls.update(spd=0, qr=0)
    if cfg.get("seed") is None or cfg.get("warm"):
        np.random.seed(seed)
    # (a solver constructed with its own seed= is called straight after construction, like a user would: the global
    # generator is in the state the constructor left it in)
    try:
        with Recorder() as rec, contextlib.redirect_stdout(io.StringIO()):
            X, info = call(Aq)
    finally:
        RSP._solve_spd_quat, RSP._invert_quat_small = orig_spd, orig_inv
        for mod, oq in qr_mods:
            mod.qr_qua = oq
    after = {k_: snap_value(v_) for k_, v_ in vars(obj).items()}
    Xf = q_to_float(np.asarray(X))
    fin = bool(np.all(np.isfinite(Xf)))
    hist = [float(x) for x in info.get("residual_norms", [])]
    iters = int(info.get("iterations", info.get("iterations_rsp", len(hist))))
    if kind == "hybrid":
        iters = len(hist)          # hybrid reports RSP steps separately; history length is its iteration record
    left = m >= n
    if fin:
        dev = (omul(Xf, A) - oeye(n)) if left else (omul(A, Xf) - oeye(m))
        true_res = ofro(dev) / math.sqrt(n if left else m)
        dist = ofro(Xf - P) / max(ofro(P), 1e-300)
    else:
        true_res = dist = float("inf")
    # proxy of the RETURNED iterate from the recorded test sketch (first four draws of the call)
    proxy_known = False
    proxy_true = float("nan")
    if kind != "cgne" and len(rec.draws) >= 4 and fin:
        comps = rec.draws[:4]
        if all(c.shape == comps[0].shape for c in comps):
            Pi = np.stack(comps, axis=-1)
            rows = n if left else m
            if Pi.shape[0] == rows:
                if left:
                    proxy_true = ofro(Pi - omul(Xf, omul(A, Pi))) / max(ofro(Pi), 1e-30)
                else:
                    proxy_true = ofro(Pi - omul(A, omul(Xf, Pi))) / max(ofro(Pi), 1e-30)
                proxy_known = True
    if kind == "cgne" and fin:
        proxy_true = true_res
        proxy_known = False       # CGNE's history is a recursively updated residual; judged through ConvergedSound
    e = {"tid": tid, "solver": kind, "cfg": {k: v for k, v in cfg.items()}, "shape": [m, n], "cond_lg": lg(cond), "tol_lg": lg(tol),
         "finite": fin, "converged": bool(info.get("converged", False)), "iters": iters, "hist_len": len(hist),
         "last_le_tol": bool(hist and hist[-1] <= tol), "last_lg": lg(hist[-1]) if hist else -100000,
         "proxy_known": bool(proxy_known), "proxy_true_lg": lg(proxy_true) if proxy_known else 0,
         "true_res_lg": lg(true_res), "dist_lg": lg(dist),
         "expect_converge": bool(kind == "cgne" and cfg.get("prec", 0) in (0,) and cond <= 1e3 and cfg.get("max_iter", 0) >= 400 and tol >= 1e-8),
         "hist_nonincreasing": bool(all(hist[i + 1] <= hist[i] * (1 + 1e-9) + 1e-15 for i in range(len(hist) - 1))),
         "config_unchanged": bool(_same_dict(before, after)),
         "micro": dict(micro), "updates": int(micro["spd_ok"] + micro["spd_fail"] + micro["qr"]) if kind in ("rsp", "rsp_col", "rsp_row") else -1,
         "skipped": int(micro["qr_raise"]), "inject": dict(inj),
         "seed": seed}
    return e


def run(ctx, replay=None):
    lib()
    ctx.notes["reflectors_certified_by_TLC"] = E.check_against_tlc(ctx)
    thorough = ctx.tier == "thorough"
    ctx.assumptions += [
        "inputs have a prescribed condition number (A = U diag(s) V^H, s geometric from 1 to 1/cond, cond <= 1e3), not the library's own generator",
        "converged => ||XA - I||_F/sqrt(n) <= 64 tol and ||X - A^+||/||A^+|| <= 64 tol cond (calibrated: the proxy underestimates the true residual by at most 1.4 on the unchanged tree)",
        "the test sketch is the first group of four numpy.random.randn draws of a call (recorded by wrapping numpy.random.randn from the harness); with it the proxy of the returned X is recomputed",
        "budgets are capped (max_iter <= 400) because the solvers are pure-Python loops",
    ]
    ctx.model("SketchSolvers", MCFG, coverage=False)
    shapes_col = [(3, 3), (6, 4), (8, 3)] if not thorough else [(1, 1), (3, 3), (5, 2), (6, 4), (8, 3), (7, 5), (8, 6)]
    shapes_row = [(3, 5)] if not thorough else [(1, 4), (3, 5), (3, 7), (4, 8)]
    conds = [1.0, 30.0] if not thorough else [1.0, 10.0, 1e2, 1e3]
    tols = [1e-3, 1e-6] if not thorough else [1e-3, 1e-6, 1e-8]
    seeds = [1, 2] if not thorough else list(range(1, 7))
    cfgs = [("rsp", {"block": 2, "solver": "qr", "max_iter": 300}), ("rsp", {"block": 16, "solver": "spd", "max_iter": 300}),
            ("rsp_col", {"block": 1, "solver": "qr", "max_iter": 400}),
            # monitor sketch as wide as the update sketch (block_size == test_sketch_size < n)
            ("rsp", {"block": 2, "solver": "qr", "max_iter": 300, "test": 2}), ("rsp_col", {"block": 3, "solver": "spd", "max_iter": 300, "test": 3}),
            ("rsp", {"block": 1, "solver": "spd", "max_iter": 400, "test": 1}),
            # the solver's own seed= option (the constructor reseeds the global generator), alone and together with equal sketch widths
            ("rsp_col", {"block": 3, "solver": "qr", "max_iter": 300, "test": 3, "seed": 5}), ("rsp", {"block": 2, "solver": "spd", "max_iter": 300, "test": 2, "seed": 0}),
            ("rsp_col", {"block": 2, "solver": "qr", "max_iter": 300, "seed": 7}),
            # options LEFT AT THEIR DEFAULTS are values too: the monitoring sketch size is not passed
            ("rsp", {"block": 1, "solver": "qr", "max_iter": 400, "test": "default"}), ("rsp_col", {"block": 2, "solver": "spd", "max_iter": 300, "test": "default"}),
            ("rsp", {"block": 16, "solver": "qr", "max_iter": 300, "test": "default"}),
            ("hybrid", {"block": 2, "p": 4, "T": 3, "solver": "qr", "max_iter": 120}),
            # hyperpower orders that are not powers of two (the order is a free integer parameter)
            ("hybrid", {"block": 2, "p": 3, "T": 2, "solver": "qr", "max_iter": 120}),
            ("hybrid", {"block": 3, "p": 5, "T": 3, "solver": "spd", "max_iter": 120}),
            ("cgne", {"max_iter": 500}),
            # reused objects: the measured call follows a call on a nearby matrix of the same shape
            ("hybrid", {"block": 2, "p": 4, "T": 3, "solver": "qr", "max_iter": 120, "warm": True}),
            ("rsp", {"block": 2, "solver": "qr", "max_iter": 300, "warm": True}),
            ("cgne", {"max_iter": 500, "warm": True}),
            ("cgne", {"max_iter": 120, "prec": "n", "pseed": 3}),       # randomized preconditioner of full rank n
            # fault sequences: the CG micro-solver reports failure every 2nd call (Newton-Schulz fallback path),
            # the thin QR raises every 3rd call (the step is skipped)
            ("rsp_col", {"block": 2, "solver": "spd", "max_iter": 300, "inject": {"spd_fail_every": 2}}),
            ("rsp", {"block": 2, "solver": "qr", "max_iter": 300, "inject": {"qr_raise_every": 3}}),
            ("hybrid", {"block": 2, "p": 4, "T": 3, "solver": "spd", "max_iter": 120, "inject": {"spd_fail_every": 2}})]
    if thorough:
        cfgs += [("hybrid", {"block": 2, "p": 6, "T": 2, "solver": "qr", "max_iter": 120}), ("hybrid", {"block": 2, "p": 7, "T": 1, "solver": "qr", "max_iter": 120}),
                 ("hybrid", {"block": 3, "p": 2, "T": 5, "solver": "spd", "max_iter": 150}), ("hybrid", {"block": 2, "p": 8, "T": 2, "solver": "qr", "max_iter": 100}),
                 ("cgne", {"max_iter": 500, "prec": 2, "pseed": 3}), ("rsp_col", {"block": 3, "solver": "spd", "max_iter": 300})]
    # the hybrid's own seed= option, with the update sketch as wide as its monitoring sketch (min(6, n) columns) on
    # matrices with more columns than that, and narrower
    wide_cfgs = [("hybrid", {"block": 6, "p": 4, "T": 3, "solver": "spd", "max_iter": 120, "seed": 3, "shapes": [(10, 8), (14, 10)]}),
                 ("hybrid", {"block": 6, "p": 4, "T": 3, "solver": "qr", "max_iter": 120, "seed": 4, "shapes": [(10, 8)]}),
                 ("hybrid", {"block": 2, "p": 4, "T": 3, "solver": "spd", "max_iter": 120, "seed": 5}), ("hybrid", {"block": 3, "p": 3, "T": 2, "solver": "qr", "max_iter": 120, "seed": 6})]
    jobs = []
    tid = 0
    for kind, cfg in cfgs + wide_cfgs:
        for sh in cfg.get("shapes", shapes_col):
            for cond in conds:
                for tol in tols:
                    for sd in seeds:
                        if cond > 1 and min(sh) == 1:
                            continue
                        if kind in ("rsp_col", "rsp_row", "hybrid") and cfg["block"] > min(sh):
                            continue        # the property quantifies over block sizes 1..min(m, n); only compute() clamps a larger one
                        tid += 1
                        jobs.append((tid, kind, cfg, sh, cond, tol, ctx.seed * 1000 + sd))
    for sh in shapes_row:
        for cond in (conds if thorough else conds + [1e3]):
            for tol in tols:
                for sd in seeds:
                    if cond > 1 and min(sh) == 1:
                        continue
                    for kind, cfg in (c_ for c_ in (("rsp_row", {"block": 2, "max_iter": 300}), ("rsp_row", {"block": 1, "max_iter": 300, "test": "default"}), ("rsp_row", {"block": 3, "max_iter": 300, "test": "default"}), ("rsp_row", {"block": 2, "max_iter": 300, "test": 2, "seed": 1}), ("rsp", {"block": 3, "solver": "qr", "max_iter": 300}),
                                      # single-row sketches (1 x 1 Gram solves) and blocks as large as the matrix, small budget
                                      ("rsp_row", {"block": 1, "max_iter": 80}), ("rsp_row", {"block": sh[0], "max_iter": 60})) if c_[0] == "rsp" or c_[1]["block"] <= min(sh)):
                        tid += 1
                        jobs.append((tid, kind, cfg, sh, cond, tol, ctx.seed * 1000 + sd))
    events = par.pmap(_run, jobs, chunk=1)
    bad = ctx.trace("SketchTrace", events, TCFG)
    byid = {e["tid"]: e for e in events}
    fn = {"rsp": "RandomizedSketchProjectPseudoinverse.compute", "rsp_col": "RandomizedSketchProjectPseudoinverse.compute_column_variant",
          "rsp_row": "RandomizedSketchProjectPseudoinverse.compute_row_variant", "hybrid": "HybridRSPNewtonSchulz.compute", "cgne": "CGNEQSolver.compute"}
    for tid_, clause in bad:
        e = byid[tid_]
        if clause.startswith("M:"):
            ctx.drift.append("%s %s %s" % (clause, e["solver"], e["cfg"]))
            continue
        ctx.fail(fn[e["solver"]], clause, "cond<=%g" % (10 ** round(e["cond_lg"] / 64 / math.log2(10))), e)
    ctx.drift = sorted(set(ctx.drift))[:10]
    for e in events:
        ctx.case((e["tid"],))
    ctx.replays = len(events)
    ctx.notes["runs_converged"] = sum(1 for e in events if e["converged"])
    pre = [e for e in events if e["solver"] == "cgne" and e["cfg"].get("prec", 0) not in (0,)]
    if pre:
        ctx.notes["observation_cgne_with_randomized_preconditioner"] = {"runs": len(pre), "not_converged": sum(1 for e in pre if not e["converged"]), "history_increasing": sum(1 for e in pre if not e["hist_nonincreasing"]), "note": "preconditioner_rank > 0 is outside the property's quantifier (deterministic CGNE); recorded, not judged"}
    ctx.notes["runs_with_proxy_recomputed"] = sum(1 for e in events if e["proxy_known"])
    ctx.count("ConvergedSound", ctx.notes["runs_converged"])
    ctx.count("HistoryOfReturnedIterate", ctx.notes["runs_with_proxy_recomputed"])
    ctx.sample({"direction": "B", "event": events[0]})
    ctx.sample({"direction": "B", "event": [e for e in events if e["solver"] == "cgne"][0]})
    return "model_checking"
