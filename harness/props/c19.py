"""C19 - power iteration returns a unit vector and converges to the dominant eigenpair.

M  (PowerIter.tla): decay of the non-dominant component in the eigenbasis, the
   difference / stagnation / budget stop rules for positive and negative
   dominant eigenvalues; TLC checks the accuracy guaranteed at each stop.
F/B Hermitian classes A = U diag(lam) U^H (spectra with gap <= 0.8: positive,
   negative, mixed-sign dominant) x seeds: v_k for max_iterations = 1..K under
   one seed is projected onto the eigenbasis (decay law), the default run gives
   the returned estimate / residual; arbitrary non-Hermitian inputs for the
   boundedness clauses; the complex-adjoint variant.  PowerIterTrace.tla judges.
"""
import contextlib
import io
import math

import numpy as np
import quaternion

from .. import par
from .. import exactfam as E
from ..qlib import lib, q_from_float, q_to_float, omul, oherm, ofro, osvals, units, lg

MCFG = """CONSTANTS R0s <- R0sV
 Ds <- DsV
 Tols <- TolsV
 MaxK = 400
SPECIFICATION Spec
INVARIANTS AccuracyAtStop NegNeverStopsOnDiff
PROPERTY Monotone
CHECK_DEADLOCK FALSE
"""
TCFG = """CONSTANTS DecaySlack = 4
 UnitBound = 1024
 FloorLg <- FloorV
 ResSlack = 320
INIT TInit
NEXT TNext
INVARIANT Report
CHECK_DEADLOCK FALSE
"""
SPECTRA = [
    [5, 4, 1, 0], [-5, 4, 1, 0], [-5, -4, 1, 2], [5, -4, 1], [10, 8], [-10, 8], [-10, -8, 3],
    [4, 2, 2, 2, 1], [-4, 2, 2, 2, 1], [3], [-3], [5, 0, 0], [-5, 0, 0], [8, 6, -6, 1], [-8, 6, -6, 1],
    [2, 1, -1], [-2, 1.5, 1], [7, 5.6, 3], [-7, 5.6, -5.6, 0.5],
]


def _pit(A, k, tol, seed, ev=True, sparse=False):
    u = lib().utils
    np.random.seed(seed)
    with contextlib.redirect_stdout(io.StringIO()):
        if sparse:                      # the same matrix handed over in the library's sparse container (storage variants cycle)
            from ..qlib import sp_quat
            return u.power_iteration(sp_quat(A), max_iterations=k, tol=tol, return_eigenvalue=ev)
        return u.power_iteration(q_from_float(A), max_iterations=k, tol=tol, return_eigenvalue=ev)


def _case(args):
    tid, lam, seed, K, tol = args
    n = len(lam)
    sc = (1.0, 2.0 ** -40, 2.0 ** 20, 2.0 ** -20)[tid % 4]        # exact power-of-two scaling of the whole matrix
    lam = [x * sc for x in lam]
    ul = E.ulib(n)
    U = ul[(seed + 3) % len(ul)][1]
    A = E.herm_from_spectrum(U, lam)
    order = sorted(range(n), key=lambda i: -abs(lam[i]))
    l1 = lam[order[0]]
    others = [abs(lam[i]) for i in order[1:]]
    rho = (others[0] / abs(l1)) if others else 0.0
    gap_lg = lg(rho) if rho > 0 else -100000
    nrm2 = abs(l1)
    ev = [{"tid": tid, "ev": "Start", "lam": [int(round(x / sc * 10)) for x in lam], "scale_lg": lg(sc), "tol_lg": lg(tol), "gap_lg": gap_lg,
           "sign": "pos" if l1 > 0 else "neg", "n": n, "seed": seed}]
    prev = None
    stopped_at = None
    for k in range(1, K + 1):
        v, e = _pit(A, k, tol, seed)
        vf = q_to_float(np.asarray(v)).reshape(n, 1, 4)
        c = omul(oherm(U), vf)                       # coordinates in the eigenbasis
        mod = np.sqrt(np.sum(c[:, 0, :] ** 2, axis=-1))
        dom = mod[order[0]]
        sub = max([mod[i] for i in order[1:] if abs(lam[i]) == others[0]] + [0.0]) if others else 0.0
        same = prev is not None and np.array_equal(prev, vf)
        if same and stopped_at is None:
            stopped_at = k - 1
        ev.append({"tid": tid, "ev": "Iter", "k": k, "r_lg": lg(sub / dom) if dom > 0 and sub > 0 else -100000,
                   "stopped": bool(stopped_at is not None), "unit_units": units(abs(ofro(vf) - 1.0), 1.0, 4 * n)})
        prev = vf
    # call history: just before the run that is judged, the routine has worked on a RELATED matrix of the same size (same
    # eigenvectors, the spectrum rotated so that the dominant eigenvalue sits on another eigenvector; also c*I - A)
    if n >= 2 and tid % 2 == 1:
        _pit(E.herm_from_spectrum(U, list(np.roll(lam, 1))), 4000, tol, seed)
        _pit(E.herm_from_spectrum(U, [1.5 * abs(l1) * (1 if l1 > 0 else -1) - x for x in lam]), 4000, tol, seed + 1)
    # the run a user makes: enough iterations
    v, e = _pit(A, 4000, tol, seed, sparse=(tid % 3 == 2))
    vf = q_to_float(np.asarray(v)).reshape(n, 1, 4)
    fin = bool(np.all(np.isfinite(vf)) and math.isfinite(float(e)))
    l1q = np.zeros((1, 1, 4))
    l1q[0, 0, 0] = l1
    resid = ofro(omul(A, vf) - vf * l1) if fin else float("inf")
    gapok = rho <= 0.8 + 1e-12
    # accuracy M guarantees at the stop rule that can fire (difference for positive, stagnation for negative dominant)
    if l1 > 0:
        bound = tol / max(1.0 - rho, 1e-3)
    else:
        bound = math.sqrt(tol * 1e-3) / max(1.0 - rho * rho, 1e-3)
    ev.append({"tid": tid, "ev": "Return", "finite": fin, "unit_units": units(abs(ofro(vf) - 1.0), 1.0, 4 * n) if fin else 2 ** 30,
               "ev_excess_units": units(max(0.0, float(e) - nrm2), max(nrm2, 1e-300), 4 * n) if fin else 2 ** 30,
               "hermitian_gap": bool(gapok), "everr_lg": lg(abs(float(e) - abs(l1)) / max(nrm2, 1e-300)) if fin else 100000,
               "resid_lg": lg(resid / max(nrm2, 1e-300)), "bound_lg": lg(bound), "stopped_at": -1 if stopped_at is None else stopped_at})
    return ev, {"lam": lam, "U": ul[(seed + 3) % len(ul)][0], "seed": seed, "tol": tol}


def _structured_matrices():
    """Hermitian matrices with EXACTLY representable entries and exact coordinate symmetry (a I + b P with P a Hermitian
    involution built from quaternion units; constant off-diagonal), spectrum known in closed form.  Rounding never breaks
    their symmetry, so a start vector inside an invariant subspace stays there: "from every random start" is about the
    distribution of the start as well."""
    out = []
    units_ = {"1": [1.0, 0, 0, 0], "-1": [-1.0, 0, 0, 0], "i": [0, 1.0, 0, 0], "j": [0, 0, 1.0, 0], "k": [0, 0, 0, 1.0]}
    for a, b in ((2.0, -1.0), (2.0, 1.0), (-2.0, 1.0), (0.5, 2.0), (-1.0, 3.0)):
        for un, q in units_.items():
            A = np.zeros((2, 2, 4))
            A[0, 0, 0] = A[1, 1, 0] = a
            A[0, 1] = [b * x for x in q]
            A[1, 0] = [b * q[0]] + [-b * x for x in q[1:]]
            out.append(("2x2 %g*I%+g*[[0,%s],[conj,0]]" % (a, b, un), A, sorted([a + b, a - b], key=lambda x: -abs(x))))
    for a, b in ((2.0, 1.0), (-2.0, -1.0), (0.0, 1.0), (3.0, 1.0)):
        A = np.zeros((3, 3, 4))
        A[..., 0] = b
        A[0, 0, 0] = A[1, 1, 0] = A[2, 2, 0] = a
        out.append(("3x3 diag %g, off-diagonal %g" % (a, b), A, sorted([a + 2 * b, a - b, a - b], key=lambda x: -abs(x))))
    return out


def _structured(args):
    tid, mi, seed, tol = args
    name, A, lam = _structured_matrices()[mi]
    n = A.shape[0]
    l1, rho = lam[0], abs(lam[1]) / abs(lam[0])
    ev = [{"tid": tid, "ev": "Start", "lam": [int(round(x * 10)) for x in lam], "scale_lg": 0, "tol_lg": lg(tol), "gap_lg": lg(rho) if rho > 0 else -100000,
           "sign": "pos" if l1 > 0 else "neg", "n": n, "seed": seed}]
    v, e = _pit(A, 4000, tol, seed)
    vf = q_to_float(np.asarray(v)).reshape(n, 1, 4)
    fin = bool(np.all(np.isfinite(vf)) and math.isfinite(float(e)))
    resid = ofro(omul(A, vf) - vf * l1) if fin else float("inf")
    bound = tol / max(1.0 - rho, 1e-3) if l1 > 0 else math.sqrt(tol * 1e-3) / max(1.0 - rho * rho, 1e-3)
    nrm2 = abs(l1)
    ev.append({"tid": tid, "ev": "Return", "finite": fin, "unit_units": units(abs(ofro(vf) - 1.0), 1.0, 4 * n) if fin else 2 ** 30,
               "ev_excess_units": units(max(0.0, float(e) - nrm2), max(nrm2, 1e-300), 4 * n) if fin else 2 ** 30,
               "hermitian_gap": True, "everr_lg": lg(abs(float(e) - abs(l1)) / nrm2) if fin else 100000,
               "resid_lg": lg(resid / nrm2), "bound_lg": lg(bound), "stopped_at": -1})
    return ev, {"lam": lam, "matrix": name, "A": A.tolist(), "seed": seed, "tol": tol}


def _misc(args):
    tid0, seed, count = args
    rng = np.random.default_rng(seed)
    u = lib().utils
    ev = []
    meta = {}
    for t in range(count):
        tid = tid0 + t
        n = int(rng.integers(1, 6))
        A = rng.standard_normal((n, n, 4)) * 10.0 ** rng.integers(-3, 4)
        herm = t % 3 == 0
        if herm:
            A = A + oherm(A)
        if t % 7 == 5:
            # breakdown inputs: an iterate is annihilated exactly (zero matrix, strictly triangular = nilpotent, [[0, B], [0, 0]])
            herm = False
            kind_ = (t // 7) % 3
            if kind_ == 0:
                A = np.zeros((n, n, 4))
                herm = True
            elif kind_ == 1:
                A = np.triu(A.transpose(2, 0, 1), 1).transpose(1, 2, 0).copy()
                herm = n == 1
            else:
                n = max(n, 2)
                h_ = n // 2
                B_ = rng.standard_normal((n, n, 4))
                A = np.zeros((n, n, 4))
                A[:h_, h_:] = B_[:h_, h_:]
        s2 = float(osvals(A)[0])
        np.random.seed(seed + t)
        with contextlib.redirect_stdout(io.StringIO()):
            v, e = u.power_iteration(q_from_float(A), max_iterations=60, return_eigenvalue=True)
        vf = q_to_float(np.asarray(v)).reshape(n, 1, 4)
        ev.append({"tid": tid, "ev": "Start", "lam": [], "tol_lg": 0, "gap_lg": 0, "sign": "pos", "n": n, "seed": seed + t})
        ev.append({"tid": tid, "ev": "Return", "finite": bool(np.all(np.isfinite(vf))), "unit_units": units(abs(ofro(vf) - 1.0), 1.0, 4 * n),
                   "ev_excess_units": units(max(0.0, float(e) - s2), max(s2, 1e-300), 4 * n), "hermitian_gap": False,
                   "everr_lg": 0, "resid_lg": 0, "bound_lg": 0, "stopped_at": -1})
        # the complex-adjoint variant under every combination of its options; also complex-embedded input
        # (block-diagonal adjoint) and power-of-two scaled input
        variants = [A]
        if not herm:
            Ce = np.zeros_like(A)
            Ce[..., 0], Ce[..., 1] = A[..., 0], A[..., 1]
            variants += [Ce, A * 2.0 ** (30 if t % 2 else -30)]
        oi = 0
        for Av in variants:
            for bp in (True, False):
                for fmt in ("complex", "quaternion"):
                    oi += 1
                    kw = dict(max_iterations=300, seed=seed + t, block_purify=bp, eigenvalue_format=fmt)
                    if oi % 3 == 0:
                        kw.update(res_tol=None, eig_tol=1e-8)
                    with contextlib.redirect_stdout(io.StringIO()):
                        np.random.seed(seed + t)           # the Hermitian fast path draws its start from the global generator
                        out = u.power_iteration_nonhermitian(q_from_float(Av), **kw)
                        np.random.seed(seed + t)
                        out2 = u.power_iteration_nonhermitian(q_from_float(Av), return_vector=False, **kw)
                    qv, lamc = out[0], out[1]
                    qf = q_to_float(np.asarray(qv)).reshape(-1, 4)

                    def parts(l):
                        if isinstance(l, quaternion.quaternion):
                            return float(l.w), float(np.sqrt(l.x ** 2 + l.y ** 2 + l.z ** 2)), (l.y == 0 and l.z == 0)
                        return float(complex(l).real), abs(float(complex(l).imag)), True
                    re_, im_, insub = parts(lamc)
                    re2, im2, _ = parts(out2[0])
                    ev.append({"tid": tid, "ev": "NonHerm", "unit_units": units(abs(float(np.sqrt(np.sum(qf ** 2))) - 1.0), 1.0, 4 * n),
                               "hermitian": bool(herm), "eig_real": bool(im_ <= 1e-12 * max(1.0, abs(re_)) and insub),
                               "shape_ok": bool(qf.shape[0] == n and len(out) == 3 and len(out2) == 2
                                                and isinstance(lamc, quaternion.quaternion) == (fmt == "quaternion")),
                               "novec_same": bool(re_ == re2 and im_ == im2)})
        meta[tid] = {"A": A.tolist(), "hermitian": herm, "options": "block_purify x eigenvalue_format x return_vector x (res_tol, eig_tol); plain / complex-embedded / scaled input"}
    return ev, meta


def run(ctx, replay=None):
    lib()
    ctx.notes["reflectors_certified_by_TLC"] = E.check_against_tlc(ctx)
    thorough = ctx.tier == "thorough"
    ctx.assumptions += [
        "v_k for max_iterations = k under one seed is the k-th iterate (same start vector); its coordinates in the constructed eigenbasis give Lg(c2/c1)",
        "'small' is the accuracy the model guarantees at the stop rule that fires: tol/(1-rho) (difference test, positive dominant eigenvalue) resp. sqrt(tol*1e-3)/(1-rho^2) (stagnation test, negative dominant eigenvalue), times 2^5, relative to |lambda_1|",
        "spectra with gap ratio <= 0.8 only for the convergence clauses; boundedness / unit norm for arbitrary input",
    ]
    ctx.model("PowerIter", MCFG)
    K = 30 if thorough else 12
    seeds = list(range(20)) if thorough else [0, 1, 2]
    jobs = []
    tid = 0
    for lam in SPECTRA if thorough else SPECTRA[:14]:
        for sd in seeds:
            tid += 1
            jobs.append((tid, lam, ctx.seed * 100 + sd, K, 1e-10))
    outs = par.pmap(_case, jobs)
    events, meta = [], {}
    for ev, info in outs:
        events += ev
        meta[ev[0]["tid"]] = info
    sjobs = [(200000 + 100 * mi + sd, mi, ctx.seed * 1000 + sd, 1e-10) for mi in range(len(_structured_matrices())) for sd in range(48 if thorough else 24)]
    for ev, info in par.pmap(_structured, sjobs):
        events += ev
        meta[ev[0]["tid"]] = info
    ctx.notes["structured_exact_matrices"] = {"matrices": len(_structured_matrices()), "start_seeds_each": 48 if thorough else 24}
    for ev, m in par.pmap(_misc, [(100000 + 1000 * i, ctx.seed * 31 + i, 12) for i in range(16 if thorough else 4)], chunk=1):
        events += ev
        meta.update(m)
    bad = ctx.trace("PowerIterTrace", events, TCFG)
    seen = set()
    for tid_, clause in bad:
        if clause.startswith("M:"):
            ctx.drift.append("%s %s" % (clause, meta.get(tid_, {}).get("lam")))
            continue
        if (tid_, clause) in seen:
            continue
        seen.add((tid_, clause))
        info = meta.get(tid_, {})
        lam = info.get("lam")
        fn = "power_iteration_nonhermitian" if clause in ("RealEigenvalueForHermitian", "ShapeOfVector", "UnitNormAdjointVariant") else "power_iteration"
        cls = "arbitrary-input" if lam is None else ("negative-dominant" if lam and max(lam, key=abs) < 0 else "positive-dominant")
        ctx.fail(fn, clause, cls, dict(info, events=[e for e in events if e["tid"] == tid_ and e["ev"] != "Iter"]))
    ctx.drift = sorted(set(ctx.drift))[:10]
    for e in events:
        if e["ev"] in ("Return", "NonHerm"):
            ctx.case((e["tid"], e["ev"]))
    ctx.replays = sum(1 for e in events if e["ev"] != "Start")
    ctx.sample({"direction": "B", "trace": [e for e in events if e["tid"] == 1][:5]})
    ctx.sample({"direction": "B", "return": [e for e in events if e["ev"] == "Return"][1]})
    return "model_checking"
