"""C02 - real / complex embeddings are faithful *-homomorphisms with exact round trip.

B (law based): the integer matrices the code returns for basis elements, signed
unit pairs, a catalogue and random integer matrices are recorded; EmbedTrace.tla
evaluates additivity, multiplicativity, *-preservation, norm scaling and the
round trip on the RECORDED matrices (TLC does every matrix product itself).
Layout equality with the documented layouts is a mechanism clause (DRIFT).
"""
import itertools

import numpy as np
from scipy import sparse

from .. import par
from ..qlib import lib, q_from_float, q_to_float, omul, oherm, sha, f_layout

TCFG = """INIT TInit
NEXT TNext
INVARIANT Report
CHECK_DEADLOCK FALSE
"""
UNITS = [(1, 0, 0, 0), (0, 1, 0, 0), (0, 0, 1, 0), (0, 0, 0, 1)]
FNS = ["real_expand", "Realp", "complex_adjoint"]


def ilist(F):
    return [[[int(v) for v in F[i, j]] for j in range(F.shape[1])] for i in range(F.shape[0])]


def imat(R):
    return [[int(v) for v in row] for row in R]


def cmat(C):
    return [[[int(round(v.real)), int(round(v.imag))] for v in row] for row in C]


_LAYOUT = __import__("harness.qlib", fromlist=["register_counter"]).register_counter([0])


def embed(fn, F):
    """call the code's embedding on float array (m,n,4); returns python int lists
    (raises ValueError if the result is not integral)."""
    u = lib().utils
    # the argument's MEMORY LAYOUT cycles through C order, Fortran order, a transposed view (what the library's own
    # quat_hermitian returns) and a strided slice: the embedding is a function of the values only
    _LAYOUT[0] += 1
    how = _LAYOUT[0] % 4

    def lay(a):
        if how == 1:
            return np.asfortranarray(a)
        if how == 2:
            return np.ascontiguousarray(a.T).T
        if how == 3 and a.ndim == 2:
            big = np.zeros((2 * a.shape[0], 2 * a.shape[1]), dtype=a.dtype)
            big[::2, ::2] = a
            return big[::2, ::2]
        return a
    if fn == "real_expand":
        R = u.real_expand(lay(q_from_float(F)))
    elif fn == "Realp":
        R = u.Realp(*[lay(np.ascontiguousarray(F[..., c])) for c in range(4)])
    elif fn == "Realp.scalar":
        R = u.Realp(*[float(F[0, 0, c]) for c in range(4)])
    else:
        R = u.quaternion_to_complex_adjoint(lay(q_from_float(F)))
    R = np.asarray(R)
    if np.iscomplexobj(R):
        if not (np.array_equal(np.rint(R.real), R.real) and np.array_equal(np.rint(R.imag), R.imag)):
            raise ValueError("non-integral")
        return cmat(R)
    if not np.array_equal(np.rint(R), R):
        raise ValueError("non-integral")
    return imat(R)


def E(m, n, i, j, q):
    F = np.zeros((m, n, 4))
    F[i, j] = q
    return F


def catalogue(rng):
    cat = []
    # every quaternion with entries in {-1,0,1} as a 1x1 matrix (sign patterns, cancellations)
    for q in itertools.product((-1, 0, 1), repeat=4):
        cat.append(np.array(q, dtype=float).reshape(1, 1, 4))
    for (m, n) in ((2, 2), (2, 3), (3, 1), (1, 3), (3, 3)):
        for _ in range(3):
            cat.append(rng.integers(-3, 4, (m, n, 4)).astype(float))
        S = rng.integers(-2, 3, (m, n, 4)).astype(float)
        S[..., 3] = -(S[..., 0] + S[..., 1] + S[..., 2])        # components cancel: w+x+y+z = 0
        cat.append(S)
        P = rng.integers(-3, 4, (m, n, 4)).astype(float)
        P[..., 0] = 0                                            # pure imaginary
        cat.append(P)
    return cat


def _events(args):
    S, seed, thorough = args
    rng = np.random.default_rng(seed)
    ev = []
    tid = [0]

    def add(e):
        tid[0] += 1
        e["tid"] = tid[0]
        ev.append(e)

    def rec(fn, F):
        f = fn
        if fn == "Realp" and F.shape[:2] == (1, 1) and (tid[0] % 2 == 0):
            f = "Realp.scalar"
        return embed(f, F)

    cat = catalogue(rng)
    for fn in FNS:
        square = fn == "complex_adjoint"
        shapes = [(n, n) for n in range(1, S + 1)] if square else [(m, n) for m in range(1, S + 1) for n in range(1, S + 1)]
        # basis elements: emb + herm
        for (m, n) in shapes:
            for i in range(m):
                for j in range(n):
                    for q in UNITS:
                        F = E(m, n, i, j, q)
                        add({"op": "emb", "fn": fn, "A": ilist(F), "RA": rec(fn, F)})
                        H = oherm(F)
                        if not square or m == n:
                            add({"op": "herm", "fn": fn, "A": ilist(F), "AH": ilist(H),
                                 "RA": rec(fn, F), "RAH": rec(fn, H)})
        # basis pairs: mul
        trip = [(n, n, n) for n in range(1, S + 1)] if square else list(itertools.product(range(1, S + 1), repeat=3))
        for (m, k, n) in trip:
            for i, t, u_, j in itertools.product(range(m), range(k), range(k), range(n)):
                for qa in UNITS:
                    for qb in UNITS:
                        FA, FB = E(m, k, i, t, qa), E(k, n, u_, j, qb)
                        AB = omul(FA, FB)
                        add({"op": "mul", "fn": fn, "A": ilist(FA), "B": ilist(FB), "AB": ilist(AB),
                             "RA": rec(fn, FA), "RB": rec(fn, FB), "RAB": rec(fn, AB)})
        # signed unit pairs (additivity incl. cancellation), same and different positions
        for (m, n) in [s for s in shapes if s in ((1, 1), (2, 2))]:
            for qa in UNITS:
                for qb in UNITS:
                    for sa in (1, -1):
                        for sb in (1, -1):
                            for pb in ((0, 0), (m - 1, n - 1)):
                                FA = E(m, n, 0, 0, np.array(qa) * sa)
                                FB = E(m, n, pb[0], pb[1], np.array(qb) * sb)
                                add({"op": "add", "fn": fn, "A": ilist(FA), "B": ilist(FB), "S": ilist(FA + FB),
                                     "RA": rec(fn, FA), "RB": rec(fn, FB), "RS": rec(fn, FA + FB)})
        # catalogue: emb, herm, add and mul on conformable catalogue pairs
        cats = [c for c in cat if (not square or c.shape[0] == c.shape[1])]
        for c in cats:
            add({"op": "emb", "fn": fn, "A": ilist(c), "RA": rec(fn, c)})
            add({"op": "herm", "fn": fn, "A": ilist(c), "AH": ilist(oherm(c)), "RA": rec(fn, c), "RAH": rec(fn, oherm(c))})
        for a, b in itertools.combinations(cats, 2):
            if a.shape == b.shape and a.shape[0] > 1:
                add({"op": "add", "fn": fn, "A": ilist(a), "B": ilist(b), "S": ilist(a + b),
                     "RA": rec(fn, a), "RB": rec(fn, b), "RS": rec(fn, a + b)})
            if a.shape[1] == b.shape[0] and a.shape[0] > 1 and (not square or a.shape == b.shape):
                AB = omul(a, b)
                add({"op": "mul", "fn": fn, "A": ilist(a), "B": ilist(b), "AB": ilist(AB),
                     "RA": rec(fn, a), "RB": rec(fn, b), "RAB": rec(fn, AB)})
    # ---- round trip: real_contract(real_expand(A)) == A, bit for bit
    u = lib().utils
    for c in cat:
        m, n = c.shape[:2]
        C = q_to_float(u.real_contract(f_layout(u.real_expand(q_from_float(c)), byteorder_only=True), m, n))
        add({"op": "contract", "fn": "real_contract", "A": ilist(c), "C": ilist(C) if np.array_equal(np.rint(C), C) else []})
    for k in range(200 if thorough else 40):
        m, n = int(rng.integers(1, 6)), int(rng.integers(1, 6))
        G = rng.standard_normal((m, n, 4)) * 10.0 ** rng.integers(-200, 200)
        if k % 5 == 0:
            G[rng.random((m, n)) < 0.5] = 0.0
        if k % 4 == 1:
            # entries of very different magnitudes INSIDE one matrix (graded columns, tiny imaginary parts on O(1) reals,
            # negative zeros): the round trip is exact whatever the spread - no "noise floor" may be applied
            G = rng.standard_normal((m, n, 4)) * 2.0 ** rng.integers(-300, 300, (m, n, 4)).astype(float)
            G[..., 1:] *= 2.0 ** -70
            G[0, 0, 0] = 1.0
            if m * n > 1:
                G[-1, -1] = [-0.0, 0.0, -0.0, 2.0 ** -1000]
        C = q_to_float(u.real_contract(f_layout(u.real_expand(q_from_float(G)), byteorder_only=True), m, n))
        add({"op": "flag", "clause": "RoundTrip", "fn": "real_contract", "ok": bool(sha(C) == sha(G)),
             "shape": [m, n]})
        if k % 4 == 1:
            # contraction of a real matrix assembled OUTSIDE the library (a product formed in the real domain)
            R2 = u.real_expand(q_from_float(G))
            back = q_to_float(u.real_contract(R2.copy(), m, n))
            add({"op": "flag", "clause": "RoundTrip", "fn": "real_contract", "ok": bool(np.array_equal(back, G)), "shape": [m, n], "graded": True})
        # float homomorphism: expand(A) expand(B) vs expand(AB) to rounding
        k2 = int(rng.integers(1, 5))
        A1 = rng.standard_normal((m, k2, 4))
        B1 = rng.standard_normal((k2, n, 4))
        lhs = u.real_expand(q_from_float(A1)) @ u.real_expand(q_from_float(B1))
        rhs = u.real_expand(q_from_float(omul(A1, B1)))
        add({"op": "flag", "clause": "Multiplicative", "fn": "real_expand",
             "ok": bool(np.max(np.abs(lhs - rhs)) <= 64 * 2.0 ** -52 * 4 * k2 * np.max(np.abs(A1)) * np.max(np.abs(B1)))})
    # ---- the component-blocked embedding must not depend on the dtype in which a plane happens to be stored
    for c in cat[81:81 + 12]:
        base = c.copy()
        base[..., 1:] += 0.375                       # non-integer imaginary parts, integer real parts
        ref = u.Realp(*[np.ascontiguousarray(base[..., t]) for t in range(4)])
        for dt in (np.int64, np.int32, np.float32):
            planes = [np.ascontiguousarray(base[..., t]) for t in range(4)]
            planes[0] = planes[0].astype(dt)         # representable exactly: the real parts are small integers
            got = u.Realp(*planes)
            add({"op": "flag", "clause": "PlaneDtypeIndependent", "fn": "Realp", "ok": bool(np.array_equal(np.asarray(got, dtype=np.float64), ref)),
                 "dtype": np.dtype(dt).name, "shape": list(c.shape[:2])})
        for which in (1, 3):
            planes = [np.ascontiguousarray(np.rint(base[..., t])) for t in range(4)]
            refi = u.Realp(*planes)
            planes[which] = planes[which].astype(np.int64)
            got = u.Realp(*planes)
            add({"op": "flag", "clause": "PlaneDtypeIndependent", "fn": "Realp", "ok": bool(np.array_equal(np.asarray(got, dtype=np.float64), refi)),
                 "dtype": "int64 plane %d" % which, "shape": list(c.shape[:2])})
    # ---- splitting / merging component planes is lossless
    S_ = lib().solver.QGMRESSolver()
    Q = lib().qslst
    for c in cat + [rng.standard_normal((3, 2, 4))]:
        m, n = c.shape[:2]
        integral = np.array_equal(np.rint(c), c)
        comps = S_._quat_to_components(q_from_float(c))
        back = q_to_float(S_._components_to_quat(*comps))
        sp = u.SparseQuaternionMatrix(*[sparse.csr_matrix(c[..., t]) for t in range(4)], (m, n))
        back_s = q_to_float(S_._components_to_quat(*S_._quat_to_components(sp)))
        stacked = np.hstack([c[..., 0], c[..., 2], c[..., 1], c[..., 3]])      # [A0 A2 A1 A3]
        parts = u.A2A0123(stacked)
        back_a = np.stack(parts, axis=-1)
        ch = Q.split_quat_channels(c.copy())
        back_q = np.asarray(Q.stack_quat_channels(*ch))
        # input that is ALREADY in component form (a tuple / list of four planes) passes through the split unchanged
        planes = tuple(np.ascontiguousarray(c[..., t]).copy() for t in range(4))
        back_t = np.stack([np.asarray(x) for x in S_._quat_to_components(planes)], axis=-1)
        back_l = np.stack([np.asarray(x) for x in S_._quat_to_components(list(planes))], axis=-1)
        for name, b in (("solver.components.dense", back), ("solver.components.sparse", back_s), ("solver.components.tuple", back_t), ("solver.components.list", back_l),
                        ("A2A0123", back_a), ("qslst.split_stack", back_q)):
            if integral:
                add({"op": "split", "fn": name, "A": ilist(c), "C": ilist(b) if b.shape == c.shape and np.array_equal(np.rint(b), b) else []})
            else:
                add({"op": "flag", "clause": "SplitLossless", "fn": name, "ok": bool(b.shape == c.shape and sha(b) == sha(c))})
    # ---- call history: the same sparse matrix object converted again after a value-only update of one plane
    for c in cat[81:81 + 6]:
        m, n = c.shape[:2]
        spm = u.SparseQuaternionMatrix(*[sparse.csr_matrix(c[..., t]) for t in range(4)], (m, n))
        S_._quat_to_components(spm)
        spm.j = spm.j * 3                                # same sparsity pattern and nnz, new values
        spm.k.data[:] = -spm.k.data
        want = c.copy()
        want[..., 2] *= 3
        want[..., 3] *= -1
        got = q_to_float(S_._components_to_quat(*S_._quat_to_components(spm)))
        add({"op": "split", "fn": "solver.components.sparse.after-update", "A": ilist(want),
             "C": ilist(got) if got.shape == want.shape and np.array_equal(np.rint(got), got) else []})
        dq = np.array(q_from_float(c))                   # writable: updated in place below
        S_._quat_to_components(dq)
        dq *= 2.0                                        # dense array updated in place
        got = q_to_float(S_._components_to_quat(*S_._quat_to_components(dq)))
        add({"op": "split", "fn": "solver.components.dense.after-update", "A": ilist(c * 2), "C": ilist(got) if got.shape == c.shape else []})
    return ev


def run(ctx, replay=None):
    lib()
    thorough = ctx.tier == "thorough"
    S = 3 if thorough else 2
    ctx.assumptions += [
        "an embedding is additive (checked on signed unit pairs, catalogue and random pairs), so multiplicativity and *-preservation on all basis pairs of a shape extend to all integer matrices of that shape",
        "basis pairs exhaustively for shapes <= %d; float inputs: bitwise round trip and product law to 64 units" % S,
    ]
    try:
        events = _events((S, ctx.seed, thorough))
    except ValueError as e:
        ctx.fail("embedding", "IntegerImage", "basis", {"error": repr(e)})
        return "model_checking"
    ctx.exhaustive = True
    bad = ctx.trace("EmbedTrace", events, TCFG, timeout=1800)
    byid = {e["tid"]: e for e in events}
    for tid, clause in bad:
        e = byid[tid]
        if clause.startswith("M:"):
            ctx.drift.append("%s %s" % (clause, e["fn"]))
            continue
        cls = "basis" if e["op"] in ("emb", "mul", "herm") and sum(abs(v) for r in e["A"] for q in r for v in q) == 1 else "catalogue"
        ctx.fail(e["fn"], clause, cls, {k: v for k, v in e.items() if k in ("op", "fn", "A", "B", "C", "RA", "shape")})
    for e in events:
        ctx.case((e["tid"],))
        ctx.count(e["op"])
    ctx.replays = len(events)
    ctx.sample({"direction": "B", "event": [e for e in events if e["op"] == "mul"][7]})
    ctx.sample({"direction": "B", "event": [e for e in events if e["op"] == "add"][3]})
    ctx.drift = sorted(set(ctx.drift))
    return "model_checking"
