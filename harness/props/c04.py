"""C04 - Q-GMRES returns a true solution and truthful convergence information.

M  (QGMRES.tla): abstract restart-cycle machine (grade, cap, tolerance level,
   preconditioner, zero rhs); TLC proves the property's clauses on every
   behaviour.
F  each terminal behaviour class of M (N, g, cap, tol, prec, zero rhs) is
   instantiated with concrete systems of exactly that grade and run through
   QGMRESSolver.solve.
B  every run is recorded as Start / Cycle* / Return (+ Pair / Opt cross-run
   events) and validated by QGMRESTrace.tla: property clauses -> VIOLATION,
   mechanism mismatches -> DRIFT.
"""
import math

import numpy as np
from scipy import sparse

from .. import par
from .. import exactfam as E
from ..qlib import lib, q_from_float, q_to_float, omul, oherm, ofro, osvals, oadj, oeye, lg

MCFG = """CONSTANTS MaxN = %d
 LMax = 3
SPECIFICATION Spec
INVARIANTS Truthful ConvSound HistMono AtMostN ZeroRhsZero PrecIndependent BreakdownEnds IterBound ShortCycleIsBreakdown KdimBound
CHECK_DEADLOCK FALSE
"""
TCFG = """CONSTANTS SlackTruth = 16
 SlackConv = 128
 SlackMono = 4
 Floor <- FloorV
 OptSlack = 256
INIT TInit
NEXT TNext
INVARIANT Report
CHECK_DEADLOCK FALSE
"""
NOCAP = 99
FLOOR = -2816  # lg(2^-44)


def _sp(F):
    u = lib().utils
    from ..qlib import sp_quat
    return sp_quat(F)


def grade(A, b):
    """dimension of the right-quaternion Krylov space of (A, b)."""
    n = A.shape[0]
    if not np.any(b):
        return 0
    cols = [b / ofro(b)]
    for _ in range(n - 1):
        v = omul(A, cols[-1])
        nv = ofro(v)
        cols.append(v / nv if nv > 0 else v)
    K = np.concatenate(cols, axis=1)
    s = osvals(K)
    return int(np.sum(s > 1e-9 * s[0]))


def lstsq_quat(M, r):
    """min_y ||r - M y||_F over quaternion y (right linear): returns residual norm."""
    cm = oadj(M)
    cr = oadj(r)[:, :1]
    y, *_ = np.linalg.lstsq(cm, cr, rcond=None)
    return float(np.linalg.norm(cr - cm @ y))


def krylov_opt(A, r, m):
    """min over x in K_m(A, r) of ||r - A x||."""
    cols = [r / max(ofro(r), 1e-300)]
    for _ in range(m - 1):
        v = omul(A, cols[-1])
        # orthogonalise in the complex adjoint picture for conditioning (right-linear Gram-Schmidt)
        for c in cols:
            h = omul(oherm(c), v)
            v = v - omul(c, h)
        nv = ofro(v)
        if nv < 1e-13:
            break
        cols.append(v / nv)
    K = np.concatenate(cols, axis=1)
    return lstsq_quat(omul(A, K), r)


# ------------------------------------------------------------ system classes
def systems(nmax, seed, thorough):
    """yield (class_name, A(float n,n,4), b(float n,1,4))"""
    rng = np.random.default_rng(seed)
    out = []
    for n in range(1, nmax + 1):
        ul = E.ulib(n)
        ones = np.zeros((n, 1, 4))
        ones[:, 0, 0] = 1.0
        ones[:, 0, 1 + (n % 3)] = 0.5
        # Hermitian with every number of distinct eigenvalues 1..n
        for gdist in range(1, n + 1):
            lam = [2 + (i % gdist) * 3 for i in range(n)]
            if gdist > 1:
                lam[-1] = -lam[-1]              # indefinite
            for (un, U) in (ul[min(3, len(ul) - 1)], ul[-1]) if thorough else (ul[-1],):
                A = E.herm_from_spectrum(U, lam)
                b = omul(U, ones)
                out.append(("herm:g%d" % gdist, A, b))
            if gdist > 1:
                # eigenvector right-hand side: grade 1 although A has several eigenvalues
                U = ul[-1][1]
                e1 = np.zeros((n, 1, 4))
                e1[0, 0, 0] = 1.0
                out.append(("herm-eigvec:g1", E.herm_from_spectrum(U, lam), omul(U, e1)))
        # scaled identity (real and quaternion scalar)
        out.append(("scaled-identity", oeye(n) * 3.0, rng.integers(-3, 4, (n, 1, 4)).astype(float) + ones))
        qI = np.zeros((n, n, 4))
        for i in range(n):
            qI[i, i] = [1, 2, 0, -1]
        out.append(("quat-scalar-identity", qI, rng.integers(-3, 4, (n, 1, 4)).astype(float) + ones))
        # identity (exactly)
        out.append(("identity", oeye(n), rng.integers(-3, 4, (n, 1, 4)).astype(float) + ones))
        if n >= 2:
            u = rng.integers(-1, 2, (n, 1, 4)).astype(float)
            v = rng.integers(-1, 2, (n, 1, 4)).astype(float)
            out.append(("identity+rank1", oeye(n) * 4.0 + omul(u, oherm(v)), ones + u))
            T = np.triu(rng.integers(-2, 3, (n, n, 4)).astype(float).transpose(2, 0, 1)).transpose(1, 2, 0)
            for i in range(n):
                T[i, i] = [3 + i, 1, 0, 0]
            out.append(("triangular", T, ones))
            D = np.zeros((n, n, 4))
            for i in range(n):
                D[i, i] = [2, 0, 0, 0] if i % 2 == 0 else [0, 0, 3, 0]
            out.append(("diag-repeated", D, ones))
            out.append(("unitary-monomial", ul[1][1], np.eye(n)[:, :1, None] * np.array([1.0, 0, 0, 0])))
            out.append(("unitary-reflector", ul[-1][1], ones))
        if n >= 3:
            # graded and indefinite on the small part: sub-diagonals of the Hessenberg matrix become small relative to
            # ||A|| (between machine precision and the tolerance) long before the Krylov space is invariant
            lam = ([1024.0, 1024.0] + [(-1.0) ** i for i in range(n - 2)])[:n]
            U = ul[-1][1]
            out.append(("graded-indefinite|g=%d" % len(set(lam)), E.herm_from_spectrum(U, lam), omul(U, ones)))
            B = np.zeros((n, n, 4))
            B[0, 0, 0] = 1024.0
            for i in range(1, n):                       # 1024 (+) quaternion cyclic shift on the rest
                B[i, 1 + (i % (n - 1)), 1 + (i % 3)] = 1.0
            e_last = np.zeros((n, 1, 4))
            e_last[n - 1, 0, 0] = 1.0
            out.append(("graded-block-shift", B, e_last + ones * 0.0))
        G = rng.standard_normal((n, n, 4)) + oeye(n) * 3.0
        out.append(("generic", G, rng.standard_normal((n, 1, 4))))
        if thorough:
            for _ in range(3):
                G = rng.standard_normal((n, n, 4))
                out.append(("generic-unshifted", G, rng.standard_normal((n, 1, 4))))
    return out


def _solve(A, b, tol, cap, prec, dense):
    """solve and record, by wrapping the module-level Givens QR, the dimension of each cycle's Hessenberg system"""
    S = lib().solver
    s = S.QGMRESSolver(tol=tol, max_iter=cap, verbose=False, preconditioner=prec)
    Aq = q_from_float(A) if dense else _sp(A)
    kd = []
    orig = S.Hess_QR_ggivens

    def wrap(Hess):
        kd.append(int(Hess.shape[1]))
        return orig(Hess)
    S.Hess_QR_ggivens = wrap
    try:
        x, info = s.solve(Aq, q_from_float(b))
    finally:
        S.Hess_QR_ggivens = orig
    info = dict(info)
    info["_kdims"] = kd
    return q_to_float(np.asarray(x)).reshape(A.shape[0], 1, 4), info


def _run_system(args):
    """All configured runs on one system -> (events, inputs)"""
    sid, cname, A, b, tols, scales, thorough = args
    n = A.shape[0]
    ev = []
    sv = osvals(A)
    cond = float(sv[0] / sv[-1])
    cond_lg = max(0, lg(cond))
    if "|g=" in cname:                       # grade known from the construction (distinct eigenvalues excited by b)
        cname, gk = cname.split("|g=")
        g0 = int(gk)
    else:
        g0 = grade(A, b)
    tid = sid * 10000
    base = {}
    caps = [None] + list(range(0, n + 1))
    for tol in tols:
        for prec in ("none", "left_lu"):
            for dense in (True, False):
                for cap in caps:
                    if not thorough and not dense and cap not in (None, 0, n):
                        continue
                    tid += 1
                    lufault = (prec == "left_lu" and not dense)   # quaternion_lu rejects sparse input: silent fallback
                    geff = 1 if (prec == "left_lu" and not lufault) else g0
                    start = {"tid": tid, "ev": "Start", "cls": cname, "N": n, "g": g0, "geff": geff,
                             "cap": NOCAP if cap is None else cap, "tol_lg": lg(tol),
                             "prec": prec, "lufault": lufault, "bzero": False, "dense": dense,
                             "cond_lg": cond_lg if prec == "left_lu" else 0, "condA_lg": cond_lg}
                    ev.append(start)
                    try:
                        x, info = _solve(A, b, tol, cap, prec, dense)
                    except Exception as e:
                        ev.append({"tid": tid, "ev": "Return", "iters": 0, "converged": False, "finite": False,
                                   "info_lg": 100000, "true_lg": 100000, "xzero": False, "exc": repr(e)})
                        continue
                    kds = info.get("_kdims", [])
                    for ci, h in enumerate(info.get("residual_history", [])):
                        ev.append({"tid": tid, "ev": "Cycle", "m": int(h[0]), "res_lg": lg(float(h[2])),
                                   "kdim": kds[ci] if ci < len(kds) else int(h[0])})
                    finite = bool(np.all(np.isfinite(x)) and math.isfinite(float(info["residual"])))
                    tr = ofro(omul(A, x) - b) / ofro(b) if finite else float("nan")
                    ev.append({"tid": tid, "ev": "Return", "iters": int(info["iterations"]),
                               "converged": bool(info["converged"]), "finite": finite,
                               "info_lg": lg(float(info["residual"])), "true_lg": lg(tr),
                               "xzero": bool(not np.any(x))})
                    if cap is None:
                        base[(tol, prec, dense)] = x
                    if cap is not None and prec == "none" and dense and tol == min(tols):
                        base[("cap", cap)] = x
        # cross-run clauses at this tolerance
        xn = base.get((tol, "none", True))
        xl = base.get((tol, "left_lu", True))
        xs = base.get((tol, "none", False))
        nx = max(ofro(xn), 1e-300) if xn is not None else 1.0
        if xn is not None and xl is not None and np.all(np.isfinite(xn)) and np.all(np.isfinite(xl)):
            tid += 1
            ev.append({"tid": tid, "ev": "Pair", "kind": "prec", "cls": cname,
                       "diff_lg": lg(ofro(xn - xl) / nx), "bound_lg": max(lg(tol), FLOOR) + lg(cond) + 256})
        if xn is not None and xs is not None and np.all(np.isfinite(xn)) and np.all(np.isfinite(xs)):
            tid += 1
            ev.append({"tid": tid, "ev": "Pair", "kind": "sparse", "cls": cname,
                       "diff_lg": lg(ofro(xn - xs) / nx), "bound_lg": lg(1e-12)})
        # the same values stored in other plane dtypes (float32, and int64 when the entries are integers): the solution
        # is a function of the values, not of the storage dtype of the sparse planes
        if tol == min(tols) and xn is not None and np.all(np.isfinite(xn)):
            u_ = lib().utils
            S_2 = lib().solver
            dts = ([np.float32] if np.array_equal(A.astype(np.float32).astype(np.float64), A) else []) + \
                  ([np.int64] if np.array_equal(np.rint(A), A) and np.max(np.abs(A)) < 2 ** 40 else [])
            for dt in dts:
                spd = u_.SparseQuaternionMatrix(*[sparse.csr_matrix(A[..., c_].astype(dt)) for c_ in range(4)], A.shape[:2])
                try:
                    xd, _ = S_2.QGMRESSolver(tol=tol).solve(spd, q_from_float(b))
                    xd = q_to_float(np.asarray(xd)).reshape(xn.shape)
                    dd = ofro(xd - xn) / nx if np.all(np.isfinite(xd)) else float("inf")
                except Exception:
                    dd = float("inf")
                tid += 1
                ev.append({"tid": tid, "ev": "Pair", "kind": "sparse", "cls": cname, "plane_dtype": np.dtype(dt).name,
                           "diff_lg": lg(dd), "bound_lg": max(lg(tol), FLOOR) + lg(cond) + 256})
        for c in scales:
            try:
                xc, _ = _solve(A * c, b * c, tol, None, "none", True)
            except Exception:
                xc = np.full_like(b, np.nan)
            tid += 1
            d = ofro(xn - xc) / nx if (xn is not None and np.all(np.isfinite(xc)) and np.all(np.isfinite(xn))) else float("inf")
            ev.append({"tid": tid, "ev": "Pair", "kind": "scale", "cls": cname, "c_lg": lg(c),
                       "diff_lg": lg(d), "bound_lg": max(lg(tol), FLOOR) + lg(cond) + 256})
    # ALIASED arguments: the right-hand side is a view of the matrix's first column (the answer is e_1) - an in-place
    # shortcut on either argument must not disturb the other
    S_ = lib().solver
    for prec in ("none", "left_lu"):
        Aq = q_from_float(A)
        bview = Aq[:, 0:1]
        xa, _ = S_.QGMRESSolver(tol=1e-10, preconditioner=prec).solve(Aq, bview)
        xaf = q_to_float(np.asarray(xa)).reshape(n, -1, 4)
        e1 = np.zeros_like(xaf)
        e1[0, 0, 0] = 1.0
        tid += 1
        okargs = bool(np.array_equal(q_to_float(Aq), A))
        d = ofro(xaf - e1) if (np.all(np.isfinite(xaf)) and okargs) else float("inf")
        ev.append({"tid": tid, "ev": "Pair", "kind": "reuse", "cls": cname, "prec": prec, "aliased_rhs": True,
                   "diff_lg": lg(d), "bound_lg": lg(1e-10) + max(0, lg(cond)) + 256})
    # a REUSED solver whose matrix argument was updated in place between two solves (same array object)
    for prec in ("none", "left_lu"):
        try:
            sol = S_.QGMRESSolver(tol=1e-10, preconditioner=prec)
            Aq = np.array(q_from_float(A))          # writable: updated in place below
            bq = q_from_float(b)
            sol.solve(Aq, bq)
            Aq *= 2.0
            Aq[0, 0] = Aq[0, 0] + np.quaternion(float(np.max(np.abs(A))), 0.0, 0.0, 0.0)     # same object, new contents
            x2, _ = sol.solve(Aq, bq)
            xf, _ = S_.QGMRESSolver(tol=1e-10, preconditioner=prec).solve(Aq.copy(), bq.copy())
            x2f, xff = q_to_float(np.asarray(x2)), q_to_float(np.asarray(xf))
            A2 = q_to_float(Aq)
            c2 = float(osvals(A2)[0] / max(osvals(A2)[-1], 1e-300))
            d = ofro(x2f - xff) / max(ofro(xff), 1e-300) if np.all(np.isfinite(x2f)) and np.all(np.isfinite(xff)) else float("inf")
            tid += 1
            ev.append({"tid": tid, "ev": "Pair", "kind": "reuse", "cls": cname, "prec": prec,
                       "diff_lg": lg(d), "bound_lg": lg(1e-10) + max(0, lg(c2)) + 256})
        except Exception:
            raise
    # per-cycle optimality (unpreconditioned, tightest tolerance): iterate of cap c is cycle c+1
    xprev = np.zeros_like(b)
    for c in range(0, n):
        xc = base.get(("cap", c))
        if xc is None or not np.all(np.isfinite(xc)):
            break
        m = c + 1
        rprev = b - omul(A, xprev)
        if ofro(rprev) / ofro(b) < 1e-11:
            break
        opt = krylov_opt(A, rprev, m)
        act = ofro(b - omul(A, xc))
        flo = 1e-13 * ofro(b) * max(1.0, cond)
        ratio = (act + flo) / (opt + flo)
        tid += 1
        ev.append({"tid": tid, "ev": "Opt", "cls": cname, "m": m, "res_lg": lg(max(act, opt) / ofro(b)), "cond_lg": max(0, lg(cond)),
                   "ratio_fx": int(min(math.ceil(ratio * 32768), 2 ** 30))})
        xprev = xc
    # zero right-hand side
    for prec in ("none", "left_lu"):
        tid += 1
        ev.append({"tid": tid, "ev": "Start", "cls": cname, "N": n, "g": 0, "geff": 0, "cap": NOCAP,
                   "tol_lg": lg(1e-8), "prec": prec, "lufault": False, "bzero": True, "dense": True, "cond_lg": 0, "condA_lg": 0})
        try:
            import io
            import contextlib
            with np.errstate(all="ignore"), contextlib.redirect_stdout(io.StringIO()):
                x, info = _solve(A, np.zeros_like(b), 1e-8, None, prec, True)
            for h in info.get("residual_history", []):
                ev.append({"tid": tid, "ev": "Cycle", "m": int(h[0]), "res_lg": lg(float(h[2])), "kdim": int(h[0])})
            finite = bool(np.all(np.isfinite(x)))
            ev.append({"tid": tid, "ev": "Return", "iters": int(info["iterations"]),
                       "converged": bool(info["converged"]), "finite": finite, "info_lg": lg(float(info["residual"])) if finite else 100000,
                       "true_lg": -100000 if finite and not np.any(x) else 100000, "xzero": bool(finite and not np.any(x))})
        except Exception as e:
            ev.append({"tid": tid, "ev": "Return", "iters": 0, "converged": False, "finite": False,
                       "info_lg": 100000, "true_lg": 100000, "xzero": False, "exc": repr(e)})
    return ev, {"cls": cname, "A": A.tolist(), "b": b.tolist(), "grade": g0, "cond": cond}


def run(ctx, replay=None):
    lib()
    ctx.notes["reflectors_certified_by_TLC"] = E.check_against_tlc(ctx)
    thorough = ctx.tier == "thorough"
    nmax = 6 if thorough else 4
    ctx.assumptions += [
        "the grade of (A,b) is computed by the harness as the quaternion rank of the Krylov matrix (complex-adjoint SVD, threshold 1e-9)",
        "reals are compared on the Lg grid (1/64 binade); converged => true residual <= 4*tol (x cond(A) for the preconditioned system, whose stop test is on M^-1 r); optimality ratio <= 1 + 2^-7",
        "systems have n <= %d and cond <= ~1e3; tolerances 1e-2..1e-12" % nmax,
    ]
    res = ctx.model("QGMRES", MCFG % nmax, dump=False, coverage=True)
    cov = res.get("coverage", {})
    ctx.notes["M_action_coverage"] = {k: v["distinct"] for k, v in cov.items() if k in ("ZeroRhs", "Precondition", "ArnoldiStep", "LuckyBreakdown", "FullCycle", "SolveSmall", "Test")}
    tols = [1e-2, 1e-6, 1e-10, 1e-12] if thorough else [1e-2, 1e-6, 1e-12]
    scales = [2.0 ** -20, 2.0 ** 20] if not thorough else [2.0 ** -20, 2.0 ** 20, 1e-6, 1e6]
    sysl = systems(nmax, ctx.seed, thorough)
    jobs = [(i + 1, c, A, b, tols, scales, thorough) for i, (c, A, b) in enumerate(sysl)]
    import contextlib
    import io
    outs = par.pmap(_run_system, jobs, chunk=1)
    events = []
    meta = {}
    for (ev, info), job in zip(outs, jobs):
        events += ev
        meta[job[0]] = info
    tcfg = TCFG
    bad = ctx.trace("QGMRESTrace", events, tcfg, timeout=1800)
    starts = {e["tid"]: e for e in events if e["ev"] == "Start"}
    byid = {}
    for e in events:
        byid.setdefault(e["tid"], []).append(e)
    for tid, clause in bad:
        sysinfo = meta[tid // 10000]
        st = starts.get(tid)
        cls = sysinfo["cls"]
        if clause.startswith("M:"):
            ctx.drift.append("%s on %s (tid %d)" % (clause, cls, tid))
            continue
        cfgs = "" if st is None else " prec=%s cap=%s dense=%s" % (st["prec"], st["cap"], st["dense"])
        ctx.fail("QGMRESSolver.solve", clause, cls, {"system": sysinfo, "events": byid[tid], "config": cfgs})
    for e in events:
        if e["ev"] in ("Return", "Pair", "Opt"):
            ctx.case((e["tid"],))
            ctx.count({"Return": "Truthful/ConvSound/AtMostN", "Pair": "Independence", "Opt": "CycleOptimal"}[e["ev"]])
    ctx.replays += sum(1 for e in events if e["ev"] == "Return")
    ctx.sample({"direction": "B", "trace": byid[10001 + 0] if 10001 in byid else events[:4]})
    k = [t for t in byid if any(e["ev"] == "Opt" for e in byid[t])]
    if k:
        ctx.sample({"direction": "B", "opt_event": byid[k[0]]})
    ctx.notes["systems"] = len(sysl)
    ctx.notes["classes"] = sorted({c for c, _, _ in sysl})
    # the signal-processing application as a driver of real-use systems (Lorenz.tla; circulant quaternion systems)
    from .. import lorenzapp
    lorenzapp.stage(ctx, quick=ctx.tier != "thorough")
    return "model_checking"
