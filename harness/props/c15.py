"""C15 - matrix norms are genuine, mutually consistent norms.

F: Norms.tla enumerates every small matrix over Pythagorean entries (integer
   moduli) x integer scalings; TLC computes ||.||_1, ||.||_inf, ||.||_F^2 from
   the definitions and checks the axioms / cross-norm inequalities in integers;
   each state is replayed through every spelling of every norm entry point.
   Spectral norm: exact family U diag(s) V^H (largest singular value known).
B: random float matrices / pairs / triples: axioms and inequalities measured
   as integer margins and bounded by NormsTrace.tla.
"""
import math

import numpy as np
import quaternion
from scipy import sparse

from .. import par
from .. import exactfam as E
from ..qlib import lib, q_from_float, osvals, omul, ofro, units, EPS

MCFG = """CONSTANT Big = %s
SPECIFICATION Spec
INVARIANTS Homogeneous Definite FroLeOneInf OneLeFro InfLeFro TransposeSwaps
CHECK_DEADLOCK FALSE
"""
TCFG = """CONSTANT UnitsBound = 256
INIT TInit
NEXT TNext
INVARIANT Report
CHECK_DEADLOCK FALSE
"""


def all_fro(F):
    u = lib().utils
    t = lib().tensor
    Aq = q_from_float(F.copy())
    comps = [np.ascontiguousarray(F[..., c]) for c in range(4)]
    from ..qlib import sp_quat
    sp = sp_quat(F)
    return {
        "matrix_norm(None)": u.matrix_norm(Aq), "matrix_norm('fro')": u.matrix_norm(Aq, "fro"),
        "matrix_norm('F')": u.matrix_norm(Aq, "F"), "quat_frobenius_norm.dense": u.quat_frobenius_norm(Aq),
        "quat_frobenius_norm.sparse": u.quat_frobenius_norm(sp), "matrix_norm(sparse,'fro')": u.matrix_norm(sp, "fro"),
        "normQ": u.normQ(Aq), "normQsparse.dense": u.normQsparse(*comps), "normQsparse.numpy-matrix": u.normQsparse(*[np.asmatrix(c) for c in comps]),
        # a column given as four 1-D component vectors (how the Krylov solver holds its vectors)
        **({"normQsparse.1d": u.normQsparse(*[c[:, 0].copy() for c in comps])} if F.shape[1] == 1 else {}),
        "normQsparse.sparse": u.normQsparse(*[sparse.csr_matrix(c) for c in comps]),
        # every scipy storage format holds the same matrix (seed C15o): CSC, COO, and DIA whose padding slots - positions
        # of the band array that lie outside the matrix, which scipy ignores - are not zero (what spdiags builds)
        "normQsparse.sparse-csc": u.normQsparse(*[sparse.csc_matrix(c) for c in comps]),
        "normQsparse.sparse-coo": u.normQsparse(*[sparse.coo_matrix(c) for c in comps]),
        "normQsparse.sparse-dia-padded": u.normQsparse(*[_dia_padded(c) for c in comps]),
        "tensor_frobenius_norm": t.tensor_frobenius_norm(Aq.reshape(Aq.shape + (1,))),
        "sqrt(sum tensor_entrywise_abs^2)": float(np.sqrt(np.sum(t.tensor_entrywise_abs(Aq) ** 2))),
    }


def _dia_padded(c):
    """c as a scipy DIA matrix whose band array carries non-zero values in the slots outside the matrix"""
    d = sparse.dia_matrix(c)
    if d.data.size == 0:
        return d
    data = np.array(d.data, dtype=np.float64)
    m, n = d.shape
    for r, off in enumerate(d.offsets):
        for jc in range(data.shape[1]):
            if not (0 <= jc - off < m and jc < n):
                data[r, jc] = 7.0
    out = sparse.dia_matrix((data, d.offsets), shape=d.shape)
    assert np.array_equal(out.toarray(), np.asarray(c)), "harness: padded DIA does not hold the same matrix"
    return out


def n1(F):
    u = lib().utils
    A = q_from_float(F.copy())
    return {"matrix_norm(1)": u.matrix_norm(A, 1), "induced_matrix_norm_1": u.induced_matrix_norm_1(A)}


def ninf(F):
    u = lib().utils
    A = q_from_float(F.copy())
    return {"matrix_norm(inf)": u.matrix_norm(A, np.inf), "matrix_norm('inf')": u.matrix_norm(A, "inf"),
            "matrix_norm(float inf)": u.matrix_norm(A, float("inf")), "induced_matrix_norm_inf": u.induced_matrix_norm_inf(A)}


def n2(F):
    u = lib().utils
    A = q_from_float(F.copy())
    return {"matrix_norm(2)": u.matrix_norm(A, 2), "spectral_norm_2": u.spectral_norm_2(A)}


def _replay_state(st):
    A = np.array(st["A"], dtype=np.float64) * st["c"]
    out = st["out"]
    fails = []
    n = 0
    for name, v in n1(A).items():
        n += 1
        if float(v) != float(out["n1"]):
            fails.append((name, "OneNormIsMaxColumnSum", {"A": A.tolist(), "got": float(v), "expected": out["n1"]}))
    for name, v in ninf(A).items():
        n += 1
        if float(v) != float(out["ninf"]):
            fails.append((name, "InfNormIsMaxRowSum", {"A": A.tolist(), "got": float(v), "expected": out["ninf"]}))
    ex = math.sqrt(out["fro2"])
    for name, v in all_fro(A).items():
        n += 1
        if abs(float(v) - ex) > 4 * EPS * max(ex, 1e-300):
            fails.append((name, "FroIsRootSumSquares", {"A": A.tolist(), "got": float(v), "expected_sq": out["fro2"]}))
    # component-form norm on planes stored in narrow integer dtypes (values fit; their squares may not)
    if np.max(np.abs(A)) <= 127:
        u = lib().utils
        for dt in (np.int8, np.int16, np.int32, np.float32):
            planes = [np.ascontiguousarray(A[..., c]).astype(dt) for c in range(4)]
            for tag, pl in (("dense", planes), ("sparse", [sparse.csr_matrix(x) for x in planes])):
                n += 1
                v = float(u.normQsparse(*pl))
                if abs(v - ex) > 1e-6 * max(ex, 1e-300):
                    fails.append(("normQsparse.%s[%s]" % (tag, np.dtype(dt).name), "FroIsRootSumSquares",
                                  {"A": A.tolist(), "got": v, "expected_sq": out["fro2"]}))
    s = osvals(A)
    s1 = float(s[0]) if len(s) else 0.0
    r = int(np.sum(s > 1e-10 * max(s1, 1e-300))) if len(s) else 0
    for name, v in n2(A).items():
        n += 1
        v = float(v)
        if abs(v - s1) > 256 * EPS * max(s1, 1e-300) * max(A.shape[:2]):
            fails.append((name, "TwoNormIsLargestSingularValue", {"A": A.tolist(), "got": v, "oracle": s1}))
        if v > ex * (1 + 1e-12) or ex > math.sqrt(max(r, 1)) * v * (1 + 1e-12) + (0 if r else 1e-300):
            fails.append((name, "TwoLeFroLeSqrtRankTwo", {"A": A.tolist(), "two": v, "fro": ex, "rank": r}))
        if v * v > out["n1"] * out["ninf"] * (1 + 1e-12):
            fails.append((name, "TwoSquaredLeOneTimesInf", {"A": A.tolist(), "two": v, "one": out["n1"], "inf": out["ninf"]}))
    return n, fails


def _spectral_family(args):
    """exact family with known largest singular value"""
    m, n, seed = args
    fails = []
    cnt = 0
    Us, Vs = E.ulib(m), E.ulib(n)
    k = min(m, n)
    pats = [p for p in E.patterns([5, 3, 2, 0], k)]
    for pi, s in enumerate(pats):
        U = Us[(pi + 3) % len(Us)][1]
        V = Vs[(2 * pi + 1) % len(Vs)][1]
        A = E.usv(U, s, V)
        for name, v in n2(A).items():
            cnt += 1
            if abs(float(v) - s[0]) > 256 * EPS * max(s[0], 1) * max(m, n):
                fails.append((name, "TwoNormIsLargestSingularValue", "usv",
                              {"s": s, "U": Us[(pi + 3) % len(Us)][0], "V": Vs[(2 * pi + 1) % len(Vs)][0], "shape": [m, n], "got": float(v)}))
    if m == n:
        for lam in ([-5, 3, 2, 1][:m], [-4, -4, 1, 0][:m], [2, -3, -3, 3][:m], [-1] * m):
            for (un, U) in (Us[-1], Us[1 % len(Us)]):
                A = E.herm_from_spectrum(U, lam)
                ex = max(abs(x) for x in lam)
                for name, v in n2(A).items():
                    cnt += 1
                    if abs(float(v) - ex) > 256 * EPS * ex * m:
                        fails.append((name, "TwoNormIsLargestSingularValue", "hermitian-negative-dominant",
                                      {"lambda": lam, "U": un, "got": float(v), "expected": ex}))
    return cnt, fails


def _clamp(x):
    if x != x:
        return 2 ** 30
    return int(max(-2 ** 30, min(2 ** 30, math.ceil(x))))


def _b_events(args):
    seed, count, tid0 = args
    rng = np.random.default_rng(seed)
    u = lib().utils
    ev = []
    ords = [None, 1, 2, np.inf]

    def N(F, o):
        return float(u.matrix_norm(q_from_float(F.copy()), o))
    for t in range(count):
        tid = tid0 + t
        m, k, n = (int(x) for x in rng.integers(1, 5, 3))
        sc = 10.0 ** rng.integers(-6, 7)
        A = rng.standard_normal((m, k, 4)) * sc
        B = rng.standard_normal((m, k, 4)) * sc
        C = rng.standard_normal((k, n, 4))
        if t % 7 == 0:
            A[:, 0] = 0
        for o in ords:
            on = str(o)
            nA, nB, nC = N(A, o), N(B, o), N(C, o)
            size = 4 * max(m, k, n)
            ev.append({"tid": tid, "op": "ineq", "clause": "Triangle", "ord": on,
                       "viol": _clamp((N(A + B, o) - nA - nB) / (EPS * (nA + nB + 1e-300) * size))})
            ev.append({"tid": tid, "op": "ineq", "clause": "SubMultiplicative", "ord": on,
                       "viol": _clamp((N(omul(A, C), o) - nA * nC) / (EPS * (nA * nC + 1e-300) * size))})
            cc = float(rng.choice([-3.0, 0.5, 7.25, -1e-3, 0.0]))
            ev.append({"tid": tid, "op": "eq", "clause": "Homogeneous", "ord": on,
                       "units": units(abs(N(A * cc, o) - abs(cc) * nA), abs(cc) * nA + 1e-300, size)})
            ev.append({"tid": tid, "op": "flag", "clause": "NonNegative", "ord": on, "ok": bool(nA >= 0 and math.isfinite(nA))})
        two, fro, one, inf = N(A, 2), N(A, None), N(A, 1), N(A, np.inf)
        s = osvals(A)
        r = int(np.sum(s > 1e-10 * s[0])) if len(s) and s[0] > 0 else 0
        ev.append({"tid": tid, "op": "eq", "clause": "TwoNormIsLargestSingularValue",
                   "units": units(abs(two - float(s[0])), float(s[0]) + 1e-300, 4 * max(m, k))})
        ev.append({"tid": tid, "op": "ineq", "clause": "TwoLeFro",
                   "viol": _clamp((two - fro) / (EPS * (fro + 1e-300) * 16))})
        ev.append({"tid": tid, "op": "ineq", "clause": "FroLeSqrtRankTwo",
                   "viol": _clamp((fro - math.sqrt(max(r, 1)) * two) / (EPS * (fro + 1e-300) * 16))})
        ev.append({"tid": tid, "op": "ineq", "clause": "TwoSquaredLeOneTimesInf",
                   "viol": _clamp((two * two - one * inf) / (EPS * (one * inf + 1e-300) * 16))})
        fr = all_fro(A)
        ev.append({"tid": tid, "op": "eq", "clause": "FroEntryPointsAgree",
                   "units": units(max(fr.values()) - min(fr.values()), fro + 1e-300, 1)})
    return ev


def run(ctx, replay=None):
    lib()
    ctx.notes["reflectors_certified_by_TLC"] = E.check_against_tlc(ctx)
    thorough = ctx.tier == "thorough"
    u = lib().utils
    ctx.assumptions += [
        "Pythagorean entries: 1- and inf-norms are exact integers in float64 (sqrt of perfect squares and sums are exact); Frobenius compared to 4 ulp; spectral norm to 256 units against the complex-adjoint oracle / the constructed largest singular value",
        "float inputs: each axiom/inequality is measured as an integer margin in units of 2^-52*scale*size and bounded at 256",
    ]
    res = ctx.model("Norms", MCFG % ("TRUE" if thorough else "FALSE"), dump=True)
    done = [s for s in res["states"] if s["pc"] == "done"]
    if not thorough:
        done = [s for i, s in enumerate(done) if (i % 3 == ctx.seed % 3) or len(s["A"]) * len(s["A"][0]) <= 2]
    else:
        ctx.exhaustive = True
    for st, (n, fails) in zip(done, par.pmap(_replay_state, done)):
        ctx.replays += n
        ctx.case(("F", str(st["A"]), st["c"]))
        for fn, clause, detail in fails:
            ctx.fail(fn, clause, "pythagorean", detail)
    ctx.sample({"direction": "F", "A": done[len(done) // 2]["A"], "c": done[len(done) // 2]["c"], "expected": done[len(done) // 2]["out"]})
    shapes = [(m, n) for m in range(1, 5 if thorough else 4) for n in range(1, 5 if thorough else 4)]
    for (m, n), (cnt, fails) in zip(shapes, par.pmap(_spectral_family, [(m, n, ctx.seed) for m, n in shapes])):
        ctx.replays += cnt
        ctx.case(("spectral", m, n))
        for fn, clause, cls, detail in fails:
            ctx.fail(fn, clause, cls, detail)
    rngh0 = np.random.default_rng(ctx.seed + 76)
    # unknown ord values are rejected; dense-only norms reject sparse input
    A = q_from_float(np.ones((2, 2, 4)))
    for bad in ("nuc", 3, -1, "2", "one", 0):
        ctx.replays += 1
        try:
            v = u.matrix_norm(A, bad)
            ctx.fail("matrix_norm", "UnknownOrdRejected", "ord=%r" % (bad,), {"ord": repr(bad), "returned": float(v)})
        except Exception:
            pass
    # matrices with a zero-length axis (what the library's own null-space routines return for a full-rank matrix, and every
    # product / transpose formed from that): an empty sum of moduli, no singular values - every norm is 0, none raises
    A3 = q_from_float(rngh0.standard_normal((4, 3, 4)))
    N_ = u.quat_null_space(A3, side="right")
    empties = [("null space of a full-rank 4x3 matrix", N_), ("its Hermitian transpose", u.quat_hermitian(N_)),
               ("3x0", quaternion.as_quat_array(np.zeros((3, 0, 4)))), ("0x4", quaternion.as_quat_array(np.zeros((0, 4, 4)))), ("0x0", quaternion.as_quat_array(np.zeros((0, 0, 4))))]
    for label, Em in empties:
        if 0 not in np.shape(Em):
            continue                      # (the null space was not empty: nothing to check here)
        for name, f_, clause in (("matrix_norm(1)", lambda: u.matrix_norm(Em, 1), "OneNormIsMaxColumnSum"), ("induced_matrix_norm_1", lambda: u.induced_matrix_norm_1(Em), "OneNormIsMaxColumnSum"),
                                 ("matrix_norm(inf)", lambda: u.matrix_norm(Em, np.inf), "InfNormIsMaxRowSum"), ("matrix_norm('inf')", lambda: u.matrix_norm(Em, "inf"), "InfNormIsMaxRowSum"),
                                 ("induced_matrix_norm_inf", lambda: u.induced_matrix_norm_inf(Em), "InfNormIsMaxRowSum"),
                                 ("matrix_norm(2)", lambda: u.matrix_norm(Em, 2), "TwoNormIsLargestSingularValue"), ("spectral_norm_2", lambda: u.spectral_norm_2(Em), "TwoNormIsLargestSingularValue"),
                                 ("matrix_norm('fro')", lambda: u.matrix_norm(Em, "fro"), "FroIsRootSumSquares"), ("matrix_norm(None)", lambda: u.matrix_norm(Em), "FroIsRootSumSquares"),
                                 ("quat_frobenius_norm.dense", lambda: u.quat_frobenius_norm(Em), "FroIsRootSumSquares"), ("normQ", lambda: u.normQ(Em), "FroIsRootSumSquares")):
            ctx.replays += 1
            ctx.case(("empty", label, name))
            try:
                v = float(f_())
                if v != 0.0:
                    ctx.fail(name, clause, "zero-length-axis", {"matrix": label, "shape": list(np.shape(Em)), "returned": v, "want": 0.0})
            except Exception as e_:
                ctx.fail(name, clause, "zero-length-axis", {"matrix": label, "shape": list(np.shape(Em)), "raised": repr(e_), "want": 0.0})
    # call history with the SAME data in different shapes (same bytes, different matrix): a result may not be remembered
    # under a key that ignores the shape; also equal shapes with different values, back to back in one process
    rngh = np.random.default_rng(ctx.seed + 77)
    for rep in range(6 if thorough else 2):
        base = rngh.integers(-4, 5, (12, 4)).astype(float)
        for shp in ((1, 12), (2, 6), (3, 4), (4, 3), (6, 2), (12, 1), (3, 4)):
            Fh = base.reshape(shp + (4,))
            if shp == (3, 4) and rep % 2:
                Fh = Fh[::-1].copy()                      # same shape, other values
            mod = np.sqrt(np.sum(Fh * Fh, axis=-1))
            want = {"1": float(np.max(np.sum(mod, axis=0))), "inf": float(np.max(np.sum(mod, axis=1))), "2": float(osvals(Fh)[0]), "fro": ofro(Fh)}
            for fam, d in (("1", n1(Fh)), ("inf", ninf(Fh)), ("2", n2(Fh)), ("fro", all_fro(Fh))):
                for name, v in d.items():
                    ctx.replays += 1
                    if abs(float(v) - want[fam]) > 1e-9 * max(want[fam], 1.0):
                        ctx.fail(name, {"1": "OneNormIsMaxColumnSum", "inf": "InfNormIsMaxRowSum", "2": "TwoNormIsLargestSingularValue", "fro": "FroIsRootSumSquares"}[fam],
                                 "same-data-other-shape", {"shape": list(shp), "data": base.tolist(), "got": float(v), "expected": want[fam]})
    # legacy options of the Krylov norms ('d', '2', '1', numpy orders): outside the four norms of the property, so
    # only mechanism-level consistency is recorded (DRIFT): dense and scipy-sparse planes give the same value, the
    # quaternion form forwards to the component form, and an unknown option is rejected in both storages
    rngl = np.random.default_rng(ctx.seed + 31)
    nlegacy = 0
    for _ in range(24 if thorough else 8):
        m_, n_ = int(rngl.integers(1, 5)), int(rngl.integers(1, 5))
        Fl = rngl.integers(-4, 5, (m_, n_, 4)).astype(float)
        planes = [np.ascontiguousarray(Fl[..., c]) for c in range(4)]
        splanes = [sparse.csr_matrix(x) for x in planes]
        for opt in ("d", "2", "1", 1, np.inf, "fro"):
            nlegacy += 1
            try:
                a, b2 = float(u.normQsparse(*planes, opt)), float(u.normQsparse(*splanes, opt))
                if abs(a - b2) > 1e-12 * max(abs(a), 1.0):
                    ctx.drift.append("M:LegacyOptionStorageIndependent normQsparse(opt=%r): dense %r, sparse %r" % (opt, a, b2))
            except Exception as e:  # noqa
                ctx.drift.append("M:LegacyOptionRaises normQsparse(opt=%r): %r" % (opt, e))
        try:
            a, b2 = float(u.normQ(q_from_float(Fl), "d")), float(u.normQsparse(*planes, "d"))
            if a != b2:
                ctx.drift.append("M:normQ('d') differs from normQsparse('d')")
        except Exception as e:  # noqa
            ctx.drift.append("M:LegacyOptionRaises normQ('d'): %r" % (e,))
    ctx.drift = sorted(set(ctx.drift))[:12]
    ctx.notes["legacy_norm_option_calls"] = nlegacy
    total = 2400 if thorough else 320
    per = total // 16
    events = []
    for ev in par.pmap(_b_events, [(ctx.seed * 7919 + c, per, c * per) for c in range(16)], chunk=1):
        events += ev
    bad = ctx.trace("NormsTrace", events, TCFG)
    idx = {}
    for e in events:
        idx.setdefault((e["tid"], e["clause"]), []).append(e)
    for tid, clause in bad:
        e = idx[(tid, clause)][0]
        ctx.fail("matrix_norm(ord=%s)" % e.get("ord", "mixed"), clause, "random", e)
    for e in events:
        ctx.case(("B", e["tid"], e["clause"], e.get("ord")))
    ctx.sample({"direction": "B", "event": events[0]})
    return "model_checking"
