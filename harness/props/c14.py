"""C14 - results depend only on configuration and arguments: no hidden state, no mutation.

M  (History.tla): every history of <= MaxLen calls over a pool of 4 problems
   per configuration; TLC checks ConfigStable / NoCarryOver / Reproducible and
   its behaviours are the histories replayed into the code.
F  each history is executed on ONE real solver object; after every call the
   result is compared bitwise with a FRESH object's result on the same problem
   (global generator reseeded identically), the object's __dict__ with its
   constructor-time value, and SHA-256 of every argument before/after.
B  the recorded Construct/Call sequences, a mutation table over the public
   functions, seeded-routine reproducibility and package-vs-flat import digests
   are validated by HistoryTrace.tla.
"""
import contextlib
import copy
import hashlib
import io
import json
import multiprocessing as mp
import os
import pickle
import subprocess
import sys
import tempfile
import warnings

import numpy as np
import quaternion
from scipy import sparse

from .. import par
from .. import exactfam as E
from ..qlib import lib, q_from_float, q_to_float, omul, REPO, sha

MCFG = """CONSTANTS Pool = {1, 2, 3, 4}
 MaxLen = %d
 Configs = {1}
SPECIFICATION Spec
INVARIANTS ConfigStable NoCarryOver Reproducible
CHECK_DEADLOCK FALSE
"""
TCFG = """INIT TInit
NEXT TNext
INVARIANT Report
CHECK_DEADLOCK FALSE
"""
TIMING_KEYS = ("iteration_times", "total_time", "time", "times")


def digest(obj):
    """stable digest of a returned value, wall-clock fields excluded"""
    h = hashlib.sha256()

    def walk(o):
        if isinstance(o, dict):
            for k in sorted(o, key=str):
                if any(str(k) == t or str(k).endswith("_time") or str(k).endswith("_times") for t in TIMING_KEYS):
                    continue
                h.update(str(k).encode())
                walk(o[k])
        elif isinstance(o, (list, tuple)):
            h.update(b"[%d]" % len(o))
            for x in o:
                walk(x)
        elif isinstance(o, np.ndarray):
            if o.dtype == np.quaternion:
                o = quaternion.as_float_array(o)
            h.update(str(o.shape).encode())
            h.update(np.ascontiguousarray(o).tobytes())
        elif hasattr(o, "toarray"):
            walk(np.asarray(o.toarray()))
        elif hasattr(o, "real") and hasattr(o, "i") and hasattr(o, "shape") and hasattr(o, "k"):
            for part in (o.real, o.i, o.j, o.k):
                walk(part)
        elif isinstance(o, (float, np.floating)):
            h.update(np.float64(o).tobytes())
        elif isinstance(o, (int, np.integer, bool, np.bool_, str, type(None), complex, np.complexfloating)):
            h.update(repr(o).encode())
        elif isinstance(o, quaternion.quaternion):
            h.update(quaternion.as_float_array(o).tobytes())
        else:
            h.update(repr(type(o)).encode())
    walk(obj)
    return h.hexdigest()


def pool_problems(kind):
    """4 problems of different sizes / ranks (float arrays); kind selects orientation"""
    rng = np.random.default_rng(12345)
    if kind == "square-system":      # Q-GMRES: (A, b); problems 3 and 4 drive the internal fault paths
        out = []
        for n in (2, 5, 3, 6):
            A = rng.standard_normal((n, n, 4)) + 3 * np.eye(n)[:, :, None] * np.array([1.0, 0, 0, 0])
            out.append((A, rng.standard_normal((n, 1, 4))))
        r = rng.standard_normal((1, 3, 4))
        out[2] = (np.concatenate([r, 2 * r, 4 * r], axis=0), out[2][1])    # rank 1: LU preconditioner hits a zero pivot
        out[3] = (out[3][0], out[3][1], "sparse")                           # sparse storage: LU rejects it (silent fallback)
        return out
    if kind == "tall":               # full column rank, m >= n
        return [(rng.standard_normal(s + (4,)),) for s in ((2, 2), (5, 3), (3, 3), (6, 4))]
    if kind == "any":                # any shape / rank
        P = [(rng.standard_normal((2, 2, 4)),), (rng.standard_normal((5, 3, 4)),), (rng.standard_normal((3, 5, 4)),)]
        P.append((omul(rng.standard_normal((6, 2, 4)), rng.standard_normal((2, 4, 4))),))   # rank 2
        return P
    raise KeyError(kind)


def configs(thorough):
    """(name, factory, pool kind, method) -- factory builds a fresh object"""
    Sv = lib().solver
    C = [
        ("NS(gamma=.5)", lambda: Sv.NewtonSchulzPseudoinverse(gamma=0.5, max_iter=15, tol=1e-8), "any", "compute"),
        ("NS(noresid)", lambda: Sv.NewtonSchulzPseudoinverse(gamma=1.0, max_iter=12, tol=1e-8, compute_residuals=False), "any", "compute"),
        ("HON", lambda: Sv.HigherOrderNewtonSchulzPseudoinverse(max_iter=8), "any", "compute"),
        ("QGMRES(cap=None)", lambda: Sv.QGMRESSolver(tol=1e-10), "square-system", "solve"),
        ("QGMRES(cap=2)", lambda: Sv.QGMRESSolver(tol=1e-10, max_iter=2), "square-system", "solve"),
        ("QGMRES(left_lu)", lambda: Sv.QGMRESSolver(tol=1e-10, preconditioner="left_lu"), "square-system", "solve"),
        ("RSP(qr,block=16)", lambda: Sv.RandomizedSketchProjectPseudoinverse(block_size=16, max_iter=12, tol=1e-9, test_sketch_size=4, seed=7), "any", "compute"),
        ("RSP(spd,block=2)", lambda: Sv.RandomizedSketchProjectPseudoinverse(block_size=2, max_iter=10, tol=1e-9, test_sketch_size=4, seed=7, column_solver="spd"), "any", "compute"),
        ("RSP.column(block=3)", lambda: Sv.RandomizedSketchProjectPseudoinverse(block_size=2, max_iter=8, tol=1e-9, test_sketch_size=3), "tall", "compute_column_variant"),
        ("Hybrid(r=2)", lambda: Sv.HybridRSPNewtonSchulz(r=2, p=4, T=2, tol=1e-9, max_iter=8, seed=3), "tall", "compute"),
        ("CGNE", lambda: Sv.CGNEQSolver(tol=1e-10, max_iter=30), "tall", "compute"),
    ]
    if thorough:
        C += [
            ("Hybrid(spd)", lambda: Sv.HybridRSPNewtonSchulz(r=12, p=2, T=3, tol=1e-9, max_iter=9, seed=3, column_solver="spd"), "tall", "compute"),
            ("CGNE(prec=2)", lambda: Sv.CGNEQSolver(tol=1e-10, max_iter=30, preconditioner_rank=2, seed=5), "tall", "compute"),
            ("QGMRES(cap=0)", lambda: Sv.QGMRESSolver(tol=1e-6, max_iter=0), "square-system", "solve"),
        ]
    return C


def snap_value(v):
    """comparable copy of one attribute; objects that cannot be copied (modules, generators, locks, ...) are
    represented by what identifies their state, so that a check never crashes on what a change stores"""
    import types
    if isinstance(v, types.ModuleType):
        return ("module", v.__name__)
    if isinstance(v, np.random.RandomState):
        st = v.get_state()
        return ("RandomState", str(st[0]), sha(np.asarray(st[1])), int(st[2]))
    if isinstance(v, np.random.Generator):
        return ("Generator", repr(v.bit_generator.state))
    try:
        return copy.deepcopy(v)
    except Exception:
        return ("uncopyable", type(v).__name__, repr(v)[:200])


def _snapshot(o):
    return {k: snap_value(v) for k, v in vars(o).items()}


def _same_dict(a, b):
    if set(a) != set(b):
        return False
    for k in a:
        x, y = a[k], b[k]
        if isinstance(x, np.ndarray) or isinstance(y, np.ndarray):
            if not (isinstance(x, np.ndarray) and isinstance(y, np.ndarray) and x.shape == y.shape and sha(x) == sha(y)):
                return False
        elif x != y or type(x) is not type(y):
            return False
    return True


def _sparse(F):
    u = lib().utils
    return u.SparseQuaternionMatrix(*[sparse.csr_matrix(F[..., c]) for c in range(4)], F.shape[:2])


def _call(obj, method, prob, seed):
    if len(prob) == 3 and prob[2] == "sparse":
        args = [_sparse(prob[0]), q_from_float(prob[1])]
    else:
        args = [q_from_float(a) for a in prob]
    before = [sha(a) for a in args]
    np.random.seed(seed)
    with contextlib.redirect_stdout(io.StringIO()):
        out = getattr(obj, method)(*args)
    if type(obj).__name__ == "HigherOrderNewtonSchulzPseudoinverse":
        out = out[:2]          # third value is wall-clock time per iteration
    after = [sha(a) for a in args]
    dg = digest(out)
    # what was returned belongs to the caller, who now works on it in place: a solver that kept a reference (a cached
    # solution, a history list it goes on appending to) shows it in the next call of the history
    def scribble(o):
        if isinstance(o, np.ndarray) and o.size and o.flags.writeable:
            try:
                o[...] = o * 0 + (np.quaternion(7.0, 1.0, 0.0, 0.0) if o.dtype == np.quaternion else 7)
            except Exception:
                pass
        elif isinstance(o, list):
            for x in o:
                scribble(x)
            o.append(12345.0)
        elif isinstance(o, tuple):
            for x in o:
                scribble(x)
        elif isinstance(o, dict):
            for x in list(o.values()):
                scribble(x)
            o["scribbled-by-caller"] = True
    scribble(out)
    return dg, before == after


def _interrupted(obj, method, prob, seed, k):
    """run obj.method(problem) and raise KeyboardInterrupt inside it when the k-th function of the library is entered;
    -> True when the interrupt happened (False: the call made fewer internal calls and completed)"""
    import sys
    if len(prob) == 3 and prob[2] == "sparse":
        args = [_sparse(prob[0]), q_from_float(prob[1])]
    else:
        args = [q_from_float(a) for a in prob]
    root = os.path.join(os.path.realpath(REPO), "quatica")
    cnt = [0]

    def tracer(frame, event, arg):
        if event == "call" and os.path.realpath(frame.f_code.co_filename).startswith(root):
            cnt[0] += 1
            if cnt[0] == k:
                raise KeyboardInterrupt
        return None
    np.random.seed(seed)
    old = sys.gettrace()
    try:
        with contextlib.redirect_stdout(io.StringIO()):
            bound = getattr(obj, method)
            sys.settrace(tracer)
            try:
                bound(*args)
            finally:
                sys.settrace(old)
    except KeyboardInterrupt:
        return True
    return False


def _history_job(args):
    ci, hists, thorough = args
    name, factory, kind, method = configs(thorough)[ci]
    pool = pool_problems(kind)
    ev = []
    fresh_cache = {}
    for hi, hist in enumerate(hists):
        tid = ci * 1000 + hi + 1
        obj = factory()
        cfg0 = _snapshot(obj)
        ev.append({"tid": tid, "ev": "Construct", "cls": name, "hist": hist})
        for step, p in enumerate(hist, start=1):
            seed = 1000 + p
            d, args_ok = _call(obj, method, pool[p - 1], seed)
            if p not in fresh_cache:
                fresh_cache[p] = _call(factory(), method, pool[p - 1], seed)[0]
            d2, _ = _call(obj, method, pool[p - 1], seed) if step == len(hist) else (d, True)
            ev.append({"tid": tid, "ev": "Call", "cls": name, "step": step, "p": p,
                       "same_as_fresh": d == fresh_cache[p], "dict_unchanged": _same_dict(cfg0, _snapshot(obj)),
                       "args_unchanged": bool(args_ok), "repeat_same": d2 == d})
    # ---- usage patterns of one configuration (each compared with what a FRESH object in the same situation returns)
    tidu = ci * 1000 + 900
    p1, p2 = 1, min(2, len(pool))
    def fresh_after(setup):
        o = factory()
        setup(o)
        return _call(o, method, pool[p2 - 1], 1000 + p2)[0]
    def retune(o):
        # the caller changes documented options between calls: they take effect like on a fresh object
        if isinstance(getattr(o, "tol", None), float):
            o.tol = o.tol * 100.0
        if isinstance(getattr(o, "max_iter", None), int):
            o.max_iter = o.max_iter + 1
    pats = []
    try:
        a = factory()
        _call(a, method, pool[p1 - 1], 1000 + p1)
        pats.append(("deepcopy-after-a-call", _call(copy.deepcopy(a), method, pool[p2 - 1], 1000 + p2)[0], fresh_after(lambda o: None)))
        try:
            b = pickle.loads(pickle.dumps(a))
            pats.append(("pickle-round-trip-after-a-call", _call(b, method, pool[p2 - 1], 1000 + p2)[0], fresh_after(lambda o: None)))
        except Exception:
            pass                                          # not picklable: nothing to compare
        c = factory()
        _call(c, method, pool[p1 - 1], 1000 + p1)
        retune(c)
        pats.append(("options-changed-between-calls", _call(c, method, pool[p2 - 1], 1000 + p2)[0], fresh_after(retune)))
        d1, d2 = factory(), factory()
        _call(d1, method, pool[p1 - 1], 1000 + p1)
        _call(d2, method, pool[p2 - 1], 1000 + p2)
        pats.append(("two-objects-used-alternately", _call(d1, method, pool[p2 - 1], 1000 + p2)[0], fresh_after(lambda o: None)))
        # a call that FAILED is part of the history too: the caller catches the exception (or a notebook cell is
        # interrupted) and goes on using the object
        from ..qlib import sp_quat
        rngp = np.random.default_rng(4242 + ci)
        poisons = [("sparse-wide", lambda: (sp_quat(rngp.standard_normal((3, 9, 4))),)), ("none", lambda: (None,)),
                   ("one-dimensional", lambda: (q_from_float(rngp.standard_normal((1, 5, 4)))[0],)),
                   ("wide-1xn", lambda: (q_from_float(rngp.standard_normal((1, 9, 4))),)), ("empty", lambda: (q_from_float(np.zeros((0, 3, 4))),))]
        e = factory()
        raised = []
        for pname, mk in poisons:
            args_ = mk()
            if method == "solve":
                args_ = args_ + (q_from_float(rngp.standard_normal((3, 1, 4))),)
            try:
                with contextlib.redirect_stdout(io.StringIO()), warnings.catch_warnings():
                    warnings.simplefilter("ignore")
                    getattr(e, method)(*args_)
            except Exception:
                raised.append(pname)
        pats.append(("after-calls-that-raised(" + ",".join(raised) + ")", _call(e, method, pool[p2 - 1], 1000 + p2)[0], fresh_after(lambda o: None)))
        # ... and a call cut short by KeyboardInterrupt after its k-th internal Python call (deterministic: a trace function)
        for kint in (3, 9, 27, 81):
            f = factory()
            hit = _interrupted(f, method, pool[(p1 if kint % 2 else len(pool)) - 1], 1000 + p1, kint)
            if hit:
                pats.append(("after-a-call-interrupted(at internal call %d)" % kint, _call(f, method, pool[p2 - 1], 1000 + p2)[0], fresh_after(lambda o: None)))
    except (ValueError, np.linalg.LinAlgError):
        pats = []
    for k, (pat, got, want) in enumerate(pats):
        ev.append({"tid": tidu + k, "ev": "Usage", "cls": name, "pattern": pat, "same": got == want})
    return ev


# ------------------------------------------------------------ mutation table
def mutation_table():
    """(name, callable taking fresh copies) over the public functions"""
    L = lib()
    rng = np.random.default_rng(99)
    A = rng.standard_normal((4, 3, 4))
    Sq = rng.standard_normal((4, 4, 4))
    H = Sq + np.transpose(Sq, (1, 0, 2)) * [1, -1, -1, -1]
    b = rng.standard_normal((4, 1, 4))
    T3 = rng.standard_normal((2, 3, 4, 4))
    img = rng.random((4, 5, 4))
    psf = np.array([[0.0, 1, 0], [1, 2, 1], [0, 1, 0]]) / 6
    u, d, s, t, q = L.utils, L, L.solver, L.tensor, L.qslst
    sp = lambda F: u.SparseQuaternionMatrix(*[sparse.csr_matrix(F[..., c]) for c in range(4)], F.shape[:2])
    tab = [
        ("quat_matmat", lambda X, Y: u.quat_matmat(X, Y), [A, A[:3, :, :]]),
        ("quat_hermitian", lambda X: u.quat_hermitian(X), [A]),
        ("quat_frobenius_norm", lambda X: u.quat_frobenius_norm(X), [A]),
        ("matrix_norm(2)", lambda X: u.matrix_norm(X, 2), [A]),
        ("real_expand", lambda X: u.real_expand(X), [A]),
        ("quaternion_to_complex_adjoint", lambda X: u.quaternion_to_complex_adjoint(X), [Sq]),
        ("rank", lambda X: u.rank(X), [A]),
        ("det(Dieudonne)", lambda X: u.det(X, "Dieudonne"), [Sq]),
        ("det(Moore)", lambda X: u.det(X, "Moore"), [H]),
        ("ishermitian", lambda X: u.ishermitian(X), [H]),
        ("quat_null_space", lambda X: u.quat_null_space(X), [A]),
        ("power_iteration", lambda X: u.power_iteration(X, max_iterations=20, return_eigenvalue=True), [H]),
        ("power_iteration_nonhermitian", lambda X: u.power_iteration_nonhermitian(X, max_iterations=50), [Sq]),
        ("classical_qsvd_full", lambda X: d.qsvd.classical_qsvd_full(X), [A]),
        ("classical_qsvd", lambda X: d.qsvd.classical_qsvd(X, 2), [A]),
        ("qr_qua", lambda X: d.qsvd.qr_qua(X), [A]),
        ("rand_qsvd", lambda X: d.qsvd.rand_qsvd(X, 2, oversample=2, n_iter=1), [A]),
        ("pass_eff_qsvd", lambda X: d.qsvd.pass_eff_qsvd(X, 2, oversample=2, n_passes=3), [A]),
        ("quaternion_lu(2)", lambda X: d.LU.quaternion_lu(X), [A]),
        ("quaternion_lu(3)", lambda X: d.LU.quaternion_lu(X, return_p=True), [Sq]),
        ("tridiagonalize", lambda X: d.tridiag.tridiagonalize(X), [H]),
        ("quaternion_eigendecomposition", lambda X: d.eigen.quaternion_eigendecomposition(X), [H]),
        ("hessenbergize", lambda X: d.hess.hessenbergize(X), [Sq]),
        ("quaternion_eigenvalues", lambda X: d.eigen.quaternion_eigenvalues(X), [H]),
        ("quaternion_eigenvectors", lambda X: d.eigen.quaternion_eigenvectors(X), [H]),
        ("verify_eigendecomposition", lambda X: d.eigen.verify_eigendecomposition(X, *d.eigen.quaternion_eigendecomposition(X)), [H]),
        ("verify_lu_decomposition", lambda X: d.LU.verify_lu_decomposition(X, *d.LU.quaternion_lu(X)), [Sq]),
        ("quaternion_modulus", lambda X: d.LU.quaternion_modulus(X), [A]),
        ("quaternion_triu", lambda X: d.LU.quaternion_triu(X), [A]),
        ("quaternion_tril", lambda X: d.LU.quaternion_tril(X, -1), [A]),
        ("induced_matrix_norm_1", lambda X: u.induced_matrix_norm_1(X), [A]),
        ("induced_matrix_norm_inf", lambda X: u.induced_matrix_norm_inf(X), [A]),
        ("spectral_norm_2", lambda X: u.spectral_norm_2(X), [A]),
        ("normQ", lambda X: u.normQ(X), [A]),
        ("quat_null_right", lambda X: u.quat_null_right(X), [A]),
        ("quat_null_left", lambda X: u.quat_null_left(X), [A]),
        ("quat_kernel", lambda X: u.quat_kernel(X, "left"), [A]),
        ("check_tridiagonal", lambda X: d.tridiag.check_tridiagonal(X), [H]),
        ("internal_tridiagonalizer", lambda X: d.tridiag.internal_tridiagonalizer(X), [H]),
        ("check_hessenberg", lambda X: d.hess.check_hessenberg(X), [Sq]),
        ("is_hessenberg", lambda X: d.hess.is_hessenberg(X), [Sq]),
        ("quaternion_schur_pure", lambda X: d.schur.quaternion_schur_pure(X, max_iter=10), [Sq]),
        ("quaternion_schur_pure_implicit", lambda X: d.schur.quaternion_schur_pure_implicit(X, max_iter=10), [Sq]),
        ("quaternion_schur_experimental", lambda X: d.schur.quaternion_schur_experimental(X, max_iter=10), [Sq]),
        ("tensor_frobenius_norm", lambda X: t.tensor_frobenius_norm(X), [T3]),
        ("tensor_entrywise_abs", lambda X: t.tensor_entrywise_abs(X), [T3]),
        ("DeepLinear.compute", lambda X: s.DeepLinearNewtonSchulz(max_iter=2).compute(X, [3, 2, 4])[0], [A]),
        ("quaternion_schur", lambda X: d.schur.quaternion_schur(X, max_iter=20), [Sq]),
        ("quaternion_schur_unified(rayleigh)", lambda X: d.schur.quaternion_schur_unified(X, variant="rayleigh", max_iter=20), [Sq]),
        ("quaternion_schur_unified(aed)", lambda X: d.schur.quaternion_schur_unified(X, variant="aed", max_iter=20), [Sq]),
        ("quaternion_schur_unified(ds)", lambda X: d.schur.quaternion_schur_unified(X, variant="ds", max_iter=20), [Sq]),
        ("quaternion_schur_unified(aed,window)", lambda X: d.schur.quaternion_schur_unified(X, variant="aed", max_iter=20, aed_window=2), [Sq]),
        ("quaternion_schur_unified(implicit)", lambda X: d.schur.quaternion_schur_unified(X, variant="implicit", max_iter=20), [Sq]),
        ("tensor_unfold", lambda X: t.tensor_unfold(X, 1), [T3]),
        ("tensor_unfold(0)", lambda X: t.tensor_unfold(X, 0), [T3]),
        ("tensor_unfold(2)", lambda X: t.tensor_unfold(X, 2), [T3]),
        ("tensor_fold", lambda X: t.tensor_fold(t.tensor_unfold(X, 2), 2, X.shape), [T3]),
        ("QGMRES.solve", lambda X, y: s.QGMRESSolver(tol=1e-8).solve(X, y), [Sq + 3 * np.eye(4)[:, :, None] * [1.0, 0, 0, 0], b]),
        ("QGMRES.solve(left_lu)", lambda X, y: s.QGMRESSolver(tol=1e-8, preconditioner="left_lu").solve(X, y), [Sq + 3 * np.eye(4)[:, :, None] * [1.0, 0, 0, 0], b]),
        ("NS.compute", lambda X: s.NewtonSchulzPseudoinverse(max_iter=5).compute(X), [A]),
        ("HON.compute", lambda X: s.HigherOrderNewtonSchulzPseudoinverse(max_iter=3).compute(X)[:2], [A]),     # third value: wall-clock times
        ("RSP.compute", lambda X: s.RandomizedSketchProjectPseudoinverse(block_size=2, max_iter=4, test_sketch_size=2).compute(X), [A]),
        ("CGNE.compute", lambda X: s.CGNEQSolver(max_iter=5).compute(X), [A]),
        ("Hybrid.compute", lambda X: s.HybridRSPNewtonSchulz(r=2, T=1, max_iter=3).compute(X), [A]),
    ]
    floats = [
        ("apply_blur_fft", lambda I, P: q.apply_blur_fft(I, P), [img, psf]),
        ("qslst_restore_fft", lambda I, P: q.qslst_restore_fft(I, P, 0.1), [img, psf]),
        ("qslst_restore_matrix", lambda I: q.qslst_restore_matrix(I[:2, :2], np.eye(4) * 0.5 + 0.1, 0.1), [img]),
        ("add_awgn_snr", lambda I: q.add_awgn_snr(I, 20.0, rng=np.random.default_rng(1)), [img]),
        ("rgb_to_quat", lambda I: q.rgb_to_quat(I[..., :3]), [img]),
        ("quat_to_rgb", lambda I: q.quat_to_rgb(I), [img]),
        ("psnr", lambda I: q.psnr(I, I * 0.9), [img]),
    ]
    comp = [
        ("timesQsparse", lambda *c: u.timesQsparse(*c), [Sq[..., i].copy() for i in range(4)] * 2),
        ("normQsparse", lambda *c: u.normQsparse(*c), [Sq[..., i].copy() for i in range(4)]),
        ("Realp", lambda *c: u.Realp(*c), [Sq[..., i].copy() for i in range(4)]),
    ]
    return tab, floats, comp, sp


def _digest_out(o):
    """digest of a returned value; wall-clock fields and timing lists are left out"""
    h = hashlib.sha256()

    def w(x, key=""):
        if isinstance(x, dict):
            for k in sorted(x):
                if "time" in str(k):
                    continue
                h.update(str(k).encode())
                w(x[k], str(k))
        elif isinstance(x, (list, tuple)):
            for y in x:
                w(y, key)
        elif isinstance(x, np.ndarray):
            h.update(sha(x).encode())
        elif hasattr(x, "real") and hasattr(x, "k") and hasattr(x, "shape") and not isinstance(x, (int, float, complex, np.generic)):
            h.update(sha(x.real.toarray(), x.i.toarray(), x.j.toarray(), x.k.toarray()).encode())
        elif isinstance(x, (float, np.floating)):
            h.update(np.float64(x).tobytes())
        else:
            h.update(repr(x).encode())
    w(o)
    return h.hexdigest()


def _mutation_events(tid0):
    tab, floats, comp, sp = mutation_table()
    ev = []
    tid = tid0
    def variants(a):
        """structured variants of a matrix argument (Hermitian-ness and shape are preserved)"""
        out = [("dense", a)]
        if a.ndim != 3:
            return out
        m, n = a.shape[:2]
        dec = a.copy()
        dec[1:, 0] = 0
        dec[0, 1:] = 0
        out.append(("first-row-col-decoupled", dec))          # exactly zero first sub-column / row
        dg = np.zeros_like(a)
        for i in range(min(m, n)):
            dg[i, i] = a[i, i]
        out.append(("diagonal", dg))
        out.append(("zero", np.zeros_like(a)))
        zc = a.copy()
        if n > 1:
            zc[:, 1] = 0
            if m == n:
                zc[1, :] = 0
        out.append(("zero-row-col", zc))
        # "dirty" versions that still pass every tolerance-based structure test: rounding-level (1e-17) vector parts and
        # negative zeros on the diagonal, rounding-level entries where exact zeros would be; a routine that cleans its
        # input must clean a COPY
        if m == n:
            dd = a.copy()
            sc_ = float(np.max(np.abs(a))) or 1.0
            for i in range(n):
                dd[i, i, 1:] = dd[i, i, 1:] + np.array([1e-17, -2e-17, 0.0]) * sc_ if i % 2 == 0 else np.where(dd[i, i, 1:] == 0, -0.0, dd[i, i, 1:])
            out.append(("rounding-level-dirt-on-diagonal", dd))
        nz = a.copy()
        nz[np.abs(nz) < 0.2] *= -0.0
        out.append(("negative-zeros", nz))
        # boundary sizes: leading 2 x 2 and 1 x 1 parts (nothing to reduce, nothing to eliminate: the paths on which a
        # routine is tempted to hand back or work on its argument instead of a copy)
        out.append(("leading-2x2", a[:2, :2].copy()))
        out.append(("leading-1x1", a[:1, :1].copy()))
        return out

    skip_exc = (ValueError, ZeroDivisionError, np.linalg.LinAlgError)
    for name, f, args in tab:
        vlists = [variants(a) for a in args]
        for vi in range(max(len(v) for v in vlists)):
            tid += 1
            cur = [v[vi][1] if vi < len(v) else v[0][1] for v in vlists]
            vname = vlists[0][vi][0] if vi < len(vlists[0]) else "dense"
            if name.startswith("QGMRES") and vname in ("zero", "diagonal", "zero-row-col", "first-row-col-decoupled", "negative-zeros"):
                cur = [cur[0] + 3 * np.eye(cur[0].shape[0])[:, :, None] * [1.0, 0, 0, 0], args[1]]   # keep the system regular
                if vname == "zero":
                    cur[1] = np.zeros_like(args[1])       # ... and solve it for a ZERO right-hand side (the solver's early exit)
            qa = [q_from_float(a) if a.ndim == 3 else quaternion.as_quat_array(a.copy()) for a in cur]
            before = [sha(a) for a in qa]
            np.random.seed(5)
            e_harness = dict(np.geterr())
            np.seterr(divide="warn", over="warn", under="ignore", invalid="warn")     # numpy's default policy (the harness itself runs under "ignore", which would hide a leaked "ignore")
            g0, e0, w0 = sha(np.asarray(np.random.get_state()[1])) + str(np.random.get_state()[2]), dict(np.geterr()), list(warnings.filters)
            try:
                with contextlib.redirect_stdout(io.StringIO()):
                    f(*qa)
            except skip_exc:
                pass            # a rejected structured input (e.g. LU of a zero matrix) must still leave it untouched
            except Exception:
                if not vname.startswith("leading-"):
                    raise       # boundary sizes may be outside a routine's domain (target rank 2 of a 1 x 1 matrix)
            g1 = sha(np.asarray(np.random.get_state()[1])) + str(np.random.get_state()[2])
            # process-wide state: a routine that does not draw random numbers leaves the global generator alone and nobody leaves
            # the warning filters changed (mechanism clauses: reported as drift).  numpy's floating-point ERROR STATE is
            # different: it decides whether a later call of the caller raises FloatingPointError or returns inf / nan, so a
            # call that leaves it changed makes later results depend on the history - the property's own clause
            ev.append({"tid": tid, "ev": "Mutation", "fn": name, "variant": vname, "args_unchanged": [sha(a) for a in qa] == before,
                       "generator_untouched": g1 == g0 or name.startswith(RANDOMIZED), "errstate_restored": list(warnings.filters) == w0,
                       "fp_error_state_unchanged": dict(np.geterr()) == e0})
            np.seterr(**e_harness)
            warnings.filters[:] = w0
            if vname == "dense":
                # what a call RETURNS belongs to the caller: after the caller has overwritten the returned arrays in place,
                # the same call (same values, fresh argument objects) must still return the same result (no cache or
                # internal state may be shared with returned arrays)
                def scribble(o):
                    if isinstance(o, np.ndarray) and o.size and o.flags.writeable:
                        try:
                            o[...] = o * 0 + (np.quaternion(7.0, 1.0, 0.0, 0.0) if o.dtype == np.quaternion else 7)
                        except Exception:
                            pass
                    elif isinstance(o, (tuple, list)):
                        for x in o:
                            scribble(x)
                    elif isinstance(o, dict):
                        for x in o.values():
                            scribble(x)
                try:
                    outs = []
                    for rep in range(2):
                        qb = [q_from_float(a) if a.ndim == 3 else quaternion.as_quat_array(a.copy()) for a in cur]
                        np.random.seed(5)
                        with contextlib.redirect_stdout(io.StringIO()):
                            o_ = f(*qb)
                        outs.append(_digest_out(o_))
                        scribble(o_)
                    tid += 1
                    ev.append({"tid": tid, "ev": "Returned", "fn": name, "same": outs[0] == outs[1]})
                except skip_exc:
                    pass
    def scribble_any(o):
        if isinstance(o, np.ndarray) and o.size and o.flags.writeable:
            try:
                o[...] = o * 0 + (np.quaternion(7.0, 1.0, 0.0, 0.0) if o.dtype == np.quaternion else 7)
            except Exception:
                pass
        elif isinstance(o, (tuple, list)):
            for x in o:
                scribble_any(x)
        elif isinstance(o, dict):
            for x in o.values():
                scribble_any(x)
    for name, f, args in floats + comp:
        tid += 1
        fa = [a.copy() for a in args]
        before = [sha(a) for a in fa]
        with contextlib.redirect_stdout(io.StringIO()):
            out_ = f(*fa)
        ev.append({"tid": tid, "ev": "Mutation", "fn": name, "args_unchanged": [sha(a) for a in fa] == before})
        # the caller works in place on what it was given back: that must not reach the ARGUMENTS (a result that is a view
        # of its argument), for the float-image helpers and the component-form kernels too
        scribble_any(out_)
        tid += 1
        ev.append({"tid": tid, "ev": "Returned", "fn": name, "same": [sha(a) for a in fa] == before})
    for name, f, args in tab:
        tid += 1
        qa = [q_from_float(a) if a.ndim == 3 else quaternion.as_quat_array(a.copy()) for a in args]
        qa = [np.array(x) for x in qa]                   # writable, C-ordered
        before = [sha(a) for a in qa]
        try:
            np.random.seed(5)
            with contextlib.redirect_stdout(io.StringIO()):
                out_ = f(*qa)
            scribble_any(out_)
            # (unfoldings / foldings of a contiguous tensor are numpy views of it on the pinned tree - reshape semantics,
            # like numpy's own reshape: not judged)
            if name not in VIEWS_BY_DESIGN:
                ev.append({"tid": tid, "ev": "Returned", "fn": name, "same": [sha(a) for a in qa] == before})
        except skip_exc:
            pass
    # sparse operands
    rng = np.random.default_rng(3)
    F = rng.standard_normal((3, 3, 4)) * (rng.random((3, 3, 1)) < 0.6)
    S1 = sp(F)
    parts = lambda S: sha(S.real.toarray(), S.i.toarray(), S.j.toarray(), S.k.toarray())
    u = lib().utils
    for name, f in (("quat_matmat(sparse,dense)", lambda: u.quat_matmat(S1, q_from_float(F))),
                    ("quat_matmat(sparse,sparse)", lambda: u.quat_matmat(S1, S1)),
                    ("quat_hermitian(sparse)", lambda: u.quat_hermitian(S1)),
                    ("NS.compute(sparse)", lambda: lib().solver.NewtonSchulzPseudoinverse(max_iter=3).compute(S1)),
                    ("QGMRES.solve(sparse)", lambda: lib().solver.QGMRESSolver(tol=1e-8).solve(sp(F + 3 * np.eye(3)[:, :, None] * [1.0, 0, 0, 0]), q_from_float(F[:, :1])))):
        tid += 1
        b0 = parts(S1)
        with contextlib.redirect_stdout(io.StringIO()):
            f()
        ev.append({"tid": tid, "ev": "Mutation", "fn": name, "args_unchanged": parts(S1) == b0})
    return ev


def _numeric_close(a, b, rtol=1e-9):
    """recursive closeness of returned values (arrays, tuples, dicts, scalars); timing fields ignored"""
    if isinstance(a, dict) and isinstance(b, dict):
        ks = [k for k in a if not any(t in str(k) for t in ("time",))]
        return all(k in b and _numeric_close(a[k], b[k], rtol) for k in ks)
    if isinstance(a, (list, tuple)) and isinstance(b, (list, tuple)):
        return len(a) == len(b) and all(_numeric_close(x, y, rtol) for x, y in zip(a, b))
    if hasattr(a, "toarray"):
        a, b = a.toarray(), b.toarray()
    if hasattr(a, "real") and hasattr(a, "i") and hasattr(a, "k") and not isinstance(a, np.ndarray) and hasattr(a, "shape"):
        return all(_numeric_close(getattr(a, p).toarray(), getattr(b, p).toarray(), rtol) for p in ("real", "i", "j", "k"))
    if isinstance(a, np.ndarray) or isinstance(b, np.ndarray):
        a, b = np.asarray(a), np.asarray(b)
        if a.dtype == np.quaternion:
            a = quaternion.as_float_array(a)
        if b.dtype == np.quaternion:
            b = quaternion.as_float_array(b)
        if a.shape != b.shape:
            return False
        if a.size == 0:
            return True
        sc = max(float(np.max(np.abs(a))), float(np.max(np.abs(b))), 1e-300)
        return bool(np.max(np.abs(a.astype(complex) - b.astype(complex))) <= rtol * sc)
    if isinstance(a, (int, float, complex, np.number)) and isinstance(b, (int, float, complex, np.number)):
        return bool(abs(complex(a) - complex(b)) <= rtol * max(abs(complex(a)), abs(complex(b)), 1e-300))
    return type(a) is type(b)


def _relayout(a, how):
    """same values, different memory layout"""
    if how == "F":
        return np.asfortranarray(a)
    big = np.zeros(tuple(2 * d for d in a.shape), dtype=a.dtype)      # strided view into a larger buffer
    sl = tuple(slice(None, None, 2) for _ in a.shape)
    big[sl] = a
    return big[sl]


DIRECT = ("quat_matmat", "quat_hermitian", "quat_frobenius_norm", "matrix_norm(2)", "real_expand", "quaternion_to_complex_adjoint",
          "rank", "det(Dieudonne)", "ishermitian", "classical_qsvd_full", "classical_qsvd", "qr_qua", "quaternion_lu(2)", "quaternion_lu(3)",
          "hessenbergize", "tridiagonalize", "tensor_unfold", "tensor_unfold(0)", "tensor_unfold(2)", "tensor_fold", "quat_null_space",
          "quaternion_modulus", "quaternion_triu", "quaternion_tril", "induced_matrix_norm_1", "induced_matrix_norm_inf", "spectral_norm_2", "normQ",
          "check_hessenberg", "is_hessenberg", "tensor_frobenius_norm", "tensor_entrywise_abs", "verify_lu_decomposition")


def _layout_events(tid0):
    """the value returned depends on the VALUES of the arguments, not on their memory layout"""
    tab, floats, comp, sp = mutation_table()
    ev = []
    tid = tid0
    for name, f, args in tab:
        if name not in DIRECT:
            continue
        qa = [q_from_float(a) if a.ndim == 3 else quaternion.as_quat_array(a.copy()) for a in args]
        with contextlib.redirect_stdout(io.StringIO()):
            ref = f(*[x.copy() for x in qa])
        for how in ("F", "strided"):
            tid += 1
            alt = [_relayout(x, how) for x in qa]
            try:
                with contextlib.redirect_stdout(io.StringIO()):
                    got = f(*alt)
                same = _numeric_close(ref, got)
            except Exception as e:
                same = False
            ev.append({"tid": tid, "ev": "Layout", "fn": name, "layout": how, "same": bool(same)})
    for name, f, args in floats:
        with contextlib.redirect_stdout(io.StringIO()):
            ref = f(*[a.copy() for a in args])
        for how in ("F", "strided"):
            tid += 1
            try:
                with contextlib.redirect_stdout(io.StringIO()):
                    got = f(*[_relayout(a, how) for a in args])
                same = _numeric_close(ref, got)
            except Exception:
                same = False
            ev.append({"tid": tid, "ev": "Layout", "fn": name, "layout": how, "same": bool(same)})
    return ev


def _stale_events(tid0):
    """a function called again after its argument was modified IN PLACE must answer for the new contents"""
    tab, floats, comp, sp = mutation_table()
    ev = []
    tid = tid0
    for name, f, args in tab:
        tid += 1
        qa = [q_from_float(a) if a.ndim == 3 else quaternion.as_quat_array(a.copy()) for a in args]
        def update(x):                                   # the in-place update applied to the caller's array
            x *= 2.0
            if x.ndim == 2 and x.shape[0] > 1:
                x[0, 0] = x[0, 0] + quaternion.quaternion(1.0, 0, 0, 0)
        try:
            with contextlib.redirect_stdout(io.StringIO()):
                # expected answer FIRST, on an array object the function will never see again (randomized routines: the
                # global generator is reseeded identically before every call)
                want = [x.copy() for x in qa]
                update(want[0])
                np.random.seed(5)
                fresh = f(*want)
                np.random.seed(5)
                f(*qa)
                update(qa[0])                            # same object, new contents
                np.random.seed(5)
                second = f(*qa)
            same = _numeric_close(second, fresh)
        except Exception:
            same = False
        ev.append({"tid": tid, "ev": "Stale", "fn": name, "same": bool(same)})
    return ev


VIEWS_BY_DESIGN = ("tensor_unfold(0)", "tensor_unfold(2)", "tensor_unfold", "tensor_fold")
RANDOMIZED = ("RSP", "Hybrid", "rand_qsvd", "pass_eff", "power_iteration", "CGNE", "DeepLinear", "quat_null", "quat_kernel")     # may draw from the global generator


# ---- histories over RELATED arguments: what a call returns is a function of its arguments only, whatever was computed
# before for arguments that share a shape, a buffer content, or most entries with them (a memoised helper with a key that
# is too coarse, a start value or scratch buffer kept from the previous call).  References come from processes in which
# NOTHING has been called before (a fresh interpreter that imports the library and forks one child per reference).
RELATED = ("other-values", "same-bytes-other-shape", "scaled", "one-entry-changed", "negated", "base", "other-values-again", "base-again")


def _related_args(args, variant):
    """-> list of float arrays, or None when the variant does not apply"""
    v = variant.replace("-again", "")
    if v == "base":
        return [a.copy() for a in args]
    if v == "other-values":
        return [a[::-1, ::-1].copy() if a.ndim >= 3 else a[::-1].copy() for a in args]      # keeps squareness and Hermitian-ness
    if v == "scaled":
        return [2.0 * a for a in args]
    if v == "negated":
        return [-a for a in args]
    if v == "one-entry-changed":
        out = [a.copy() for a in args]
        out[0][(0,) * (out[0].ndim - 1) + (0,)] += 1.0                                       # real part of a diagonal entry
        return out
    if v == "same-bytes-other-shape":
        a = args[0]
        if len(args) != 1 or a.ndim < 3 or a.shape[0] == a.shape[1]:
            return None
        return [np.ascontiguousarray(a).reshape(a.shape[:-1][::-1] + (4,)).copy()]
    raise KeyError(variant)


def _plain(o):
    """picklable, comparable image of a returned value"""
    if isinstance(o, np.ndarray):
        return quaternion.as_float_array(o).copy() if o.dtype == np.quaternion else (o.copy() if o.dtype != object else repr(o)[:200])
    if hasattr(o, "real") and hasattr(o, "i") and hasattr(o, "k") and hasattr(o, "shape") and not isinstance(o, (np.generic, int, float, complex)) and not isinstance(o, np.quaternion):
        return ("sparse", tuple(np.asarray(getattr(o, p).toarray()) for p in ("real", "i", "j", "k")))
    if isinstance(o, np.quaternion):
        return np.array([o.w, o.x, o.y, o.z])
    if hasattr(o, "toarray"):
        return np.asarray(o.toarray())
    if isinstance(o, dict):
        return {str(k): _plain(v) for k, v in o.items() if "time" not in str(k)}
    if isinstance(o, (list, tuple)):
        return [_plain(x) for x in o]
    if isinstance(o, (bool, int, float, complex, str, type(None), np.number, np.bool_)):
        return o
    return ("object", type(o).__name__)


def _related_call(i, variant, keep=None):
    tab = mutation_table()[0]
    name, f, args = tab[i]
    cur = _related_args(args, variant)
    if cur is None:
        return None
    qa = [q_from_float(a) if a.ndim == 3 else quaternion.as_quat_array(a.copy()) for a in cur]
    np.random.seed(5)
    try:
        with contextlib.redirect_stdout(io.StringIO()), warnings.catch_warnings():
            warnings.simplefilter("ignore")
            raw = f(*qa)
            if keep is not None:
                keep.append((variant, raw))          # the caller keeps what it was given
            return ("ok", _plain(raw))
    except (ValueError, ZeroDivisionError, np.linalg.LinAlgError, RuntimeError) as e:
        return ("exc", type(e).__name__)


def _related_ref_one(job):
    return pickle.dumps(_related_call(*job))


def _refs_main(out):
    """entry point of the reference interpreter: nothing of the library has been called in this process; every
    reference is computed in its own forked child (maxtasksperchild=1)"""
    os.environ["VERIF_LAYOUTS"] = "0"
    lib()
    n = len(mutation_table()[0])
    jobs = [(i, v) for i in range(n) for v in RELATED if not v.endswith("-again")]
    with mp.get_context("fork").Pool(min(16, os.cpu_count() or 1), maxtasksperchild=1) as pool:
        res = pool.map(_related_ref_one, jobs, chunksize=1)
        pool.close()
        pool.join()
    with open(out, "wb") as fh:
        pickle.dump({j: r for j, r in zip(jobs, res)}, fh)


def _related_history(args):
    i, refs = args
    name = mutation_table()[0][i][0]
    out = []
    kept, snaps = [], {}
    for v in RELATED:
        got = _related_call(i, v, keep=kept)
        if got is None:
            continue
        if got[0] == "ok":
            snaps[v] = got[1]
        want = pickle.loads(refs[(i, v.replace("-again", ""))])
        same = got[0] == want[0] and (_numeric_close(want[1], got[1]) if got[0] == "ok" else got[1] == want[1])
        out.append({"ev": "Related", "fn": name, "variant": v, "same": bool(same), "outcome": got[0] if got[0] == "ok" else got[1], "reference": want[0] if want[0] == "ok" else want[1]})
    # what was returned EARLIER still holds the same values after all the later calls (no shared output buffer)
    intact = all(_numeric_close(snaps[v], _plain(raw), rtol=0.0) for v, raw in kept if v in snaps)
    out.append({"ev": "Returned", "fn": name, "same": bool(intact), "retained_results": len(kept)})
    return out


def _related_events(tid0):
    fd, out = tempfile.mkstemp(prefix="verif-c14-refs-", suffix=".pkl")
    os.close(fd)
    pr = subprocess.run([sys.executable, "-c", "import sys; sys.path.insert(0, %r); from harness.props import c14; c14._refs_main(%r)" % (os.path.dirname(os.path.dirname(os.path.dirname(os.path.abspath(__file__)))), out)],
                        stdout=subprocess.PIPE, stderr=subprocess.PIPE, text=True, timeout=1800,
                        env=dict(os.environ, PYTHONDONTWRITEBYTECODE="1", MPLBACKEND="Agg", VERIF_LAYOUTS="0"))
    if pr.returncode != 0:
        raise RuntimeError("reference interpreter failed:\n" + pr.stderr[-2000:])
    with open(out, "rb") as fh:
        refs = pickle.load(fh)
    os.unlink(out)
    n = len(mutation_table()[0])
    ev = []
    tid = tid0
    for lst in par.pmap(_related_history, [(i, {k: r for k, r in refs.items() if k[0] == i}) for i in range(n)], chunk=1):
        for e in lst:
            tid += 1
            ev.append(dict(e, tid=tid))
    return ev


def _seeded_events(tid0):
    """routines that draw random numbers are reproducible functions of the global seed"""
    L = lib()
    rng = np.random.default_rng(4)
    A = q_from_float(rng.standard_normal((5, 4, 4)))
    G = rng.standard_normal((4, 4, 4))
    H = q_from_float(G + np.transpose(G, (1, 0, 2)) * [1, -1, -1, -1])
    calls = [
        ("rand_qsvd", lambda: L.qsvd.rand_qsvd(A, 2, oversample=2, n_iter=1)),
        ("pass_eff_qsvd", lambda: L.qsvd.pass_eff_qsvd(A, 2, oversample=2, n_passes=2)),
        ("power_iteration", lambda: L.utils.power_iteration(H, max_iterations=15, return_eigenvalue=True)),
        ("create_test_matrix", lambda: L.data_gen.create_test_matrix(3, 4)),
        ("generate_random_unitary_matrix", lambda: L.data_gen.generate_random_unitary_matrix(3)),
        ("create_sparse_quat_matrix", lambda: L.data_gen.create_sparse_quat_matrix(4, 4, 0.5)),
        ("RSP.compute", lambda: L.solver.RandomizedSketchProjectPseudoinverse(block_size=2, max_iter=5, test_sketch_size=2).compute(A)),
        ("RSP(seed=3).compute", lambda: L.solver.RandomizedSketchProjectPseudoinverse(block_size=2, max_iter=5, test_sketch_size=2, seed=3).compute(A)),
        ("Hybrid.compute", lambda: L.solver.HybridRSPNewtonSchulz(r=2, T=2, max_iter=4).compute(A)),
    ]
    ev = []
    tid = tid0
    for name, f in calls:
        tid += 1
        outs = []
        for sd in (11, 11, 12):
            np.random.seed(sd)
            with contextlib.redirect_stdout(io.StringIO()):
                outs.append(digest(f()))
        seeded_ctor = "seed=" in name
        ev.append({"tid": tid, "ev": "Seeded", "fn": name, "same": outs[0] == outs[1],
                   "differs_other_seed": True if seeded_ctor else outs[0] != outs[2]})
    return ev


STYLE_SCRIPT = r'''
import sys, json, hashlib, io, contextlib, warnings
warnings.filterwarnings("ignore")
import numpy as np, quaternion
style, repo = sys.argv[1], sys.argv[2]
if style == "package":
    sys.path.insert(0, repo)
    import quatica
    from quatica import utils, solver
    from quatica.decomp import qsvd, LU, eigen, hessenberg, schur
    extra = sorted(m for m in sys.modules if m in ("utils", "decomp", "solver", "data_gen", "tensor") )
else:
    sys.path.insert(0, repo + "/quatica")
    import utils, solver
    from decomp import qsvd, LU, eigen, hessenberg, schur
    extra = []
rng = np.random.default_rng(2024)
def Q(*s): return quaternion.as_quat_array(rng.standard_normal(s + (4,)))
A = Q(4, 3); S = Q(4, 4); b = Q(4, 1)
Sf = quaternion.as_float_array(S); H = quaternion.as_quat_array(Sf + np.transpose(Sf, (1, 0, 2)) * [1, -1, -1, -1])
def dig(o):
    h = hashlib.sha256()
    def w(x):
        if isinstance(x, dict):
            for k in sorted(x):
                if "time" in str(k): continue
                h.update(str(k).encode()); w(x[k])
        elif isinstance(x, (list, tuple)):
            for y in x: w(y)
        elif isinstance(x, np.ndarray):
            if x.dtype == np.quaternion: x = quaternion.as_float_array(x)
            h.update(str(x.shape).encode()); h.update(np.ascontiguousarray(x).tobytes())
        elif isinstance(x, (float, np.floating)): h.update(np.float64(x).tobytes())
        else: h.update(repr(x).encode())
    w(o); return h.hexdigest()
out = {}
if style == "package":
    from quatica import tensor, data_gen, qslst
    from quatica.decomp import tridiagonalize as tridiag
else:
    import tensor, data_gen, qslst
    from decomp import tridiagonalize as tridiag
from scipy import sparse as _sp
def SP(M):
    f = quaternion.as_float_array(M) * (np.abs(quaternion.as_float_array(M)[..., :1]) > 0.3)
    return utils.SparseQuaternionMatrix(*[_sp.csr_matrix(f[..., c]) for c in range(4)], M.shape)
def spd(x):
    return np.stack([x.real.toarray(), x.i.toarray(), x.j.toarray(), x.k.toarray()], axis=-1) if hasattr(x, "k") and hasattr(x, "real") and not isinstance(x, np.ndarray) else x
def run(name, f, seed=None):
    # an exception is an observable outcome too: both styles must raise the same way or return the same value
    try:
        if seed is not None:
            np.random.seed(seed)
        with contextlib.redirect_stdout(io.StringIO()):
            out[name] = dig(f())
    except Exception as e:
        out[name] = "raises:" + type(e).__name__
T3 = Q(2, 3, 2)
img = rng.random((4, 5, 4)); psf = np.array([[0.25, 0.5, 0.25]])
run("matmat", lambda: utils.quat_matmat(S, A))
run("qsvd", lambda: qsvd.classical_qsvd_full(A))
run("qsvd_trunc", lambda: qsvd.classical_qsvd(A, 2))
run("qr", lambda: qsvd.qr_qua(A))
run("rank", lambda: utils.rank(A))
run("norm2", lambda: utils.matrix_norm(A, 2))
run("detD", lambda: utils.det(S, "Dieudonne"))
run("detM", lambda: utils.det(H, "Moore"))
run("lu", lambda: LU.quaternion_lu(S, return_p=True))
run("eig", lambda: eigen.quaternion_eigendecomposition(H))
run("tridiag", lambda: (tridiag if callable(tridiag) else tridiag.tridiagonalize)(H))     # decomp/__init__ re-exports the function under the module's name
run("hess", lambda: hessenberg.hessenbergize(S))
run("schur", lambda: schur.quaternion_schur(S, max_iter=30))
run("schur_unified_aed", lambda: schur.quaternion_schur_unified(S, variant="aed", max_iter=10))
run("schur_pure", lambda: schur.quaternion_schur_pure(S, max_iter=10))
run("ns", lambda: solver.NewtonSchulzPseudoinverse(max_iter=6).compute(A)[:2])
run("hon", lambda: solver.HigherOrderNewtonSchulzPseudoinverse(max_iter=4).compute(A)[:2])
def g(prec, M):
    x, info = solver.QGMRESSolver(tol=1e-10, preconditioner=prec).solve(M, b)
    return (x, info["iterations"], info["residual"])
run("gmres_lu", lambda: g("left_lu", S))
run("gmres", lambda: g(None, S))
run("rsp", lambda: solver.RandomizedSketchProjectPseudoinverse(block_size=2, max_iter=5, test_sketch_size=2).compute(A)[0], seed=1)
run("hybrid", lambda: solver.HybridRSPNewtonSchulz(r=2, T=2, max_iter=4, seed=3).compute(A)[0], seed=1)
run("cgne", lambda: solver.CGNEQSolver(max_iter=5).compute(A)[0], seed=1)
run("pit", lambda: utils.power_iteration(H, max_iterations=10, return_eigenvalue=True), seed=1)
run("pit_adjoint", lambda: utils.power_iteration_nonhermitian(S, max_iterations=20)[:2], seed=1)
run("null", lambda: utils.quat_null_space(A), seed=1)
run("null_left", lambda: utils.quat_null_space(A, side="left"), seed=1)
run("rand_qsvd", lambda: qsvd.rand_qsvd(A, 2, oversample=1, n_iter=1), seed=1)
run("pass_eff_qsvd", lambda: qsvd.pass_eff_qsvd(A, 2, oversample=1, n_passes=2), seed=1)
run("gen_unitary", lambda: data_gen.generate_random_unitary_matrix(3), seed=1)
run("gen_test_matrix", lambda: data_gen.create_test_matrix(4, 3, rank=2), seed=1)
run("gen_sparse", lambda: spd(data_gen.create_sparse_quat_matrix(4, 3, density=0.5)), seed=1)
# the same routines with the library's sparse container built in the SAME import style
run("sparse.matmat.sd", lambda: utils.quat_matmat(SP(S), A))
run("sparse.matmat.ds", lambda: spd(utils.quat_matmat(S, SP(S))))
run("sparse.matmat.ss", lambda: spd(utils.quat_matmat(SP(S), SP(S))))
run("sparse.operator", lambda: SP(S) @ A)
run("sparse.hermitian", lambda: spd(utils.quat_hermitian(SP(A))))
run("sparse.fro", lambda: utils.quat_frobenius_norm(SP(A)))
run("sparse.matrix_norm", lambda: utils.matrix_norm(SP(A), "fro"))
run("sparse.ns", lambda: solver.NewtonSchulzPseudoinverse(max_iter=6).compute(SP(A))[:2])
run("sparse.gmres", lambda: g(None, SP(S)))
run("sparse.gmres_lu", lambda: g("left_lu", SP(S)))
run("tensor.unfold", lambda: [tensor.tensor_unfold(T3, m_) for m_ in (0, 1, 2)])
run("tensor.fold", lambda: tensor.tensor_fold(tensor.tensor_unfold(T3, 1), 1, T3.shape))
run("tensor.fro", lambda: tensor.tensor_frobenius_norm(T3))
run("qslst.blur", lambda: qslst.apply_blur_fft(img, psf))
run("qslst.restore_fft", lambda: qslst.qslst_restore_fft(img, psf, 0.1))
run("qslst.psnr", lambda: qslst.psnr(img, img * 0.9))
print(json.dumps({"digests": out, "toplevel_copies": extra}))
'''


def _style_events(tid0):
    res = {}
    for style in ("package", "flat"):
        pr = subprocess.run([sys.executable, "-c", STYLE_SCRIPT, style, REPO], stdout=subprocess.PIPE, stderr=subprocess.PIPE,
                            text=True, env=dict(os.environ, PYTHONDONTWRITEBYTECODE="1", MPLBACKEND="Agg"), timeout=600)
        if pr.returncode != 0:
            res[style] = {"digests": {}, "error": pr.stderr[-1500:]}
        else:
            res[style] = json.loads(pr.stdout.strip().splitlines()[-1])
    ev = []
    tid = tid0
    keys = sorted(set(res["package"]["digests"]) | set(res["flat"]["digests"]))
    if not keys:
        keys = ["import"]
    for k in keys:
        tid += 1
        ev.append({"tid": tid, "ev": "Style", "fn": k, "digest_package": res["package"]["digests"].get(k, "missing:" + res["package"].get("error", "")[-200:]),
                   "digest_flat": res["flat"]["digests"].get(k, "missing:" + res["flat"].get("error", "")[-200:])})
    return ev, res["package"].get("toplevel_copies", [])


def run(ctx, replay=None):
    # bit-exact comparisons need the SAME arguments, memory layout included: the layout cycling of qlib.q_from_float is
    # switched off here (layout independence has its own Layout events, compared to rounding)
    os.environ["VERIF_LAYOUTS"] = "0"
    lib()
    thorough = ctx.tier == "thorough"
    maxlen = 3 if thorough else 2
    ctx.assumptions += [
        "wall-clock fields (iteration_times, total_time, third return value of the higher-order solver) are not observable and excluded from the comparison",
        "the global numpy generator is part of the input: reused and fresh objects are compared under identical reseeding before each call",
        "histories of length <= %d over a pool of 4 problems per configuration (all enumerated by TLC)" % maxlen,
    ]
    res = ctx.model("History", MCFG % maxlen, dump=True)
    hists = sorted({tuple(s["hist"]) for s in res["states"] if s["pc"] == "done"})
    hists = [list(h) for h in hists]
    ctx.exhaustive = True
    ctx.notes["histories_per_configuration"] = len(hists)
    cfgs = configs(thorough)
    jobs = [(ci, hists, thorough) for ci in range(len(cfgs))]
    events = []
    for ev in par.pmap(_history_job, jobs, chunk=1):
        events += ev
    events += _mutation_events(900000)
    events += _seeded_events(910000)
    events += _layout_events(915000)
    events += _stale_events(917000)
    events += _related_events(930000)
    sev, copies = _style_events(920000)
    events += sev
    ctx.notes["package_import_also_loads_toplevel_modules"] = copies
    bad = ctx.trace("HistoryTrace", events, TCFG)
    byid = {}
    for e in events:
        byid.setdefault(e["tid"], []).append(e)
    seen = set()
    for tid, clause in bad:
        es = byid[tid]
        if clause.startswith("M:"):
            ctx.drift.append("%s tid %d" % (clause, tid))
            continue
        head = es[0]
        fn = head.get("cls") or head.get("fn")
        key = (fn, clause, tid)
        if key in seen:
            continue
        seen.add(key)
        cls = {"Usage": "usage-pattern:" + str(head.get("pattern")), "Construct": "history", "Mutation": "mutation-table", "Seeded": "seeded", "Style": "import-style", "Layout": "memory-layout", "Stale": "in-place-update-history", "Returned": "caller-overwrites-result", "Related": "related-arguments-history"}[head["ev"]]
        ctx.fail(fn, clause, cls, {"events": es[:5]})
    for e in events:
        if e["ev"] != "Construct":
            ctx.case((e["tid"], e.get("step"), e["ev"]))
    ctx.replays = sum(1 for e in events if e["ev"] in ("Call", "Mutation", "Seeded", "Style", "Layout", "Stale", "Returned", "Related", "Usage"))
    ctx.count("SameAsFreshObject", sum(1 for e in events if e["ev"] == "Call"))
    ctx.count("ArgumentsUnchanged", sum(1 for e in events if e["ev"] in ("Call", "Mutation")))
    ctx.sample({"direction": "F", "history": [e for e in events if e["ev"] in ("Construct", "Call")][:4]})
    ctx.sample({"direction": "B", "event": [e for e in events if e["ev"] == "Style"][0]})
    # the deep-linear solver (DeepLinear.tla): caller's arrays, configuration and reuse of one object along TLC's behaviours
    os.environ["VERIF_LAYOUTS"] = "0"
    from .. import deeplinear
    deeplinear.stage(ctx, quick=not thorough)
    return "model_checking"
