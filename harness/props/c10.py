"""C10 - every Schur variant preserves A = Q T Q^H; convergence flags are sound.

M  (Schur.tla): abstract sweep / deflate / declare-converged / budget machine;
   TLC checks FlagSound, the similarity error budget and termination.
F/B the configuration table (variant x shift) x input class x size x budget is
   run with return_diagnostics=True; unitarity, similarity error, the largest
   strictly-lower entry of T, (Hermitian) off-diagonal / imaginary parts and the
   distance of diag(T) from the known spectrum are recorded and judged by
   SchurTrace.tla.
"""
import contextlib
import io
import math

import numpy as np

from .. import par
from .. import exactfam as E
from .. import spectral as S
from ..qlib import lib, q_from_float, q_to_float, omul, oherm, ofro, oadj, units, lg

MCFG = """CONSTANTS MaxN = %d
 MaxBudget = 3
SPECIFICATION Spec
INVARIANTS FlagSound SimilarityBudget IterBound Terminates
CHECK_DEADLOCK FALSE
"""
TCFG = """CONSTANTS UnitaryBound = 65536
 RoundLg <- RoundV
 SimSlack = 640
 TriSlack = 448
INIT TInit
NEXT TNext
INVARIANT Report
CHECK_DEADLOCK FALSE
"""

VARIANTS = [
    ("quaternion_schur:rayleigh", lambda sc, A, b, tol: sc.quaternion_schur(A, max_iter=b, tol=tol, shift="rayleigh", return_diagnostics=True)),
    ("quaternion_schur:wilkinson", lambda sc, A, b, tol: sc.quaternion_schur(A, max_iter=b, tol=tol, shift="wilkinson", return_diagnostics=True)),
    ("quaternion_schur:double", lambda sc, A, b, tol: sc.quaternion_schur(A, max_iter=b, tol=tol, shift="double", return_diagnostics=True)),
    ("unified:none", lambda sc, A, b, tol: sc.quaternion_schur_unified(A, variant="none", max_iter=b, tol=tol, return_diagnostics=True)),
    ("unified:rayleigh", lambda sc, A, b, tol: sc.quaternion_schur_unified(A, variant="rayleigh", max_iter=b, tol=tol, return_diagnostics=True)),
    ("unified:implicit", lambda sc, A, b, tol: sc.quaternion_schur_unified(A, variant="implicit", max_iter=b, tol=tol, return_diagnostics=True)),
    ("unified:aed", lambda sc, A, b, tol: sc.quaternion_schur_unified(A, variant="aed", max_iter=b, tol=tol, return_diagnostics=True)),
    ("unified:ds", lambda sc, A, b, tol: sc.quaternion_schur_unified(A, variant="ds", max_iter=b, tol=tol, return_diagnostics=True)),
    ("experimental:aed_windowed", lambda sc, A, b, tol: sc.quaternion_schur_experimental(A, variant="aed_windowed", max_iter=b, tol=tol, return_diagnostics=True)),
    ("experimental:francis_ds", lambda sc, A, b, tol: sc.quaternion_schur_experimental(A, variant="francis_ds", max_iter=b, tol=tol, return_diagnostics=True)),
    ("pure_implicit:rayleigh", lambda sc, A, b, tol: sc.quaternion_schur_pure_implicit(A, max_iter=b, tol=tol, return_diagnostics=True)),
    # every further option of the variants, away from its default
    ("pure_implicit:none", lambda sc, A, b, tol: sc.quaternion_schur_pure_implicit(A, max_iter=b, tol=tol, return_diagnostics=True, shift_mode="none")),
    ("unified:aed:window2", lambda sc, A, b, tol: sc.quaternion_schur_unified(A, variant="aed", max_iter=b, tol=tol, aed_window=2, return_diagnostics=True)),
    ("unified:ds:window2", lambda sc, A, b, tol: sc.quaternion_schur_unified(A, variant="ds", max_iter=b, tol=tol, aed_window=2, return_diagnostics=True)),
    ("unified:aed:window3:factor", lambda sc, A, b, tol: sc.quaternion_schur_unified(A, variant="aed", max_iter=b, tol=tol, aed_window=3, aed_factor=0.25, return_diagnostics=True)),
    ("unified:aed:noshifts", lambda sc, A, b, tol: sc.quaternion_schur_unified(A, variant="aed", max_iter=b, tol=tol, precompute_shifts=False, return_diagnostics=True)),
    ("unified:ds:steps1", lambda sc, A, b, tol: sc.quaternion_schur_unified(A, variant="ds", max_iter=b, tol=tol, power_shift_steps=1, return_diagnostics=True)),
    ("experimental:aed_windowed:window2", lambda sc, A, b, tol: sc.quaternion_schur_experimental(A, variant="aed_windowed", max_iter=b, tol=tol, window=2, return_diagnostics=True)),
    ("experimental:francis_ds:window3", lambda sc, A, b, tol: sc.quaternion_schur_experimental(A, variant="francis_ds", max_iter=b, tol=tol, window=3, return_diagnostics=True)),
]


def inputs(nmax, seed, thorough):
    rng = np.random.default_rng(seed)
    out = []
    for n in range(1, nmax + 1):
        ul = E.ulib(n)
        out.append(("generic", rng.standard_normal((n, n, 4)), None))
        lam = [(-1) ** i * (i + 1) for i in range(n)]
        out.append(("hermitian-known-spectrum", E.herm_from_spectrum(ul[-1][1], lam), lam))
        if n >= 2:
            lam2 = [3] * (n - 1) + [1]
            out.append(("hermitian-repeated", E.herm_from_spectrum(ul[min(3, len(ul) - 1)][1], lam2), lam2))
        T = np.triu(rng.integers(-2, 3, (n, n, 4)).astype(float).transpose(2, 0, 1)).transpose(1, 2, 0).copy()
        out.append(("triangular", T, None))
        # normal with known (real) spectrum but non-Hermitian look: unitary similarity of a real diagonal plus a skew part
        D = np.zeros((n, n, 4))
        for i in range(n):
            D[i, i] = [i + 1, 0.5 * (i + 1), 0, 0]
        out.append(("normal", omul(omul(ul[-1][1], D), oherm(ul[-1][1])), None))
        v = rng.standard_normal((n, 1, 4))
        w = rng.standard_normal((n, 1, 4))
        out.append(("low-rank", omul(v, oherm(w)), None))
        out.append(("integer", rng.integers(-3, 4, (n, n, 4)).astype(float), None))
        Rv = np.zeros((n, n, 4))
        Rv[..., 0] = rng.standard_normal((n, n))
        out.append(("real-valued", Rv, None))
        Cv = np.zeros((n, n, 4))
        Cv[..., 0] = rng.standard_normal((n, n))
        Cv[..., 1 + (n % 3)] = rng.standard_normal((n, n))
        out.append(("complex-embedded", Cv, None))
        if n >= 2:
            # large magnitudes: the deflation tests are relative to the local diagonal scale above 1
            out.append(("generic-scaled-up", rng.standard_normal((n, n, 4)) * 2.0 ** 20, None))
            out.append(("hermitian-scaled-up", E.herm_from_spectrum(ul[-1][1], lam) * 2.0 ** 30, [x * 2.0 ** 30 for x in lam]))
            out.append(("integer-large", rng.integers(-3000, 3001, (n, n, 4)).astype(float), None))
        if n >= 2:
            # Hermitian dilation [[0, X], [X^H, 0]]: hollow, eigenvalues in +- pairs
            p_ = n // 2
            Xd = rng.standard_normal((p_, n - p_, 4))
            Dl = np.zeros((n, n, 4))
            Dl[:p_, p_:] = Xd
            Dl[p_:, :p_] = np.transpose(Xd, (1, 0, 2)) * [1, -1, -1, -1]
            out.append(("hermitian-dilation", Dl, None))
        if n >= 3:
            # NEARLY Hermitian input (asymmetry 1e-6 relative, far above the tolerance): it is a general matrix - nothing may
            # be "cleaned" away; also one triangle rounded to float32
            Hn = E.herm_from_spectrum(ul[-1][1], lam)
            Nz = rng.standard_normal((n, n, 4))
            out.append(("nearly-hermitian", Hn + 1e-6 * np.max(np.abs(Hn)) * Nz, None))
            out.append(("nearly-hermitian", Hn * (1.0 + 1e-6 * Nz), None))          # per-entry RELATIVE asymmetry (passes np.allclose-style tests)
            H32 = Hn + 0.37 * (Nz + np.transpose(Nz, (1, 0, 2)) * [1, -1, -1, -1])
            for i_ in range(n):
                for j_ in range(i_):
                    H32[i_, j_] = H32[i_, j_].astype(np.float32).astype(np.float64)
            out.append(("nearly-hermitian", H32, None))
        if n >= 3:
            # block upper triangular / block diagonal: exactly zero sub-diagonal blocks (deflation and skipped reflectors)
            h = n // 2
            Bt = rng.standard_normal((n, n, 4))
            Bt[h:, :h] = 0
            out.append(("block-upper-triangular", Bt, None))
            Bd = Bt.copy()
            Bd[:h, h:] = 0
            out.append(("block-diagonal", Bd, None))
        if thorough:
            out.append(("generic-scaled", rng.standard_normal((n, n, 4)) * 1e-6, None))
            out.append(("zero", np.zeros((n, n, 4)), None))
    return out


def _job(args):
    tid0, vi, cls, A, lam, budgets, tol = args
    sc = lib().schur
    name, fn = VARIANTS[vi]
    n = A.shape[0]
    ev = []
    nrm = max(ofro(A), 1.0)      # the library's tolerances are absolute for ||A|| <= 1 and relative above
    herm = lam is not None
    for bi, b in enumerate(budgets):
        tid = tid0 + bi
        e = {"tid": tid, "variant": name, "cls": cls, "n": n, "budget": b, "tol_lg": lg(tol), "hermitian": herm}
        try:
            with contextlib.redirect_stdout(io.StringIO()):
                Q, T, diag = fn(sc, q_from_float(A), b, tol)
        except Exception as ex:
            from .. import par as _p
            raise
        Qf, Tf = q_to_float(np.asarray(Q)), q_to_float(np.asarray(T))
        fin = bool(np.all(np.isfinite(Qf)) and np.all(np.isfinite(Tf)))
        e["finite"] = fin
        e["shapes_ok"] = bool(Qf.shape == (n, n, 4) and Tf.shape == (n, n, 4))
        e["flag"] = bool(diag.get("converged", False))
        e["iters"] = int(diag.get("iterations_run", 0) or 0)
        if fin and e["shapes_ok"]:
            e["unitary_units"] = S.unitary_units(Qf)
            e["sim_lg"] = lg(ofro(omul(omul(Qf, Tf), oherm(Qf)) - A) / nrm)
            low = max([float(np.sqrt(np.sum(Tf[i, j] ** 2))) for i in range(n) for j in range(i)] + [0.0])
            e["lower_lg"] = lg(low / nrm)
            up = max([float(np.sqrt(np.sum(Tf[i, j] ** 2))) for i in range(n) for j in range(i + 1, n)] + [0.0])
            e["offdiag_lg"] = lg(up / nrm)
            e["diagimag_lg"] = lg(max([float(np.sqrt(np.sum(Tf[i, i, 1:] ** 2))) for i in range(n)] + [0.0]) / nrm)
            if herm:
                d = np.sort(np.array([Tf[i, i, 0] for i in range(n)]))
                e["spec_lg"] = lg(float(np.max(np.abs(d - np.sort(np.array(lam, dtype=float))))) / nrm)
            else:
                e["spec_lg"] = -100000
        else:
            e.update(unitary_units=2 ** 30, sim_lg=100000, lower_lg=100000, offdiag_lg=100000, diagimag_lg=100000, spec_lg=100000)
        ev.append(e)
    return ev, {"A": A.tolist(), "cls": cls, "variant": name}


def run(ctx, replay=None):
    lib()
    ctx.notes["reflectors_certified_by_TLC"] = E.check_against_tlc(ctx)
    thorough = ctx.tier == "thorough"
    nmax = 5 if thorough else 3
    ctx.assumptions += [
        "all magnitudes are relative to max(1, ||A||_F) (the deflation tests are absolute below 1 and relative above); similarity error bound: max(2^10 * tol, 2^-38) (deflations add at most tol each); 'upper triangular to that tolerance': largest strictly-lower entry <= max(2^7 * tol, 2^-38)",
        "Q unitary within 65536 units (iterated similarity transforms)",
    ]
    res = ctx.model("Schur", MCFG % 4, coverage=True)
    ctx.notes["M_action_coverage"] = {k: v["distinct"] for k, v in res.get("coverage", {}).items() if k in ("Sweep", "Deflate", "DeclareConverged", "BudgetExhausted")}
    budgets = [0, 1, 2, 3, 10, 60, 400] if thorough else [0, 1, 3, 40]
    ins = inputs(nmax, ctx.seed, thorough)
    jobs = []
    tid = 0
    tols = [1e-10]
    for vi in range(len(VARIANTS)):
        for (cls, A, lam) in ins:
            for tol in tols:
                jobs.append((tid, vi, cls, A, lam, budgets, tol))
                tid += len(budgets)
    # sizes at which the AED heuristics switch their factor (n <= 20, <= 50, <= 75, above): two or three sweeps only -
    # the similarity holds whether or not the iteration converged
    rng_big = np.random.default_rng(ctx.seed + 4242)
    for nb in ((24, 52, 78) if thorough else (24, 52)):
        Ab = rng_big.standard_normal((nb, nb, 4))
        for vi, (vname, _) in enumerate(VARIANTS):
            if vname in ("unified:aed", "unified:ds", "unified:aed:noshifts"):
                jobs.append((tid, vi, "size-%d" % nb, Ab, None, [2, 3], 1e-10))
                tid += 2
    outs = par.pmap(_job, jobs)
    events = []
    meta = {}
    for (ev, info), job in zip(outs, jobs):
        events += ev
        for e in ev:
            meta[e["tid"]] = info
    bad = ctx.trace("SchurTrace", events, TCFG, timeout=1800)
    byid = {e["tid"]: e for e in events}
    for tid_, clause in bad:
        e = byid[tid_]
        if clause.startswith("M:"):
            ctx.drift.append("%s %s %s" % (clause, e["variant"], e["cls"]))
            continue
        ctx.fail(e["variant"], clause, e["cls"], {"event": e, "A": meta[tid_]["A"]})
    ctx.drift = sorted(set(ctx.drift))[:20]
    for e in events:
        ctx.case((e["tid"],))
    ctx.replays = len(events)
    ctx.count("SimilarityPreserved", len(events))
    ctx.count("ConvergedImpliesUpperTriangular", sum(1 for e in events if e["flag"]))
    ctx.count("HermitianConverged*", sum(1 for e in events if e["flag"] and e["hermitian"]))
    ctx.notes["runs_with_flag_up"] = sum(1 for e in events if e["flag"])
    ctx.notes["variants"] = [v[0] for v in VARIANTS]
    ctx.sample({"direction": "B", "event": events[len(events) // 2]})
    ctx.sample({"direction": "B", "event": [e for e in events if e["flag"]][0] if any(e["flag"] for e in events) else events[0]})
    return "model_checking"
