"""C18 - tensor unfold/fold, colour <-> quaternion maps, metrics, noise SNR.

M  (Tensor.tla): all shapes <= MaxDim x modes; TLC checks that the documented
   layout satisfies the unfolding contract (fibres, each once, shape).
F/B each TLC case is instantiated with a label tensor in several memory layouts
   (C, Fortran, transposed view, strided slice), run through tensor_unfold /
   tensor_fold; the returned label matrices are validated by TensorTrace.tla
   against the CONTRACT (column order is only a DRIFT clause).  Colour maps,
   metrics and SNR are recorded as integer events and checked there too.
"""
import math

import numpy as np
import quaternion

from .. import par
from ..qlib import lib, q_from_float, q_to_float

MCFG = """CONSTANT MaxDim = %d
SPECIFICATION Spec
INVARIANT MechanismMeetsContract
CHECK_DEADLOCK FALSE
"""
TCFG = """CONSTANT SnrSlackMilliDb = 500
INIT TInit
NEXT TNext
INVARIANT Report
CHECK_DEADLOCK FALSE
"""
LAYOUTS = ["C", "F", "transposed-view", "strided"]


def label_tensor(I, J, K, layout):
    F = np.zeros((I, J, K, 4))
    for i in range(I):
        for j in range(J):
            for k in range(K):
                # w = label, vector part makes |q| distinct per entry too
                F[i, j, k] = [100 * (i + 1) + 10 * (j + 1) + (k + 1), i + 1, j + 1, k + 1]
    T = quaternion.as_quat_array(F.copy())
    if layout == "C":
        return np.ascontiguousarray(T)
    if layout == "F":
        return np.asfortranarray(T)
    if layout == "transposed-view":
        base = np.ascontiguousarray(np.transpose(T, (2, 1, 0)))
        return np.transpose(base, (2, 1, 0))
    big = np.zeros((2 * I, J, 2 * K), dtype=np.quaternion)
    big[::2, :, ::2] = T
    return big[::2, :, ::2]


def _tensor_case(args):
    I, J, K, mode, tid0 = args
    t = lib().tensor
    u = lib().utils
    ev = []
    for li, layout in enumerate(LAYOUTS):
        T = label_tensor(I, J, K, layout)
        Tf = q_to_float(T)
        tid = tid0 + li
        try:
            M = t.tensor_unfold(T, mode)
            Mf = q_to_float(np.asarray(M))
            if Mf.ndim != 3:
                raise ValueError("unfolding is not a matrix: shape %r" % (Mf.shape,))
            lab = np.rint(Mf[..., 0]).astype(int)
            dec = np.stack([lab // 100, (lab // 10) % 10, lab % 10], axis=-1).astype(float)
            intact = bool(np.array_equal(Mf[..., 1:], dec) and np.array_equal(np.rint(Mf[..., 0]), Mf[..., 0]))
            nT = t.tensor_frobenius_norm(T)
            nM = u.quat_frobenius_norm(M)
            absT = t.tensor_entrywise_abs(T)
            absM = np.sqrt(np.sum(Mf ** 2, axis=-1))
            idx = np.clip(dec.astype(int) - 1, 0, [I - 1, J - 1, K - 1])
            abs_ok = bool(np.array_equal(absM, absT[idx[..., 0], idx[..., 1], idx[..., 2]]))
            ev.append({"tid": tid, "op": "unfold", "I": I, "J": J, "K": K, "mode": mode, "layout": layout,
                       "M": lab.tolist(), "intact": intact,
                       "norm_ok": bool(abs(nT - nM) <= 4 * 2.0 ** -52 * nT), "abs_ok": abs_ok})
            T2 = t.tensor_fold(M, mode, (I, J, K))
            T2f = q_to_float(np.asarray(T2))
            ok_shape = T2f.shape == Tf.shape
            ev.append({"tid": tid, "op": "fold", "I": I, "J": J, "K": K, "mode": mode, "layout": layout,
                       "T": np.rint(Tf[..., 0]).astype(int).tolist(),
                       "T2": np.rint(T2f[..., 0]).astype(int).tolist() if ok_shape else []})
            ev.append({"tid": tid, "op": "flag", "clause": "FoldInvertsUnfold", "what": "bitwise, all components",
                       "ok": bool(ok_shape and np.array_equal(T2f, Tf)), "layout": layout, "shape": [I, J, K], "mode": mode})
        except Exception as e:
            ev.append({"tid": tid, "op": "flag", "clause": "UnfoldFoldInDomain", "ok": False, "exc": repr(e),
                       "layout": layout, "shape": [I, J, K], "mode": mode})
    return ev


def _colour_events(seed, thorough, tid0):
    Q = lib().qslst
    rng = np.random.default_rng(seed)
    ev = []
    tid = tid0
    sizes = [(1, 1), (1, 3), (3, 1), (2, 2), (3, 2)] + ([(4, 5), (5, 3)] if thorough else [])
    for (H, W) in sizes:
        for kind in ("uint8-range", "unit-dyadic", "binary", "arbitrary-noclip"):
            for rp in (0, 1, -3, 2):
                tid += 1
                if kind == "uint8-range":
                    scale, rgb_i = 1, rng.integers(0, 256, (H, W, 3))
                elif kind == "unit-dyadic":
                    scale, rgb_i = 64, rng.integers(0, 65, (H, W, 3))
                elif kind == "binary":
                    scale, rgb_i = 1, rng.integers(0, 2, (H, W, 3))
                else:
                    scale, rgb_i = 4, rng.integers(-40, 41, (H, W, 3))
                rgb = rgb_i.astype(np.float64) / scale
                real_part = rp / 2.0 if kind == "unit-dyadic" else float(rp)
                q = Q.rgb_to_quat(rgb.copy(), real_part=real_part)
                back = Q.quat_to_rgb(q, clip=False) if kind == "arbitrary-noclip" else Q.quat_to_rgb(q)
                # the caller rescales the RGB image it was given IN PLACE and converts the same quaternion image again
                tmp_ = Q.quat_to_rgb(q, clip=False) if kind == "arbitrary-noclip" else Q.quat_to_rgb(q)
                if isinstance(tmp_, np.ndarray) and tmp_.flags.writeable:
                    tmp_ *= 0.0
                    back = Q.quat_to_rgb(q, clip=False) if kind == "arbitrary-noclip" else Q.quat_to_rgb(q)
                s2 = scale * 2
                qi, bi = q * s2, back * s2
                exact = np.array_equal(np.rint(qi), qi) and np.array_equal(np.rint(bi), bi) and q.shape == (H, W, 4) and back.shape == (H, W, 3)
                if not exact:
                    ev.append({"tid": tid, "op": "flag", "clause": "RgbRoundTrip", "ok": False, "kind": kind, "shape": [H, W]})
                    continue
                ev.append({"tid": tid, "op": "rgb", "kind": kind, "H": H, "W": W, "real_part": int(round(real_part * s2)),
                           "rgb": (rgb_i * 2).tolist(), "q": np.rint(qi).astype(int).tolist(),
                           "back": np.rint(bi).astype(int).tolist()})
                # split / stack
                ch = Q.split_quat_channels(q)
                st = Q.stack_quat_channels(*ch)
                ev.append({"tid": tid, "op": "flag", "clause": "SplitStackInverse", "ok": bool(np.array_equal(st, q)), "kind": kind})
                # the planes of ONE image re-arranged before stacking (BGR swap, a grey image from one plane, a flip): each
                # argument is what it is, wherever its memory lives
                for rname, planes in (("channels-swapped", (ch[0], ch[3], ch[2], ch[1])), ("one-plane-repeated", (ch[0], ch[1], ch[1], ch[1])),
                                      ("flipped-views", tuple(c_[::-1, ::-1] for c_ in ch)), ("real-plane-last", (ch[1], ch[2], ch[3], ch[0]))):
                    want_ = [np.array(p_, dtype=np.float64) for p_ in planes]
                    st2 = Q.stack_quat_channels(*planes)
                    back2 = Q.split_quat_channels(st2)
                    ok2 = np.asarray(st2).shape == (H, W, 4) and all(np.array_equal(np.asarray(b_, dtype=np.float64), w_) for b_, w_ in zip(back2, want_))
                    ev.append({"tid": tid, "op": "flag", "clause": "SplitStackInverse", "ok": bool(ok2), "kind": kind + ":" + rname})
    # split / stack with planes of MIXED dtypes (integer real plane, float colour planes ...): values must survive
    for (H, W) in sizes[:4]:
        col = [rng.integers(0, 65, (H, W)) / 64.0 for _ in range(3)]
        col255 = [rng.integers(0, 256, (H, W)) + 0.5 for _ in range(3)]
        for name, q0, cols in (("int-zero-real+float", np.zeros((H, W), dtype=np.int64), col),
                               ("uint8-real+float255", np.full((H, W), 7, dtype=np.uint8), col255),
                               ("float32-real+float64", np.full((H, W), 0.25, dtype=np.float32), col),
                               ("bool-real+float", np.zeros((H, W), dtype=bool), col)):
            tid += 1
            st = Q.stack_quat_channels(q0, *cols)
            back = Q.split_quat_channels(st)
            ok = np.asarray(st).shape == (H, W, 4) and all(np.array_equal(np.asarray(b, dtype=np.float64), np.asarray(o, dtype=np.float64))
                                                              for b, o in zip(back, [q0] + cols))
            ev.append({"tid": tid, "op": "flag", "clause": "SplitStackInverse", "ok": bool(ok), "kind": "mixed-dtype:" + name, "shape": [H, W]})
    # metrics: zero-distance consistency
    for n in range(40 if thorough else 16):
        tid += 1
        shape = [(1,), (3,), (2, 2), (2, 3, 4)][n % 4]
        x = rng.integers(-5, 6, shape)
        if n % 8 == 7:
            x = np.zeros(shape, dtype=int) + 3           # constant reference (data range 0)
        y = x.copy()
        if n % 2 == 1:
            pos = tuple(rng.integers(0, s) for s in shape)
            y[pos] += int(rng.choice([-1, 1]))
        if not np.any(y):
            y[(0,) * len(shape)] = 1                      # relative_error documents inf for a zero reference
            x = y.copy() if n % 2 == 0 else x
        # one pair of float arrays goes through every metric in turn, as a caller's pipeline does
        xf, yf = x.astype(float), y.astype(float)
        kw = {} if n % 3 else {"data_range": 255.0}
        p = Q.psnr(xf, yf, **kw)
        r = Q.relative_error(xf, yf)
        p2 = Q.psnr(xf, yf, **kw)
        ev.append({"tid": tid, "op": "metric", "x": x.tolist(), "y": y.tolist(),
                   "psnr_inf": bool(p == float("inf")), "relerr_zero": bool(r == 0.0),
                   "psnr_again_inf": bool(p2 == float("inf")),
                   "same_after": bool(np.array_equal(xf, x) and np.array_equal(yf, y))})
    # one-ulp difference is still a difference
    tid += 1
    a = np.array([1.0, 2.0, 3.0])
    b = a.copy()
    b[1] = np.nextafter(b[1], 3.0)
    ev.append({"tid": tid, "op": "flag", "clause": "PsnrInfIffEqual", "what": "one-ulp difference",
               "ok": bool(Q.psnr(b, a) != float("inf") and Q.relative_error(b, a) > 0)})
    # a FLAT reference (constant image: the default data range max - min is zero) and a different image: finite PSNR, no exception
    for flat, shp in ((0.0, (4, 4, 4)), (0.5, (3, 3)), (2.0, (1, 1)), (1.0, (2, 5, 3))):
        tid += 1
        ref = np.full(shp, flat)
        other = ref.copy()
        other.flat[0] += 0.25
        try:
            pf, pe = Q.psnr(other, ref), Q.psnr(ref.copy(), ref)
            okf = bool(np.isfinite(pf) and pe == float("inf"))
        except Exception:
            okf = False
        ev.append({"tid": tid, "op": "flag", "clause": "PsnrInfIffEqual", "what": "flat reference %r, default data range" % flat, "ok": okf})
    # nearly equal arrays (a few entries changed by 1 ulp .. 1e-9 relative): still unequal, so finite PSNR / non-zero error
    for n_ in range(12 if thorough else 6):
        tid += 1
        a = rng.random((8, 8, 3)) if n_ % 2 else rng.random(64) * 10.0 ** rng.integers(-3, 4)
        b = a.copy()
        idx = tuple(int(rng.integers(0, s_)) for s_ in a.shape)
        rel = (0.0, 1e-15, 1e-12, 1e-9)[n_ % 4]
        b[idx] = np.nextafter(b[idx], np.inf) if rel == 0.0 else b[idx] * (1.0 + rel) + (rel if b[idx] == 0 else 0.0)
        neq = not np.array_equal(a, b)
        ev.append({"tid": tid, "op": "flag", "clause": "PsnrInfIffEqual", "what": "one entry changed by %s" % (rel or "1 ulp"),
                   "ok": bool((Q.psnr(b, a) != float("inf")) == neq and (Q.relative_error(b, a) > 0) == neq
                              and (Q.psnr(a, b) != float("inf")) == neq)})
    # noise injection hits the requested SNR in expectation (statistical clause)
    for target in (10.0, 25.0, 40.0):
        tid += 1
        img = rng.random((16, 16, 4)) + 0.1
        vals = []
        for s in range(64):
            noisy = Q.add_awgn_snr(img, target, rng=np.random.default_rng(1000 * seed + s))
            noise = noisy - img
            vals.append(10.0 * math.log10(np.sum(img ** 2) / np.sum(noise ** 2)))
        ev.append({"tid": tid, "op": "snr", "target_mdb": int(round(target * 1000)),
                   "mean_mdb": int(round(float(np.mean(vals)) * 1000)), "n_seeds": 64, "samples": 1024})
    # the DEFAULT generator (rng omitted): the requested SNR is met in expectation over calls, which needs fresh noise per call
    for target, shp in ((10.0, (1, 1, 4)), (20.0, (1, 2, 4)), (25.0, (4, 4, 4))):
        tid += 1
        img = rng.random(shp) + 0.1
        vals, noises = [], []
        ncalls = 6000 if int(np.prod(shp)) <= 8 else 1500                 # >= 24000 samples: one sigma of the estimate is 0.04 dB (slack 0.5 dB)
        for s_ in range(ncalls):
            noisy = Q.add_awgn_snr(img, target)
            noises.append(noisy - img)
        pw = float(np.mean([np.sum(nz ** 2) for nz in noises]))
        ev.append({"tid": tid, "op": "snr", "target_mdb": int(round(target * 1000)),
                   "mean_mdb": int(round(10.0 * math.log10(np.sum(img ** 2) / max(pw, 1e-300)) * 1000)), "n_seeds": ncalls, "samples": ncalls * int(np.prod(shp)),
                   "default_generator": True})
        tid += 1
        ev.append({"tid": tid, "op": "flag", "clause": "SnrInExpectation", "what": "default generator draws fresh noise on every call",
                   "ok": bool(not np.array_equal(noises[0], noises[1]))})
    z = np.zeros((4, 4, 4))
    tid += 1
    ev.append({"tid": tid, "op": "flag", "clause": "SnrZeroSignalUnchanged",
               "ok": bool(np.array_equal(Q.add_awgn_snr(z, 10.0, rng=np.random.default_rng(1)), z))})
    return ev


def run(ctx, replay=None):
    lib()
    thorough = ctx.tier == "thorough"
    md = 4 if thorough else 3
    ctx.assumptions += [
        "labels 100i+10j+k identify the source index of every entry (dims <= 9)",
        "relative_error documents 'inf' for a zero reference; zero-distance consistency is claimed for non-zero references",
        "SNR clause is statistical: mean over 64 seeds of a 1024-sample image within 0.5 dB (weakest clause)",
    ]
    res = ctx.model("Tensor", MCFG % md, dump=True)
    cases = [s for s in res["states"] if s["pc"] == "tensor"]
    ctx.exhaustive = True
    jobs = [(s["I"], s["J"], s["K"], s["mode"], 10 * (i + 1)) for i, s in enumerate(cases)]
    events = []
    for ev in par.pmap(_tensor_case, jobs):
        events += ev
    events += _colour_events(ctx.seed, thorough, 10 * (len(cases) + 2))
    bad = ctx.trace("TensorTrace", events, TCFG)
    byid = {}
    for e in events:
        byid.setdefault(e["tid"], []).append(e)
    for tid, clause in bad:
        es = byid[tid]
        e = es[0]
        if clause.startswith("M:"):
            ctx.drift.append("%s layout=%s" % (clause, e.get("layout")))
            continue
        fn = {"unfold": "tensor_unfold", "fold": "tensor_fold", "rgb": "rgb_to_quat/quat_to_rgb",
              "metric": "psnr/relative_error", "snr": "add_awgn_snr"}.get(e["op"], e.get("clause", "helpers"))
        if clause in ("FoldInvertsUnfold",):
            fn = "tensor_fold"
        cls = e.get("layout") or e.get("kind") or "enumerated"
        ctx.fail(fn, clause, cls, {"events": [{k: v for k, v in x.items() if k != "T"} for x in es][:3]})
    for e in events:
        ctx.case((e["tid"], e["op"], e.get("clause")))
        ctx.count(e["op"])
    ctx.replays = len(events)
    ctx.drift = sorted(set(ctx.drift))
    ctx.sample({"direction": "F/B", "event": [e for e in events if e["op"] == "unfold" and e["I"] == 2 and e["J"] == 3][0]})
    ctx.sample({"direction": "B", "event": [e for e in events if e["op"] == "rgb"][0]})
    ctx.sample({"direction": "B", "event": [e for e in events if e["op"] == "snr"][0]})
    return "model_checking"
