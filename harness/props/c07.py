"""C07 - LU with partial pivoting, both output modes, loud when singular.

F: LU.tla runs Gaussian elimination exactly on constructed inputs that force
   each of the m! interchange sequences; every terminal state (expected L, U,
   permutation, or "raise") is replayed into quaternion_lu, compared bit-exactly
   where M is exact, and judged through the property's clauses.
B: random float / integer / rank-deficient inputs of all shapes, both modes; the
   recorded structure and residuals are checked by LUTrace.tla.
"""
import numpy as np

from .. import par
from ..qlib import lib, q_from_float, q_to_float, omul, ofro, units

_FLAGN = __import__("harness.qlib", fromlist=["register_counter"]).register_counter([0])


def _flag(v):
    """the output-mode flag the way callers hold it: the literal, a numpy bool (the result of a comparison), 0 / 1, None for False"""
    _FLAGN[0] += 1
    k = _FLAGN[0] % 4
    if v:
        return (True, np.bool_(True), 1, np.int64(1))[k]
    return (False, np.bool_(False), 0, None)[k]


CFG = """CONSTANTS MaxM = %d
 Variants = {%s}
 Modes = {2, 3}
SPECIFICATION Spec
INVARIANTS PA_eq_LU A_eq_L2U UnitLower3 UpperTrap IsPerm Recovers RaiseIffSingular
CHECK_DEADLOCK FALSE
"""
TCFG = """CONSTANTS UnitsBound = 4096
 MultSlack = 8
INIT TInit
NEXT TNext
INVARIANT Report
CHECK_DEADLOCK FALSE
"""
S = 4.0


def _structure(L, U, m, n, N):
    unitlower = True
    maxmult = 0.0
    for r in range(m):
        for c in range(N):
            v = L[r, c]
            if r == c and not np.array_equal(v, [1, 0, 0, 0]):
                unitlower = False
            if r < c and np.any(v != 0):
                unitlower = False
            if r > c:
                maxmult = max(maxmult, float(np.sqrt(np.sum(v * v))))
    upper = all(not np.any(U[r, c] != 0) for r in range(N) for c in range(n) if r > c)
    return unitlower, upper, maxmult


def _replay_state(st):
    """-> (n_evals, fails[(fn, clause, cls, detail)], drift[str])"""
    L = lib().LU
    m, n = st["m"], st["n"]
    N = min(m, n)
    sc = 2.0 ** st.get("_scale_exp", 0)           # exact power-of-two scaling: L and P unchanged, U scaled
    A = np.array(st["A0"], dtype=np.float64).reshape(m, n, 4) / S * sc
    mode = st["mode"]
    out = st["out"]
    sig = st["sigma"]
    order = "id" if sig == sorted(sig) else ("involution" if all(sig[sig[i] - 1] == i + 1 for i in range(m)) else "non-involutive")
    cls = "forced-order:%s" % order if st["sing"] == 0 else "singular-column"
    if st.get("_scale_exp", 0):
        cls += ":scaled"
    fails, drift = [], []
    detail = {"A_times_4": st["A0"], "sigma": sig, "mode": mode, "sing": st["sing"], "scaled_by_pow2": st.get("_scale_exp", 0)}
    Aq = q_from_float(A)
    A_before = A.copy()
    try:
        if mode == 3:
            Lq, Uq, Pq = L.quaternion_lu(Aq, return_p=_flag(True))
        else:
            Lq, Uq = L.quaternion_lu(Aq) if _FLAGN[0] % 4 == 0 else L.quaternion_lu(Aq, return_p=_flag(False))
            Pq = None
        raised = False
    except Exception as e:  # noqa
        raised = True
        exc = repr(e)
    if not np.array_equal(q_to_float(Aq), A_before):
        fails.append(("quaternion_lu", "InputUnchanged", cls, detail))
    if out["raised"]:
        if raised:
            return 1, fails, drift
        # returned although M raises: allowed iff the factors reproduce A
    elif raised:
        # M returns factors; the property allows raising only when no non-zero pivot exists
        fails.append(("quaternion_lu.mode%d" % mode, "RaiseOnlyWhenSingular", cls, dict(detail, exc=exc)))
        return 1, fails, drift
    Lf, Uf = q_to_float(Lq), q_to_float(Uq)
    if Lf.shape != (m, N, 4) or Uf.shape != (N, n, 4):
        fails.append(("quaternion_lu.mode%d" % mode, "Shapes", cls, dict(detail, got=[Lf.shape, Uf.shape])))
        return 1, fails, drift
    LUp = omul(Lf, Uf)
    if mode == 3:
        Pf = q_to_float(Pq)
        P0 = Pf[..., 0]
        isperm = (not np.any(Pf[..., 1:] != 0)) and np.all((P0 == 0) | (P0 == 1)) and \
            np.all(P0.sum(0) == 1) and np.all(P0.sum(1) == 1)
        if not isperm:
            fails.append(("quaternion_lu.mode3", "IsPermutation", cls, detail))
            return 1, fails, drift
        ip = [int(np.argmax(P0[i])) for i in range(m)]
        PA = A[ip]
        if not np.array_equal(PA, LUp):
            fails.append(("quaternion_lu.mode3", "PA_eq_LU", cls, dict(detail, got_ip=ip)))
        # the library's own verifier must tell the same story as the oracle (mechanism level)
        try:
            v = L.verify_lu_decomposition(Aq, Lq, Uq, Pq)
            if bool(v["passed"]) != bool(np.array_equal(PA, LUp)):
                drift.append("verify_lu_decomposition(P) says passed=%s, oracle says %s (%s)" % (v["passed"], np.array_equal(PA, LUp), cls))
        except Exception as e:  # noqa
            drift.append("verify_lu_decomposition raised %r" % (e,))
        ul, up, mx = _structure(Lf, Uf, m, n, N)
        if not ul:
            fails.append(("quaternion_lu.mode3", "UnitLower", cls, detail))
        if not up:
            fails.append(("quaternion_lu.mode3", "UpperTrap", cls, detail))
        if mx > 1.0:
            fails.append(("quaternion_lu.mode3", "MultLeOne", cls, dict(detail, maxmult=mx)))
        if not out["raised"]:
            eL = np.array(out["L"], dtype=np.float64).reshape(m, N, 4) / S
            eU = np.array(out["U"], dtype=np.float64).reshape(N, n, 4) / S * sc
            eip = [x - 1 for x in out["IP"]]
            if not (np.array_equal(Lf, eL) and np.array_equal(Uf, eU) and ip == eip):
                drift.append("mode3 factors differ from M's on %s" % cls)
        else:
            drift.append("mode3 returns valid factors where M raises (%s)" % cls)
    else:
        if not np.array_equal(A, LUp):
            fails.append(("quaternion_lu.mode2", "A_eq_L2U", cls, dict(detail, L2=Lf.tolist())))
        try:
            v = L.verify_lu_decomposition(Aq, Lq, Uq)
            if bool(v["passed"]) != bool(np.array_equal(A, LUp)):
                drift.append("verify_lu_decomposition says passed=%s, oracle says %s (%s)" % (v["passed"], np.array_equal(A, LUp), cls))
        except Exception as e:  # noqa
            drift.append("verify_lu_decomposition raised %r" % (e,))
        up = all(not np.any(Uf[r, c] != 0) for r in range(N) for c in range(n) if r > c)
        if not up:
            fails.append(("quaternion_lu.mode2", "UpperTrap", cls, detail))
        # L2 must be a row permutation of a unit lower trapezoidal matrix
        if not out["raised"]:
            eL2 = np.array(out["L"], dtype=np.float64).reshape(m, N, 4) / S
            if not np.array_equal(Lf, eL2):
                # is it some other row-permuted unit lower matrix?  (P accepts that)
                rows = [tuple(Lf[r].ravel()) for r in range(m)]
                eL = sorted(tuple(x.ravel()) for x in eL2)
                if sorted(rows) != eL:
                    fails.append(("quaternion_lu.mode2", "L2RowPermutedUnitLower", cls, dict(detail, L2=Lf.tolist())))
                else:
                    drift.append("mode2 L differs from M's P^T L on %s" % cls)
    return 1, fails, drift


def _b_case(args):
    seed, tid = args
    rng = np.random.default_rng(seed)
    L = lib().LU
    m, n = int(rng.integers(1, 7)), int(rng.integers(1, 7))
    N = min(m, n)
    kind = ["gauss", "int", "zero-col", "scaled", "dup-rows", "block-diagonal", "sparse", "graded", "dep-cols", "graded-60"][tid % 10]
    if kind == "dep-cols" and n >= 2:
        # a column that is a quaternion multiple of an earlier one, generic entries: elimination leaves ROUNDING NOISE
        # (not an exact zero) in the pivot position - the documented behaviour there is the loud failure
        A = rng.standard_normal((m, n, 4))
        j0 = int(rng.integers(0, n - 1))
        A[:, j0 + 1:j0 + 2] = omul(A[:, j0:j0 + 1], rng.standard_normal((1, 1, 4)))
    elif kind == "graded-60":
        A = rng.standard_normal((m, n, 4))
        A[:, n // 2:] *= 2.0 ** -60            # trailing columns 2^-60 times smaller than the leading ones
        A[m // 2:, :] *= 2.0 ** -30
    elif kind in ("dep-cols",):
        A = rng.standard_normal((m, n, 4))
    if kind in ("dep-cols", "graded-60"):
        pass
    elif kind == "block-diagonal":
        m = n = int(rng.integers(4, 8))
        N = n
        h = n // 2
        A = rng.standard_normal((m, n, 4))
        A[:h, h:] = 0.0
        A[h:, :h] = 0.0
    elif kind == "sparse":
        A = rng.standard_normal((m, n, 4)) * (rng.random((m, n, 1)) < 0.5)
    elif kind == "graded":
        A = rng.standard_normal((m, n, 4)) * (2.0 ** (-8.0 * np.arange(n)))[None, :, None]      # column scaling 1 .. 2^-40
    elif kind == "gauss":
        A = rng.standard_normal((m, n, 4))
    elif kind == "int":
        A = rng.integers(-3, 4, size=(m, n, 4)).astype(float)
    elif kind == "zero-col":
        A = rng.standard_normal((m, n, 4))
        if rng.random() < 0.5:
            A[:, rng.integers(0, n)] = 0.0
        else:
            A[:, rng.integers(0, n)] *= -0.0                  # zeros carrying sign bits
    elif kind == "scaled":
        A = rng.standard_normal((m, n, 4)) * 10.0 ** rng.integers(-6, 7)
    else:
        A = rng.standard_normal((m, n, 4))
        if m > 1:
            A[m - 1] = A[0]
    Aq = q_from_float(A)
    ev = {"tid": tid, "m": m, "n": n, "N": N, "kind": kind}
    r3 = r2 = None
    try:
        r3 = L.quaternion_lu(Aq.copy(), return_p=_flag(True))
        ev["raised3"] = False
    except Exception:
        ev["raised3"] = True
    try:
        r2 = L.quaternion_lu(Aq.copy(), return_p=_flag(False))
        ev["raised2"] = False
    except Exception:
        ev["raised2"] = True
    # singular (for the purpose of "may raise"): complex-adjoint rank deficient leading block
    from ..qlib import osvals
    sv = osvals(A[:, :N]) if m >= n else osvals(A[:N, :N])
    sv_all = osvals(A)
    ev["singular"] = bool(len(sv_all) == 0 or sv_all[-1] <= 1e-12 * max(sv_all[0], 1e-300)
                          or kind in ("zero-col", "dup-rows") or sv[-1] <= 1e-12 * max(sv[0], 1e-300)
                          or _has_singular_leading(A))
    if ev["raised3"] or ev["raised2"]:
        return ev, A.tolist()
    Lf, Uf, Pf = (q_to_float(x) for x in r3)
    L2f, U2f = (q_to_float(x) for x in r2)
    P0 = Pf[..., 0]
    ip = [int(np.argmax(P0[i])) + 1 for i in range(m)]
    okp = (not np.any(Pf[..., 1:] != 0)) and np.all((P0 == 0) | (P0 == 1))
    ev["ip"] = ip if okp else [0] * m
    ev["shapes"] = [int(x) for x in (Lf.shape[:2] + Uf.shape[:2] + P0.shape + L2f.shape[:2] + U2f.shape[:2])]
    sc = max(ofro(A), 1e-300)
    if Lf.shape == (m, N, 4) and Uf.shape == (N, n, 4) and L2f.shape == (m, N, 4) and U2f.shape == (N, n, 4):
        PA = A[[i - 1 for i in ip]] if sorted(ip) == list(range(1, m + 1)) else A
        growth = max(1.0, ofro(Lf) * ofro(Uf) / sc)
        ev["units3"] = units(ofro(PA - omul(Lf, Uf)), sc * growth, m * n)
        ev["units2"] = units(ofro(A - omul(L2f, U2f)), sc * growth, m * n)
        ul, up, mx = _structure(Lf, Uf, m, n, N)
        up2 = all(not np.any(U2f[r, c] != 0) for r in range(N) for c in range(n) if r > c)
        ev["unitlower"], ev["upper"] = bool(ul), bool(up and up2)
        ev["maxmult"] = int(np.ceil(min(mx, 1000.0) * 32768))
        ev["l2src"] = [[i + 1 for i in range(m) if np.array_equal(Lf[i], L2f[r])] for r in range(m)]
    else:
        ev.update(units3=2 ** 30, units2=2 ** 30, unitlower=False, upper=False, maxmult=0,
                  l2src=[[] for _ in range(m)])
    return ev, A.tolist()


def _has_singular_leading(A):
    """True if some leading k x k block (after any row choice) can be singular:
    conservative test used only to decide whether raising is allowed."""
    from ..qlib import osvals
    m, n = A.shape[:2]
    for k in range(1, min(m, n) + 1):
        s = osvals(A[:, :k])
        if s[-1] <= 1e-10 * max(s[0], 1e-300):
            return True
    return False


def run(ctx, replay=None):
    lib()
    thorough = ctx.tier == "thorough"
    ctx.assumptions += [
        "exact family: entries with denominator 4, unit-modulus pivots, |multipliers| < 1; every floating-point operation of the elimination is exact on it, so TLC's result is a bit-exact oracle",
        "random inputs: reconstruction bounded at 4096 units of 2^-52*||L||*||U||*mn (growth-aware); |multiplier| <= 1 + 8*2^-15",
        "forced pivot orders exhaustively for m <= %d; larger m only through random inputs (m <= 6)" % (5 if thorough else 4),
    ]
    maxm = 5 if thorough else 4
    res = ctx.model("LU", CFG % (maxm, "1, 2, 3" if thorough else "1, 2"), dump=True, timeout=1200)
    done = [s for s in res["states"] if s["pc"] == "done"]
    ctx.exhaustive = True
    scaled = []
    for i, st in enumerate(done):                 # every third class also as an exactly scaled replica (tiny / huge magnitudes)
        if i % 3 == ctx.seed % 3:
            s2 = dict(st)
            s2["_scale_exp"] = (-60, 40, -20)[i % 3 if True else 0] if (i // 3) % 2 == 0 else (60, -40, 20)[i % 3]
            scaled.append(s2)
    done = done + scaled
    for st, (nv, fails, drift) in zip(done, par.pmap(_replay_state, done)):
        ctx.replays += nv
        ctx.case(("F", st["m"], st["n"], str(st["sigma"]), st["sing"], st["mode"], str(st["L0"]), st.get("_scale_exp", 0)))
        for fn, clause, cls, detail in fails:
            ctx.fail(fn, clause, cls, detail)
        ctx.drift += drift
    ctx.count("PA_eq_LU", sum(1 for s in done if s["mode"] == 3))
    ctx.count("A_eq_L2U", sum(1 for s in done if s["mode"] == 2))
    ctx.count("LoudWhenSingular", sum(1 for s in done if s["out"]["raised"]))
    mid = [s for s in done if s["m"] == 3 and s["mode"] == 2 and s["sing"] == 0][5]
    ctx.sample({"direction": "F", "m": mid["m"], "n": mid["n"], "sigma": mid["sigma"], "A_times_4": mid["A0"],
                "expected_L2_times_4": mid["out"]["L"], "expected_U_times_4": mid["out"]["U"]})
    nperm = {}
    for s in done:
        nperm.setdefault(s["m"], set()).add(str(s["sigma"]))
    ctx.notes["pivot_orders_forced"] = {str(k): len(v) for k, v in sorted(nperm.items())}
    # ---------------- B
    total = 4000 if thorough else 600
    jobs = [(ctx.seed * 100003 + t, t) for t in range(total)]
    outs = par.pmap(_b_case, jobs)
    events = [e for e, _ in outs]
    inputs = {e["tid"]: a for e, a in outs}
    # fill defaults so every record has every field
    for e in events:
        for k, v in (("ip", [0] * e["m"]), ("shapes", []), ("units3", 0), ("units2", 0), ("unitlower", True),
                     ("upper", True), ("maxmult", 0), ("l2src", [[] for _ in range(e["m"])])):
            e.setdefault(k, v)
    bad = ctx.trace("LUTrace", events, TCFG)
    byid = {e["tid"]: e for e in events}
    for tid, clause in bad:
        e = byid[tid]
        fn = "quaternion_lu.mode2" if clause in ("A_eq_L2U", "L2IsPTL") else "quaternion_lu.mode3"
        ctx.fail(fn, clause, "random:" + e["kind"], {"event": e, "A": inputs[tid]})
    for e in events:
        ctx.case(("B", e["tid"]))
    ctx.sample({"direction": "B", "event": events[0]})
    ctx.notes["raised_in_B"] = sum(1 for e in events if e["raised3"] or e["raised2"])
    return "model_checking"
