"""C05 - Q-SVD: true singular values, unitary factors, exact and optimal reconstruction.

F: every class of Spectral.tla (all multiplicity patterns x shapes x unitary
   picks; expectations computed by TLC) is built exactly and run through
   classical_qsvd_full and classical_qsvd(R) for every R.
B: random float matrices of prescribed rank (oracle values: complex adjoint).
Measurements are judged by MeasureTrace.tla.
"""
import math

import numpy as np

from .. import par
from .. import spectral as S
from ..qlib import lib, q_from_float, q_to_float, omul, oherm, ofro, osvals, units, EPS


def degenerate_trunc(sv, m, n, R):
    """would the first R columns involve two vectors from one singular subspace?"""
    r = sum(1 for v in sv if v != 0)
    head = [v for v in sv[:R] if v != 0]
    if len(set(head)) < len(head):
        return "degenerate-spectrum"
    return "degenerate-null-space" if (R - r) >= 2 else ""


def measure(rec, fn, cls, detail, A, Uf, sf, Vf, sv_exp, ey_exp, R, full):
    m, n = A.shape[:2]
    k = min(m, n)
    t = rec.new(fn, cls, detail)
    rec.eqint(t, "ShapeU", list(Uf.shape[:2]), [m, m if full else R])
    rec.eqint(t, "ShapeV", list(Vf.shape[:2]), [n, n if full else R])
    rec.eqint(t, "NumValues", int(len(sf)), k if full else R)
    if list(Uf.shape[:2]) != [m, m if full else R] or list(Vf.shape[:2]) != [n, n if full else R] or len(sf) != (k if full else R):
        return
    scale = max(float(sv_exp[0]) if len(sv_exp) else 0.0, 1e-300)
    want = np.array(sv_exp[:len(sf)], dtype=float)
    rec.units(t, "SingularValuesTrue", units(float(np.max(np.abs(np.asarray(sf, dtype=float) - want))) if len(sf) else 0.0, scale, 4 * max(m, n)))
    rec.flag(t, "ValuesSortedNonNegative", bool(np.all(np.diff(sf) <= 8 * EPS * scale) and np.all(np.asarray(sf) >= -8 * EPS * scale)))
    rec.units(t, "OrthonormalU", S.ortho_units(Uf))
    rec.units(t, "OrthonormalV", S.ortho_units(Vf))
    if cls == "graded-spectrum":
        # recorded finding: contracting the real singular vectors loses quaternion orthonormality like eps * s_max / gap
        # (continuous form of the degenerate-spectrum finding).  The weaker clauses bound the loss by that quantity, so a
        # change that squares the conditioning (Gram-matrix shortcuts) is still reported.
        pos = [float(v) for v in sv_exp if v > 0]
        gap = min([pos[i] - pos[i + 1] for i in range(len(pos) - 1)] + [pos[-1]]) if pos else 1.0
        for nm, M in (("OrthonormalUUpToGap", Uf), ("OrthonormalVUpToGap", Vf)):
            G = omul(oherm(M), M)
            for i in range(M.shape[1]):
                G[i, i, 0] -= 1.0
            rec.lgle(t, nm, float(np.max(np.abs(G))), 2.0 ** -52 * (scale / gap) * 4 * max(m, n), 6 * 64)
    kk = len(sf)
    D = np.zeros((Uf.shape[1], Vf.shape[1], 4))
    for i in range(min(kk, Uf.shape[1], Vf.shape[1])):
        D[i, i, 0] = float(sf[i])
    rec_ = omul(omul(Uf, D), oherm(Vf))
    err = ofro(A - rec_)
    if full:
        rec.units(t, "Reconstruction", units(err, scale, 4 * max(m, n) * k))
    else:
        opt = math.sqrt(float(ey_exp))
        fro = math.sqrt(sum(float(v) ** 2 for v in sv_exp)) or 1e-300
        rec.units(t, "EckartYoungOptimal", units(abs(err - opt), fro, 4 * max(m, n) * k), loose=True)


def _class_job(args):
    st, salt = args
    Q = lib().qsvd
    rec = S.Rec()
    A, U, V, names = S.build(st, salt)
    m, n = A.shape[:2]
    sv = st["out"]["svals"]
    detail = {"kind": st["kind"], "shape": [m, n], "s": st["s"], "U": names[0], "V": names[1]}
    Aq = q_from_float(A)
    Uq, s, Vq = Q.classical_qsvd_full(Aq.copy())
    measure(rec, "classical_qsvd_full", S.degenerate_full(st), detail, A, q_to_float(Uq), np.asarray(s), q_to_float(Vq),
            sv, None, None, True)
    # the same class scaled by an exact power of two (tiny / huge magnitudes)
    e = (-200, -60, 60, 200)[(m + 2 * n + len(str(st["s"]))) % 4]
    As = A * 2.0 ** e
    Uq, s, Vq = Q.classical_qsvd_full(q_from_float(As))
    measure(rec, "classical_qsvd_full", S.degenerate_full(st), dict(detail, scaled_by_pow2=e), As, q_to_float(Uq), np.asarray(s),
            q_to_float(Vq), [v * 2.0 ** e for v in sv], None, None, True)
    for R in range(1, min(m, n) + 1):
        Uq, s, Vq = Q.classical_qsvd(Aq.copy(), R)
        cls = degenerate_trunc(sv, m, n, R) or "simple-spectrum"
        measure(rec, "classical_qsvd", cls, dict(detail, R=R), A, q_to_float(Uq), np.asarray(s), q_to_float(Vq),
                sv, st["out"]["ey"][R - 1], R, False)
    return rec.events, rec.info


def _graded_job(args):
    """ill-conditioned inputs: exactly representable graded singular values (cond 2^10 .. 2^40) between exactly unitary
    factors; a Gram-matrix shortcut (eigenvalues of A^H A) would lose the small singular values"""
    seed, thorough = args
    from .. import exactfam as E
    Q = lib().qsvd
    rec = S.Rec()
    for (m, n) in ((3, 3), (4, 3), (3, 4), (5, 5)) + (((5, 4), (6, 5)) if thorough else ()):
        k = min(m, n)
        for ce in (10, 20, 30, 40):
            sv = [2.0 ** (3 - (ce * i) // max(k - 1, 1)) for i in range(k)]
            Un, U = E.ulib(m)[(seed + ce) % len(E.ulib(m))]
            Vn, V = E.ulib(n)[(seed + 2 * ce + 1) % len(E.ulib(n))]
            A = E.usv(U, sv, V)
            detail = {"kind": "graded", "shape": [m, n], "s": sv, "U": Un, "V": Vn, "cond": "2^%d" % ce}
            Aq = q_from_float(A)
            Uq, s, Vq = Q.classical_qsvd_full(Aq.copy())
            measure(rec, "classical_qsvd_full", "graded-spectrum", detail, A, q_to_float(Uq), np.asarray(s), q_to_float(Vq), sv, None, None, True)
            for R in range(1, k + 1):
                Uq, s, Vq = Q.classical_qsvd(Aq.copy(), R)
                measure(rec, "classical_qsvd", "graded-spectrum", dict(detail, R=R), A, q_to_float(Uq), np.asarray(s), q_to_float(Vq),
                        sv, sum(v * v for v in sv[R:]), R, False)
    return rec.events, rec.info


def _rand_job(args):
    seed, count = args
    rng = np.random.default_rng(seed)
    Q = lib().qsvd
    rec = S.Rec()
    for t in range(count):
        m, n = int(rng.integers(1, 7)), int(rng.integers(1, 7))
        k = min(m, n)
        r = int(rng.integers(0, k + 1)) if t % 3 == 0 else k
        A = rng.standard_normal((m, n, 4)) * 10.0 ** rng.integers(-3, 4)
        if r < k:
            # prescribed rank, DISTINCT non-zero values and at most one-dimensional extra null spaces are not
            # guaranteed here; the class label is computed from the oracle spectrum below
            L = rng.standard_normal((m, r, 4))
            Rm = rng.standard_normal((r, n, 4))
            A = omul(L, Rm) if r > 0 else np.zeros((m, n, 4))
        sv = list(osvals(A))
        rank = int(np.sum(np.array(sv) > 1e-10 * max(sv[0], 1e-300))) if sv and sv[0] > 0 else 0
        sv_clean = [v if i < rank else 0.0 for i, v in enumerate(sv)]
        deg = (m - rank >= 2) or (n - rank >= 2)
        cls = "degenerate-null-space" if deg else "simple-spectrum"          # random low-rank input: simple non-zero values
        detail = {"kind": "random", "shape": [m, n], "rank": rank, "A": A.tolist()}
        Aq = q_from_float(A)
        Uq, s, Vq = Q.classical_qsvd_full(Aq.copy())
        measure(rec, "classical_qsvd_full", cls, detail, A, q_to_float(Uq), np.asarray(s), q_to_float(Vq), sv_clean, None, None, True)
        for R in range(1, k + 1):
            Uq, s, Vq = Q.classical_qsvd(Aq.copy(), R)
            c2 = "degenerate-null-space" if (R - rank) >= 2 else "simple-spectrum"
            ey = sum(v * v for v in sv_clean[R:])
            measure(rec, "classical_qsvd", c2, dict(detail, R=R), A, q_to_float(Uq), np.asarray(s), q_to_float(Vq), sv_clean, ey, R, False)
    return rec.events, rec.info


def _tall_job(args):
    """tall-skinny inputs (m >= 3n) of every rank, with the dependence placed in every column position (seed C05o: a
    'QR first' path for m >= 3n is only as good as the QR of a rank-deficient matrix): generic low-rank products, a
    column that is a right multiple of an EARLIER column, and an exactly zero column at every position"""
    seed, count = args
    rng = np.random.default_rng(seed)
    Q = lib().qsvd
    rec = S.Rec()
    shapes = [(3, 1), (6, 2), (8, 2), (9, 3), (12, 3)]
    for t in range(count):
        m, n = shapes[t % len(shapes)]
        B = rng.standard_normal((m, n, 4))
        mode = (t // len(shapes)) % 4
        if mode == 1 and n >= 2:                                   # column j = column i * q,  i < j
            i = int(rng.integers(0, n - 1)); j = int(rng.integers(i + 1, n))
            q = rng.standard_normal((1, 1, 4))
            B[:, j:j + 1] = omul(B[:, i:i + 1], q)
        elif mode == 2:                                            # an exactly zero column
            B[:, int(rng.integers(0, n))] = 0.0
        elif mode == 3 and n >= 2:                                 # generic product of rank n - 1
            B = omul(rng.standard_normal((m, n - 1, 4)), rng.standard_normal((n - 1, n, 4)))
        A = B * 10.0 ** rng.integers(-2, 3)
        sv = list(osvals(A))
        rank = int(np.sum(np.array(sv) > 1e-10 * max(sv[0], 1e-300))) if sv and sv[0] > 0 else 0
        sv_clean = [v if k < rank else 0.0 for k, v in enumerate(sv)]
        detail = {"kind": "tall-skinny", "shape": [m, n], "rank": rank, "mode": mode, "A": A.tolist()}
        Aq = q_from_float(A)
        for R in range(1, n + 1):
            Uq, s_, Vq = Q.classical_qsvd(Aq.copy(), R)
            c2 = "degenerate-null-space" if (R - rank) >= 2 else "simple-spectrum"
            ey = sum(v * v for v in sv_clean[R:])
            measure(rec, "classical_qsvd", c2, dict(detail, R=R), A, q_to_float(Uq), np.asarray(s_), q_to_float(Vq), sv_clean, ey, R, False)
    return rec.events, rec.info


def run(ctx, replay=None):
    lib()
    thorough = ctx.tier == "thorough"
    ctx.assumptions += [
        "exact family: A = U diag(s) V^H with integer s and exactly unitary dyadic U, V, so singular values / rank / Eckart-Young optimum are known exactly (TLC computes them)",
        "bounds: 1024 units of 2^-52*s_max*size for orthonormality, values, reconstruction; 16384 for the Eckart-Young error; errors below are invisible",
        "singular vectors are not unique: nothing about U, V beyond the contract is compared",
    ]
    cl = S.classes(ctx, thorough)
    cl = [c for c in cl if c["kind"] == "svd"]
    ctx.exhaustive = True
    jobs = [(c, ctx.seed) for c in cl]
    recs = par.pmap(_class_job, jobs)
    nrand = 48 if thorough else 8
    recs += par.pmap(_rand_job, [(ctx.seed * 5003 + i, 12) for i in range(nrand)], chunk=1)
    recs += par.pmap(_tall_job, [(ctx.seed * 7001 + i, 20) for i in range(8 if thorough else 2)], chunk=1)
    recs += par.pmap(_graded_job, [(ctx.seed * 13 + i, thorough) for i in range(3 if thorough else 1)], chunk=1)
    events, info = S.merge(recs)
    S.judge(ctx, events, info)
    pats = {}
    for c in cl:
        pats.setdefault((c["m"], c["n"]), set()).add(str(c["s"]))
    ctx.notes["multiplicity_patterns_per_shape"] = {"%dx%d" % k: len(v) for k, v in sorted(pats.items())}
    mid = cl[len(cl) // 2]
    ctx.sample({"direction": "F", "class": {k: mid[k] for k in ("kind", "m", "n", "s", "ui", "vi")}, "expected": mid["out"]})
    ctx.sample({"direction": "B", "event": events[3]})
    return "model_checking"
