"""C01 - Hamilton product in every storage format; conjugate transpose; Frobenius norm.

F: every state of Algebra.tla (operands + expected result computed by TLC) is
   replayed through every storage path of the real code; exact comparison.
B: random integer operands are pushed through every path; the recorded results
   are re-computed by TLC (AlgebraTrace.tla).  Random float operands: deviation
   from the independent oracle in units, bounded by the trace spec.
"""
import numpy as np
import quaternion
from scipy import sparse

from .. import par
from ..qlib import (lib, q_from_float, q_to_float, to_int_lists, omul, oherm, ofro, units)

CFG = """CONSTANTS MaxDim = %d
 Exps <- %s
SPECIFICATION Spec
INVARIANTS HermInvolution HermReverses FroHermInv FroSubMult FroUnitaryInv ShapeOK
CHECK_DEADLOCK FALSE
"""
TCFG = """CONSTANTS UnitsBound = 64
INIT TInit
NEXT TNext
INVARIANT Report
CHECK_DEADLOCK FALSE
"""

PATHS = ["dd", "sd", "ds", "ss", "comp", "compS", "compDS", "compSD", "ds.method", "sd.operator", "ss.operator"]


def _sp(F):
    L = lib()
    from ..qlib import sp_quat
    return sp_quat(F)            # storage variants cycle (CSR / CSC / COO / duplicate slots / explicit zeros / unsorted / narrow dtype)


def _sp_dense(S):
    return np.stack([S.real.toarray(), S.i.toarray(), S.j.toarray(), S.k.toarray()], axis=-1)


def product(path, FA, FB):
    """Run one storage path of the real code on float arrays (m,k,4),(k,n,4);
    return (float array (m,n,4), shape reported by container)."""
    L = lib()
    u = L.utils
    FA = FA.copy()
    FB = FB.copy()
    if path == "dd":
        C = u.quat_matmat(q_from_float(FA), q_from_float(FB))
        return q_to_float(C), C.shape
    if path == "sd":
        C = u.quat_matmat(_sp(FA), q_from_float(FB))
        return q_to_float(C), C.shape
    if path == "ds":
        C = u.quat_matmat(q_from_float(FA), _sp(FB))
        return _sp_dense(C), tuple(C.shape)
    if path == "ss":
        C = u.quat_matmat(_sp(FA), _sp(FB))
        return _sp_dense(C), tuple(C.shape)
    if path == "ds.method":      # dense x sparse through the container's own method
        C = _sp(FB).left_multiply(q_from_float(FA))
        return (_sp_dense(C) if hasattr(C, "real") and hasattr(C, "k") else q_to_float(np.asarray(C))), tuple(C.shape)
    if path == "sd.operator":    # the container's @ operator
        C = _sp(FA) @ q_from_float(FB)
        return q_to_float(np.asarray(C)), C.shape
    if path == "ss.operator":
        C = _sp(FA) @ _sp(FB)
        return _sp_dense(C), tuple(C.shape)
    if path == "comp":
        C = u.timesQsparse(*[np.ascontiguousarray(FA[..., c]) for c in range(4)],
                           *[np.ascontiguousarray(FB[..., c]) for c in range(4)])
        C = np.stack([np.asarray(x) for x in C], axis=-1)
        return C, C.shape[:2]
    if path == "compS":
        C = u.timesQsparse(*[sparse.csr_matrix(FA[..., c]) for c in range(4)],
                           *[sparse.csr_matrix(FB[..., c]) for c in range(4)])
        C = np.stack([np.asarray(x) for x in C], axis=-1)
        return C, C.shape[:2]
    if path in ("compDS", "compSD"):
        a = [np.ascontiguousarray(FA[..., c]) for c in range(4)]
        b = [np.ascontiguousarray(FB[..., c]) for c in range(4)]
        if path == "compDS":
            b = [sparse.csr_matrix(x) for x in b]
        else:
            a = [sparse.csr_matrix(x) for x in a]
        C = np.stack([np.asarray(x) for x in u.timesQsparse(*a, *b)], axis=-1)
        return C, C.shape[:2]
    if path == "compInt":        # component planes stored with an integer dtype (values are integers)
        a = [np.ascontiguousarray(FA[..., c]).astype(np.int64) for c in range(4)]
        b = [np.ascontiguousarray(FB[..., c]) for c in range(4)]
        b[0] = b[0].astype(np.int64)
        C = np.stack([np.asarray(x, dtype=np.float64) for x in u.timesQsparse(*a, *b)], axis=-1)
        return C, C.shape[:2]
    if path == "ssInt":          # sparse planes with an integer dtype
        mk = lambda F: u.SparseQuaternionMatrix(*[sparse.csr_matrix(F[..., c].astype(np.int64)) for c in range(4)], F.shape[:2])
        C = u.quat_matmat(mk(FA), mk(FB))
        return _sp_dense(C).astype(np.float64), tuple(C.shape)
    raise KeyError(path)


def herm(fmt, FA):
    u = lib().utils
    if fmt == "dense":
        return q_to_float(u.quat_hermitian(q_from_float(FA.copy())))
    return _sp_dense(u.quat_hermitian(_sp(FA.copy())))


def fro_all(FA):
    """every Frobenius entry point on the same data -> dict name -> float"""
    u = lib().utils
    t = lib().tensor
    Aq = q_from_float(FA.copy())
    comps = [np.ascontiguousarray(FA[..., c]) for c in range(4)]
    out = {
        "quat_frobenius_norm.dense": u.quat_frobenius_norm(Aq),
        "quat_frobenius_norm.sparse": u.quat_frobenius_norm(_sp(FA)),
        "matrix_norm.None": u.matrix_norm(Aq, None),
        "matrix_norm.fro": u.matrix_norm(Aq, "fro"),
        "matrix_norm.F": u.matrix_norm(Aq, "F"),
        "normQ": u.normQ(Aq),
        # the four planes held as numpy.matrix objects (what .todense() returns) and, for small integers, as int16 arrays
        "normQsparse.numpy-matrix": u.normQsparse(*[np.asmatrix(c) for c in comps]),
        **({"normQsparse.int16": u.normQsparse(*[c.astype(np.int16) for c in comps])} if np.array_equal(np.rint(FA), FA) and np.all(np.abs(FA) < 2 ** 14) else {}),
        "normQsparse.dense": u.normQsparse(*comps),
        "normQsparse.sparse": u.normQsparse(*[sparse.csr_matrix(c) for c in comps]),
        "tensor_frobenius_norm": t.tensor_frobenius_norm(Aq.reshape(Aq.shape + (1,))),
    }
    return {k: float(v) for k, v in out.items()}


def _replay_state(st):
    """returns list of failures (function, clause, detail)"""
    A = np.array(st["A"], dtype=np.float64)
    B = np.array(st["B"], dtype=np.float64)
    ea, eb = st["ea"], st["eb"]
    FA = A * 2.0 ** ea
    FB = B * 2.0 ** eb
    expC = np.array(st["out"]["C"], dtype=np.float64) * 2.0 ** (ea + eb)
    fails = []
    n = 0
    for p in PATHS + (["compInt", "ssInt"] if ea == 0 and eb == 0 else []):
        try:
            C, shp = product(p, FA, FB)
            ok = C.shape == expC.shape and np.array_equal(C, expC) and tuple(shp) == expC.shape[:2]
            got = C.tolist() if not ok else None
        except Exception as e:  # a path that raises on in-domain operands
            ok = False
            got = "exception %r" % (e,)
        n += 1
        if not ok:
            fails.append(("product." + p, "ProductIsHamilton",
                          {"A": st["A"], "B": st["B"], "ea": ea, "eb": eb,
                           "expected": st["out"]["C"], "got": got}))
    # what a product returned stays what it was while the caller holds it: a second product of the same shape (other
    # values) through the same path must not write into the first result (shared output buffers)
    u0 = lib().utils
    raws = {"dd": lambda X, Y: u0.quat_matmat(q_from_float(X), q_from_float(Y)), "sd": lambda X, Y: u0.quat_matmat(_sp(X), q_from_float(Y)),
            "ds": lambda X, Y: u0.quat_matmat(q_from_float(X), _sp(Y)), "ss": lambda X, Y: u0.quat_matmat(_sp(X), _sp(Y)),
            "sd.operator": lambda X, Y: _sp(X) @ q_from_float(Y), "ss.operator": lambda X, Y: _sp(X) @ _sp(Y)}
    tof = lambda C_: _sp_dense(C_) if (hasattr(C_, "real") and hasattr(C_, "k") and not isinstance(C_, np.ndarray)) else q_to_float(np.asarray(C_))
    for pth, fr in raws.items():
        n += 1
        try:
            first = fr(FA.copy(), FB.copy())
            snap = tof(first).copy()
            fr(FA * 2.0 + 1.0, FB + 1.0)
            okr = np.array_equal(tof(first), snap) and np.array_equal(snap, expC)
            why = [bool(np.array_equal(tof(first), snap)), bool(np.array_equal(snap, expC))]
        except Exception as e:
            okr, why = False, repr(e)[:200]
        if not okr:
            fails.append(("product." + pth + ".retained", "ProductIsHamilton", {"A": st["A"], "B": st["B"], "ea": ea, "eb": eb, "result_held_across_a_second_product": True, "why": why}))
    # 1-D operands (a vector given as shape (k,) instead of (1,k) / (k,1)): the values are those of the row / column product
    u1 = lib().utils
    one_d = []
    if FA.shape[0] == 1:
        vq = quaternion.as_quat_array(FA[0].copy())
        one_d += [("d1.d", lambda: u1.quat_matmat(vq, q_from_float(FB)), expC[0]), ("d1.s", lambda: u1.quat_matmat(vq, _sp(FB)), expC[0])]
    if FB.shape[1] == 1:
        wq = quaternion.as_quat_array(FB[:, 0].copy())
        one_d += [("d.d1", lambda: u1.quat_matmat(q_from_float(FA), wq), expC[:, 0]), ("s.d1", lambda: u1.quat_matmat(_sp(FA), wq), expC[:, 0])]
    for name, got, want1 in one_d:
        n += 1
        try:
            G = got()
            G = _sp_dense(G) if (hasattr(G, "real") and hasattr(G, "k") and not isinstance(G, np.ndarray)) else q_to_float(np.asarray(G))
            okc = G.size == want1.size and np.array_equal(G.reshape(want1.shape), want1)
        except Exception as e:  # noqa
            okc = False
        if not okc:
            fails.append(("product." + name, "ProductIsHamilton", {"A": st["A"], "B": st["B"], "ea": ea, "eb": eb, "one_dimensional_operand": True}))
    # aliased operands: the SAME object as both factors (in-place shortcuts must not read what they overwrite)
    if FA.shape[0] == FA.shape[1]:
        want = omul(FA, FA)
        u_ = lib().utils
        Aq_ = q_from_float(FA.copy())
        Sp_ = _sp(FA.copy())
        comps_ = [np.ascontiguousarray(FA[..., c]).copy() for c in range(4)]
        for name, got in (("dd.alias", lambda: q_to_float(u_.quat_matmat(Aq_, Aq_))), ("ss.alias", lambda: _sp_dense(u_.quat_matmat(Sp_, Sp_))),
                          ("comp.alias", lambda: np.stack([np.asarray(x) for x in u_.timesQsparse(*comps_, *comps_)], axis=-1))):
            n += 1
            try:
                G = got()
                okc = G.shape == want.shape and np.array_equal(G, want)
            except Exception as e:  # noqa
                okc, G = False, None
            if not okc or not np.array_equal(q_to_float(Aq_), FA) or not np.array_equal(_sp_dense(Sp_), FA) or not all(np.array_equal(comps_[c], FA[..., c]) for c in range(4)):
                fails.append(("product." + name, "ProductIsHamilton", {"A": st["A"], "ea": ea, "aliased": True}))
    expAH = np.array(st["out"]["AH"], dtype=np.float64) * 2.0 ** ea
    for fmt in ("dense", "sparse"):
        H = herm(fmt, FA)
        n += 1
        if not np.array_equal(H, expAH):
            fails.append(("quat_hermitian." + fmt, "HermIsConjTranspose",
                          {"A": st["A"], "ea": ea, "got": H.tolist()}))
        # (AB)^H = B^H A^H through the code, same format
        HB = herm(fmt, FB)
        lhs = herm(fmt, product("dd", FA, FB)[0])
        rhs = product("dd", HB, H)[0]
        n += 1
        if not np.array_equal(lhs, rhs):
            fails.append(("quat_hermitian." + fmt, "HermReverses", {"A": st["A"], "B": st["B"]}))
    # the sparse container's own conjugate / transpose / real-scalar multiples (a real scalar c acts as c*I)
    spA = _sp(FA.copy())
    conjA = FA * [1.0, -1.0, -1.0, -1.0]
    for name, got, want in (("SparseQuaternionMatrix.conjugate", lambda: _sp_dense(spA.conjugate()), conjA),
                            ("SparseQuaternionMatrix.transpose", lambda: _sp_dense(spA.transpose()), np.transpose(FA, (1, 0, 2))),
                            ("SparseQuaternionMatrix.conjugate.transpose", lambda: _sp_dense(spA.conjugate().transpose()), expAH),
                            ("SparseQuaternionMatrix.__mul__(int)", lambda: _sp_dense(spA * 3), FA * 3),
                            ("SparseQuaternionMatrix.__mul__(float)", lambda: _sp_dense(spA * -0.5), FA * -0.5),
                            ("SparseQuaternionMatrix.__rmul__(np.float64)", lambda: _sp_dense(np.float64(4.0) * spA), FA * 4.0)):
        n += 1
        try:
            G = got()
            okc = G.shape == want.shape and np.array_equal(G, want)
            G = None if okc else G.tolist()
        except Exception as e:
            okc, G = False, "exception %r" % (e,)
        if not okc:
            fails.append((name, "ProductIsHamilton" if "mul" in name else "HermIsConjTranspose", {"A": st["A"], "ea": ea, "got": G}))
    if not np.array_equal(_sp_dense(spA), FA):
        fails.append(("SparseQuaternionMatrix", "OperandsUnchanged", {"A": st["A"], "ea": ea}))
    f2 = st["out"]["froA"]
    for name, v in fro_all(FA).items():
        n += 1
        v0 = v * 2.0 ** (-ea)
        if not (abs(v0 * v0 - f2) <= 1e-9 * max(1, f2)):
            fails.append((name, "FroIsRootSumSquares", {"A": st["A"], "ea": ea, "got": v, "expected_sq": f2}))
    # invariance under conjugate transpose and format identity, through the code
    u = lib().utils
    nA = u.quat_frobenius_norm(q_from_float(FA))
    nAH = u.quat_frobenius_norm(u.quat_hermitian(q_from_float(FA)))
    n += 1
    if nA != nAH:
        fails.append(("quat_frobenius_norm", "FroHermInv", {"A": st["A"], "ea": ea}))
    return n, fails


def _rand_int(rng, m, n, lo=-9, hi=9, density=1.0):
    F = rng.integers(lo, hi + 1, size=(m, n, 4)).astype(np.float64)
    if density < 1.0:
        F *= (rng.random((m, n, 1)) < density)
    return F


def _mono(rng, n):
    """random monomial unitary (permutation x Q8 units) as float array"""
    U = np.zeros((n, n, 4))
    perm = rng.permutation(n)
    for i in range(n):
        U[i, perm[i], rng.integers(0, 4)] = rng.choice([-1.0, 1.0])
    return U


def _b_events(args):
    seed, count, tid0 = args
    rng = np.random.default_rng(seed)
    ev = []
    fails = []
    for t in range(count):
        tid = tid0 + t
        m, k, n = (int(x) for x in rng.integers(1, 6, size=3))
        dens = [1.0, 0.5, 0.2][t % 3]
        FA = _rand_int(rng, m, k, density=dens)
        FB = _rand_int(rng, k, n, density=dens)
        p = PATHS[t % len(PATHS)]
        try:
            C, _ = product(p, FA, FB)
            Ci = to_int_lists(C)
        except Exception as e:
            Ci = None
            C = "exception %r" % (e,)
        if Ci is None:
            fails.append(("product." + p, "ProductIsHamilton",
                          {"A": FA.tolist(), "B": FB.tolist(), "got": str(C)}))
        else:
            ev.append({"tid": tid, "op": "mul", "path": p, "A": to_int_lists(FA),
                       "B": to_int_lists(FB), "C": Ci})
        if t % 4 == 0:
            fmt = ["dense", "sparse"][(t // 4) % 2]
            H = to_int_lists(herm(fmt, FA))
            ev.append({"tid": tid, "op": "herm", "fmt": fmt, "A": to_int_lists(FA), "H": H})
        if t % 4 == 1:
            fr = fro_all(FA)
            names = sorted(fr)
            nm = names[(t // 4) % len(names)]
            ev.append({"tid": tid, "op": "fro", "fn": nm, "A": to_int_lists(FA),
                       "n2": int(round(fr[nm] ** 2))})
            # all entry points agree to 2 ulp-units on the same data
            vals = list(fr.values())
            if max(vals) - min(vals) > 4 * 2.0 ** -52 * max(vals + [1e-300]):
                fails.append(("frobenius", "FroSameAcrossFormats", {"A": FA.tolist(), "got": fr}))
        if t % 4 == 2:
            # unitary invariance and sub-multiplicativity through the code, exact
            u = lib().utils
            U = _mono(rng, m)
            nUA = u.quat_frobenius_norm(u.quat_matmat(q_from_float(U), q_from_float(FA)))
            nA = u.quat_frobenius_norm(q_from_float(FA))
            if abs(nUA - nA) > 4 * 2.0 ** -52 * max(nA, 1e-300):
                fails.append(("quat_frobenius_norm", "FroUnitaryInv", {"A": FA.tolist(), "U": U.tolist()}))
            if isinstance(C, np.ndarray):
                nC = ofro(C)
                if nC > nA * ofro(FB) * (1 + 1e-12):
                    fails.append(("quat_frobenius_norm", "FroSubMult", {"A": FA.tolist(), "B": FB.tolist()}))
        if t % 4 == 3:
            # generic float operands incl. large/small magnitudes: paths vs oracle
            sc = 10.0 ** rng.integers(-8, 9)
            GA = rng.standard_normal((m, k, 4)) * sc
            GB = rng.standard_normal((k, n, 4))
            ref = omul(GA, GB)
            worst = 0
            for pp in PATHS:
                Cg, _ = product(pp, GA, GB)
                err = float(np.max(np.abs(Cg - ref))) if Cg.shape == ref.shape else float("inf")
                worst = max(worst, units(err, float(np.max(np.abs(GA)) * np.max(np.abs(GB))), 4 * k))
            ev.append({"tid": tid, "op": "funit", "units": worst})
    return ev, fails


def _chain_job(seed):
    """vectors held as 1-D arrays and products CHAINED through the library (the output of one product is the operand of
    the next, in every storage combination): values against the definition, and the shape a sparse result reports against
    the shape of its own planes -> (evaluations, [(fn, clause, detail), ...])"""
    from ..qlib import omul
    u = lib().utils
    rng = np.random.default_rng(seed)
    fails, n_ev = [], 0

    def dense_of(C):
        if hasattr(C, "real") and hasattr(C, "k") and not isinstance(C, np.ndarray):
            return _sp_dense(C), tuple(C.shape), tuple(C.real.shape)
        return q_to_float(np.asarray(C)), tuple(np.shape(C)), None
    for rep in range(6):
        k, n, p = (int(x) for x in rng.integers(1, 5, 3))
        x1 = rng.integers(-3, 4, (k, 4)).astype(float)                 # a 1-D vector of k quaternions
        FS = rng.integers(-3, 4, (k, n, 4)).astype(float)
        FB = rng.integers(-3, 4, (n, p, 4)).astype(float)
        want1 = omul(x1.reshape(1, k, 4), FS)                           # the row vector times S, as 1 x n
        want2 = omul(want1, FB)
        for left_fmt in ("dense-1d", "dense-1xk"):
            for s_fmt in ("sparse", "dense"):
                for b_fmt in ("dense", "sparse"):
                    xq = quaternion.as_quat_array(x1.copy()) if left_fmt == "dense-1d" else q_from_float(x1.reshape(1, k, 4).copy())
                    S_ = _sp(FS) if s_fmt == "sparse" else q_from_float(FS.copy())
                    B_ = _sp(FB) if b_fmt == "sparse" else q_from_float(FB.copy())
                    tag = {"left": left_fmt, "middle": s_fmt, "right": b_fmt, "k": k, "n": n, "p": p, "x": x1.tolist(), "S": FS.tolist(), "B": FB.tolist()}
                    R1 = u.quat_matmat(xq, S_)
                    d1, lab1, pl1 = dense_of(R1)
                    n_ev += 1
                    if d1.size != want1.size or not np.array_equal(d1.reshape(want1.shape), want1):
                        fails.append(("product.chain", "ProductIsHamilton", dict(tag, step="x S", got=d1.tolist(), want=want1.tolist())))
                        continue
                    if pl1 is not None and lab1 != pl1:
                        fails.append(("product.chain", "ProductShape", dict(tag, step="x S", reported_shape=list(lab1), shape_of_planes=list(pl1))))
                    R2 = u.quat_matmat(R1, B_)
                    d2, lab2, pl2 = dense_of(R2)
                    n_ev += 1
                    if d2.size != want2.size or not np.array_equal(d2.reshape(want2.shape), want2):
                        fails.append(("product.chain", "ProductIsHamilton", dict(tag, step="(x S) B", got_shape=list(d2.shape), got=d2.tolist(), want=want2.tolist())))
                    elif pl2 is not None and lab2 != pl2:
                        fails.append(("product.chain", "ProductShape", dict(tag, step="(x S) B", reported_shape=list(lab2), shape_of_planes=list(pl2))))
                    # ... and through the Hermitian transpose of the intermediate result: ((x S)^H)^H B
                    R3 = u.quat_matmat(u.quat_hermitian(u.quat_hermitian(R1)), B_) if np.ndim(R1) == 2 or pl1 is not None else None
                    if R3 is not None:
                        d3 = dense_of(R3)[0]
                        n_ev += 1
                        if d3.size != want2.size or not np.array_equal(d3.reshape(want2.shape), want2):
                            fails.append(("product.chain", "ProductIsHamilton", dict(tag, step="((x S)^H)^H B", got_shape=list(d3.shape), want=want2.tolist())))
    return n_ev, fails


def run(ctx, replay=None):
    lib()
    thorough = ctx.tier == "thorough"
    ctx.assumptions += [
        "numpy-quaternion dtype conversions (as_float_array/as_quat_array) are trusted",
        "a product routine is bilinear in its operands (it is built from matrix products and sums), so its values on all pairs of single-entry basis matrices of a shape determine it on that shape",
        "float operands: agreement with the oracle is bounded at 64 units of 2^-52*max|A|*max|B|*4k; errors below that are not seen",
    ]
    # lemmas about the specification's own arithmetic
    ctx.model("QuatLemmas", "CONSTANT R = %d\nINIT Init\nNEXT Next\n" % (2 if thorough else 1), timeout=600)
    # ---------------- F: TLC states -> code
    md = 3 if thorough else 2
    res = ctx.model("Algebra", CFG % (md, "ExpsT" if thorough else "ExpsQ"), dump=True, coverage=False)
    done = [s for s in res["states"] if s["phase"] == "done"]
    ctx.exhaustive = True
    outs = par.pmap(_replay_state, done)
    for st, (n, fails) in zip(done, outs):
        ctx.replays += n
        ctx.case(("F", st["kind"], str(st["A"]), str(st["B"]), st["ea"], st["eb"]))
        for fn, clause, detail in fails:
            ctx.fail(fn, clause, st["kind"], detail)
    for c in ("ProductIsHamilton", "HermIsConjTranspose", "FroIsRootSumSquares"):
        ctx.count(c, len(done))
    ctx.sample({"direction": "F", "state": {k: done[len(done) // 2][k] for k in ("kind", "A", "B", "ea", "eb")},
                "expected_C": done[len(done) // 2]["out"]["C"]})
    # ---------------- chained products, vectors held as 1-D arrays
    for n_ev, fails in par.pmap(_chain_job, [ctx.seed * 77 + i for i in range(32 if thorough else 8)], chunk=1):
        ctx.replays += n_ev
        for fn, clause, detail in fails:
            ctx.fail(fn, clause, "chained:%s.%s.%s" % (detail["left"], detail["middle"], detail["right"]), detail)
    ctx.count("ProductShape", 1)
    # ---------------- B: code -> TLC
    total = 30000 if thorough else 3000
    chunks = 16
    per = total // chunks
    jobs = [(ctx.seed * 1000 + c, per, c * per) for c in range(chunks)]
    events = []
    for ev, fails in par.pmap(_b_events, jobs, chunk=1):
        events += ev
        for fn, clause, detail in fails:
            ctx.fail(fn, clause, "random", detail)
    bad = ctx.trace("AlgebraTrace", events, TCFG)
    byid = {}
    for e in events:
        byid.setdefault(e["tid"], []).append(e)
    opof = {"ProductIsHamilton": "mul", "ProductShape": "mul", "HermIsConjTranspose": "herm",
            "FroIsRootSumSquares": "fro", "PathsAgreeToRounding": "funit"}
    for tid, clause in bad:
        e = [x for x in byid[tid] if x["op"] == opof.get(clause, x["op"])][0]
        fn = ("product." + e["path"]) if e["op"] == "mul" else e.get("fn") or e.get("fmt") or "product.all-paths"
        ctx.fail(fn, clause, "random", e)
    for e in events:
        ctx.case(("B", e["tid"], e["op"]))
    ctx.sample({"direction": "B", "event": events[0]})
    ctx.sample({"direction": "B", "event": [e for e in events if e["op"] == "funit"][0]})
    return "model_checking"
