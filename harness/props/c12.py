"""C12 - randomized Q-SVDs: orthonormal factors, interlacing values, exact on low rank.

M  (RandSVD.tla): shape-and-rank dataflow of rand_qsvd and pass_eff_qsvd; TLC
   explores ALL (m, n <= 6, R, oversample 0..10, power iterations 0..3, passes
   2..5, rank) tuples: every step conformable, final shapes, range captured.
F  the terminal states of a small instance of M (dumped) and further parameter
   cells are run on exact inputs A = U diag(s) V^H (all ranks, known sigma_i)
   under seeded global RNG; MeasureTrace.tla judges shapes, orthonormality,
   ordering, interlacing s_i <= sigma_i, error between the Eckart-Young optimum
   and ||A||_F, exactness when rank(A) <= R - for every seed.
"""
import contextlib
import io
import math

import numpy as np

from .. import par
from .. import exactfam as E
from .. import spectral as S
from ..qlib import lib, q_from_float, q_to_float, omul, oherm, ofro, units, lg, EPS

_BUF = {}      # per shape: the caller's pre-allocated array (see the job)

MBIG = """CONSTANTS MaxDim = %d
 MaxP = 10
 MaxIter = 3
 MaxPass = 5
SPECIFICATION Spec
INVARIANTS Conformable FinalShapes RangeCaptured
CHECK_DEADLOCK FALSE
"""
MSMALL = """CONSTANTS MaxDim = 3
 MaxP = 1
 MaxIter = 1
 MaxPass = 3
SPECIFICATION Spec
INVARIANTS Conformable FinalShapes RangeCaptured
CHECK_DEADLOCK FALSE
"""
# the last pattern of ranks 2..4 is GRADED (spread retained values): power iterations without re-orthonormalisation lose them
SVALS = {0: [], 1: [[3.0]], 2: [[5.0, 2.0], [4.0, 4.0], [8.0, 2.0 ** -7]], 3: [[5.0, 3.0, 1.0], [5.0, 5.0, 2.0], [8.0, 2.0 ** -7, 2.0 ** -14]],
         4: [[8.0, 4.0, 2.0, 1.0], [8.0, 2.0 ** -5, 2.0 ** -10, 2.0 ** -15]],
         5: [[9.0, 6.0, 4.0, 2.0, 1.0]], 6: [[9.0, 7.0, 5.0, 3.0, 2.0, 1.0]]}


def _cell(args):
    tid0, alg, m, n, R, P, q, rk, seeds = args
    Q = lib().qsvd
    rec = S.Rec()
    k = min(m, n)
    for si, sv in enumerate(SVALS[rk] or [[]]):
        s = list(sv) + [0.0] * (k - rk)
        U = E.ulib(m)[(3 + si + m) % len(E.ulib(m))][1]
        V = E.ulib(n)[(4 + si + n) % len(E.ulib(n))][1]
        sc = 2.0 ** ((0, -40, 30, -20)[(tid0 // 7 + si + m + n) % 4])     # exact power-of-two scaling of the whole matrix
        s = [x * sc for x in s]
        A = E.usv(U, s, V)
        fro = math.sqrt(sum(x * x for x in s))
        head = [x for x in s[:R] if x != 0]
        # the range finder applies qr_qua to an m x (R+P) sketch of rank min(rk, ...): rank deficient as soon as
        # the sketch is wider than rank(A) (C06 finding); repeated singular values hit the contraction (C05 finding)
        repeated = len(set(x for x in s if x != 0)) < rk
        degenerate = repeated or rk < min(m, R + P)
        # two recorded classes, as narrow as the defects: repeated singular values (contraction finding: orthonormality AND
        # exactness are lost) and a sketch wider than rank(A) with simple values (orthonormality is lost in ~2 % of the draws,
        # exactness never - it is judged strictly there)
        cls = "repeated-values" if repeated else ("rank-deficient-sketch" if degenerate else "full-rank-sketch-simple-spectrum")
        nzs = [x for x in s if x != 0]
        cond_s = (max(nzs) / min(nzs)) if nzs else 1.0
        if not degenerate and cond_s >= 2.0 ** 10:
            cls = "graded-spectrum"             # recorded finding (C06): orthonormality of the range basis degrades like eps * cond
        ey = math.sqrt(sum(x * x for x in s[R:]))
        for seed in seeds:
            np.random.seed(seed)
            detail = {"alg": alg, "shape": [m, n], "R": R, "oversample": P, "iters_or_passes": q, "rank": rk, "s": s, "seed": seed, "scale": sc}
            t = rec.new("rand_qsvd" if alg == "rand" else "pass_eff_qsvd", cls, detail)
            Aq = q_from_float(A)
            if tid0 % 2 == 0:
                # (every call of this job, back to back: a single-slot memo is refreshed by any other object in between)
                # the caller streams successive problems through ONE pre-allocated array (same object, new contents):
                # nothing remembered about an earlier content of that object may be used
                buf = _BUF.setdefault((m, n), np.zeros((m, n), dtype=np.quaternion))
                buf[...] = Aq
                Aq = buf
            with contextlib.redirect_stdout(io.StringIO()):
                if alg == "rand":
                    Uq, sq, Vq = Q.rand_qsvd(Aq, R, oversample=P, n_iter=q)
                else:
                    Uq, sq, Vq = Q.pass_eff_qsvd(Aq, R, oversample=P, n_passes=q)
            Uf, Vf, sf = q_to_float(np.asarray(Uq)), q_to_float(np.asarray(Vq)), np.asarray(sq, dtype=float)
            rec.eqint(t, "Shapes", [list(Uf.shape[:2]), list(Vf.shape[:2]), int(sf.shape[0])], [[m, R], [n, R], R])
            if [list(Uf.shape[:2]), list(Vf.shape[:2]), int(sf.shape[0])] != [[m, R], [n, R], R]:
                continue
            fin = bool(np.all(np.isfinite(Uf)) and np.all(np.isfinite(Vf)) and np.all(np.isfinite(sf)))
            rec.flag(t, "Finite", fin)
            if not fin:
                continue
            top = max(s[0] if s else 0.0, 1e-300)
            rec.units(t, "OrthonormalU", S.ortho_units(Uf))
            rec.units(t, "OrthonormalV", S.ortho_units(Vf))
            if cls == "graded-spectrum":
                # the weaker clauses stay armed inside the recorded class: loss bounded by eps * cond, not eps * cond^2
                for nm, M in (("OrthonormalUUpToConditioning", Uf), ("OrthonormalVUpToConditioning", Vf)):
                    G = omul(oherm(M), M)
                    for i_ in range(M.shape[1]):
                        G[i_, i_, 0] -= 1.0
                    rec.lgle(t, nm, float(np.max(np.abs(G))), 2.0 ** -52 * cond_s * 4 * max(m, n), 6 * 64)
            rec.flag(t, "ValuesSortedNonNegative", bool(np.all(sf >= -64 * EPS * top) and np.all(np.diff(sf) <= 64 * EPS * top)))
            # interlacing s_i <= sigma_i
            exc = max([sf[i] - s[i] for i in range(R)] + [0.0])
            rec.units(t, "InterlacingBelowTrueValues", units(exc, top, 16 * max(m, n)))
            D = np.zeros((R, R, 4))
            for i in range(R):
                D[i, i, 0] = sf[i]
            err = ofro(A - omul(omul(Uf, D), oherm(Vf)))
            rec.units(t, "ErrorAtLeastEckartYoung", units(max(0.0, ey - err), max(fro, 1e-300), 16 * max(m, n)), loose=True)
            rec.units(t, "ErrorAtMostNormA", units(max(0.0, err - fro), max(fro, 1e-300), 16 * max(m, n)), loose=True)
            if rk <= R:
                rec.units(t, "ExactWhenRankLeR", units(err, max(fro, 1e-300), 64 * max(m, n) * max(m, n)), loose=True)
    return rec.events, rec.info


def run(ctx, replay=None):
    lib()
    ctx.notes["reflectors_certified_by_TLC"] = E.check_against_tlc(ctx)
    thorough = ctx.tier == "thorough"
    ctx.assumptions += [
        "exact inputs A = U diag(s) V^H with known singular values; every clause is a deterministic consequence of the algorithm and must hold for every draw of the global generator (seeds listed in the evidence)",
        "bounds: 1024 units (orthonormality, interlacing), 16384 units (error bounds, exactness)",
    ]
    ctx.model("RandSVD", MBIG % (6 if thorough else 5), timeout=1500)
    res = ctx.model("RandSVD", MSMALL, dump=True)
    done = [s for s in res["states"] if s["pc"] == "done"]
    seeds = list(range(1, 13)) if thorough else [1, 2, 3]
    jobs = []
    tid = 0
    seen = set()
    for st in done:
        key = (st["alg"], st["m"], st["n"], st["R"], st["P"], st["q"], st["rk"])
        if key in seen:
            continue
        seen.add(key)
        tid += 7
        jobs.append((tid, st["alg"], st["m"], st["n"], st["R"], st["P"], st["q"], st["rk"], [ctx.seed * 100 + s for s in seeds]))
    # further cells: sketches wider than the matrix, larger shapes, more power iterations / passes
    rng = np.random.default_rng(ctx.seed + 5)
    extra = 400 if thorough else 60
    for _ in range(extra):
        m, n = int(rng.integers(1, 7)), int(rng.integers(1, 7))
        R = int(rng.integers(1, min(m, n) + 1))
        P = int(rng.choice([0, 1, 2, 5, 10]))
        alg = str(rng.choice(["rand", "pass"]))
        q = int(rng.integers(0, 4)) if alg == "rand" else int(rng.integers(2, 6))
        rk = int(rng.integers(0, min(m, n) + 1))
        key = (alg, m, n, R, P, q, rk)
        if key in seen:
            continue
        seen.add(key)
        tid += 7
        jobs.append((tid, alg, m, n, R, P, q, rk, [ctx.seed * 100 + s for s in seeds]))
    # every power-iteration / pass count on low-rank inputs with graded retained values (the default n_iter = 2 included)
    for (m_, n_) in ((5, 4), (4, 6), (6, 6)):
        for rk_ in (2, 3, 4):
            for P_ in (2, 10):
                for alg_, qs in (("rand", (0, 1, 2, 3, 4)), ("pass", (2, 3, 4, 5))):
                    for q_ in qs:
                        key = (alg_, m_, n_, rk_, P_, q_, rk_)
                        if key in seen:
                            continue
                        seen.add(key)
                        tid += 7
                        jobs.append((tid, alg_, m_, n_, rk_, P_, q_, rk_, [ctx.seed * 100 + s_ for s_ in seeds[:2]]))
    # wide inputs with a sketch wider than the number of ROWS (m < min(n, R + P)): the power iteration's left factor is not
    # tall and goes through the routine's full-QR-and-slice branch
    for (m_, n_, R_) in ((3, 6, 2), (2, 5, 1), (3, 7, 3)):
        for P_ in (5, 10):
            for q_ in (1, 2, 3):
                for rk_ in (R_, min(m_, n_)):
                    key = ("rand", m_, n_, R_, P_, q_, rk_)
                    if key in seen:
                        continue
                    seen.add(key)
                    tid += 7
                    jobs.append((tid, "rand", m_, n_, R_, P_, q_, rk_, [ctx.seed * 100 + s_ for s_ in seeds[:2]]))
    recs = par.pmap(_cell, jobs)
    events, info = S.merge(recs)
    S.judge(ctx, events, info)
    ctx.notes["parameter_cells_replayed"] = len(jobs)
    ctx.notes["seeds_per_cell"] = len(seeds)
    ctx.sample({"direction": "F", "cell": dict(zip(("alg", "m", "n", "R", "P", "q", "rank"), jobs[3][1:8]))})
    ctx.sample({"direction": "B", "event": events[5], "context": info[events[5]["tid"]][2]})
    return "model_checking"
