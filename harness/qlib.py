"""Load the library under test from VERIF_REPO (default /repo) in the
flat-module style of the repository's own tests, plus exact conversions and an
independent oracle arithmetic (numpy only; nothing below calls the library)."""
import hashlib
import importlib
import math
import os
import sys
import types

import numpy as np
import quaternion  # numpy-quaternion (third-party dtype; trusted base)

REPO = os.environ.get("VERIF_REPO", "/repo")

_L = None


def lib():
    """Namespace with the library's modules (flat import style)."""
    global _L
    if _L is not None:
        return _L
    sys.dont_write_bytecode = True
    qdir = os.path.join(REPO, "quatica")
    if qdir not in sys.path:
        sys.path.insert(0, qdir)
    # the library also imports itself as a package in places (`from quatica.decomp.qsvd import qr_qua`);
    # make that resolve to the tree under test, not to the editable install of /repo
    if REPO not in sys.path:
        sys.path.insert(1, REPO)
    os.environ.setdefault("MPLBACKEND", "Agg")
    ns = types.SimpleNamespace()
    if os.environ.get("VERIF_IMPORT_STYLE") == "package":
        # the documented way for installed users: `from quatica.solver import ...` (the second interpreter of
        # harness/altinterp.py runs every check like this; the tests of the repository use the flat style)
        sys.path.remove(qdir)
        sys.path.insert(0, REPO)
        pk = importlib.import_module("quatica")
        if not os.path.realpath(pk.__file__).startswith(os.path.realpath(REPO) + os.sep):
            raise ImportError("package import resolved to %s, not to the tree under test" % pk.__file__)
        for nm, path in (("utils", "quatica.utils"), ("solver", "quatica.solver"), ("tensor", "quatica.tensor"), ("qslst", "quatica.qslst"),
                         ("data_gen", "quatica.data_gen"), ("LU", "quatica.decomp.LU"), ("qsvd", "quatica.decomp.qsvd"), ("eigen", "quatica.decomp.eigen"),
                         ("tridiag", "quatica.decomp.tridiagonalize"), ("hess", "quatica.decomp.hessenberg"), ("schur", "quatica.decomp.schur")):
            setattr(ns, nm, importlib.import_module(path))
        _L = ns
        return ns
    ns.utils = importlib.import_module("utils")
    ns.solver = importlib.import_module("solver")
    ns.tensor = importlib.import_module("tensor")
    ns.qslst = importlib.import_module("qslst")
    ns.data_gen = importlib.import_module("data_gen")
    ns.LU = importlib.import_module("decomp.LU")
    ns.qsvd = importlib.import_module("decomp.qsvd")
    ns.eigen = importlib.import_module("decomp.eigen")
    ns.tridiag = importlib.import_module("decomp.tridiagonalize")
    ns.hess = importlib.import_module("decomp.hessenberg")
    ns.schur = importlib.import_module("decomp.schur")
    _L = ns
    return ns


# ----------------------------------------------------------------- exact
def q_from_int(M, scale=1.0):
    """nested lists [[ [w,x,y,z], ...], ...] -> numpy quaternion matrix."""
    a = np.array(M, dtype=np.float64)
    if a.ndim == 2 and a.shape[-1] == 4 and len(M) and not isinstance(M[0][0], (list, tuple)):
        raise ValueError("ambiguous")
    a = a.reshape(len(M), -1, 4) * scale
    return quaternion.as_quat_array(a.copy())


def q_to_float(A):
    """quaternion ndarray -> float array (..., 4) (copy)."""
    return np.array(quaternion.as_float_array(A), dtype=np.float64)


# Cycling choices (memory layout, sparse storage variant, option carrier, ...) are driven by per-process counters.  The
# fork pool hands jobs to whichever worker is free, so a counter's value at the start of a job would depend on scheduling
# and a verdict at a rounding threshold would not be reproducible from the seed (DESIGN 10.5, soak 14).  par._call
# therefore sets every registered counter from a checksum of the job's arguments before the job runs.
PHASE_COUNTERS = []


def register_counter(c):
    PHASE_COUNTERS.append(c)
    return c


def set_phase(args):
    import zlib
    h = zlib.crc32(repr(args).encode("utf-8", "replace"))
    for i, c in enumerate(PHASE_COUNTERS):
        c[0] = (h >> (3 * i)) % 120


_LAYOUT_COUNTER = register_counter([0])


def q_from_float(F):
    """float (..., 4) -> quaternion array (a fresh copy).  For matrices the MEMORY LAYOUT of the result cycles
    deterministically through C order, Fortran order, a transposed view (the layout the library's own
    quat_hermitian returns) a READ-ONLY C-ordered array and a view with negative strides: every routine's result must depend on the values of its arguments only, so every check
    exercises layout independence for free (VERIF_LAYOUTS=0 switches the cycling off)."""
    q = quaternion.as_quat_array(np.ascontiguousarray(F, dtype=np.float64).copy())
    if q.ndim == 2 and min(q.shape) >= 2 and os.environ.get("VERIF_LAYOUTS", "1") != "0":
        _LAYOUT_COUNTER[0] += 1
        k = _LAYOUT_COUNTER[0] % 5
        if k == 1:
            q = np.asfortranarray(q)
            if (_LAYOUT_COUNTER[0] // 5) % 2 and os.environ.get("VERIF_READONLY", "1") != "0":
                q.flags.writeable = False          # (a column-major working "copy" that is the argument itself shows at once)
        elif k == 2:
            q = np.ascontiguousarray(q.T).T
        elif k == 4:
            q = np.ascontiguousarray(q[::-1, ::-1])[::-1, ::-1]      # negative strides on both axes (a reversed view of reversed data)
        elif k == 3 and os.environ.get("VERIF_READONLY", "1") != "0":
            q.flags.writeable = False          # a READ-ONLY argument (memory-mapped data, np.broadcast_to): a routine never needs to write into it
    return q


_SPARSE_COUNTER = register_counter([0])
SPARSE_VARIANTS = ("csr", "csc", "duplicate-slots", "explicit-zeros", "unsorted-indices", "narrow-dtype", "coo", "shared-plane-objects")


def sp_plane(P, variant):
    """one real plane as a scipy sparse matrix in the given STORAGE variant; every variant represents exactly P"""
    from scipy import sparse
    P = np.asarray(P, dtype=np.float64)
    m, n = P.shape
    if variant == "csc":
        return sparse.csc_matrix(P)
    if variant == "coo":
        return sparse.coo_matrix(P)
    if variant == "narrow-dtype":
        if np.array_equal(np.rint(P), P) and np.all(np.abs(P) < 2 ** 15):      # larger integers: squares and products overflow int64 silently, like any numpy integer arithmetic (outside the claim)
            return sparse.csr_matrix(P.astype(np.int64))
        # (float32 planes are not used here: arithmetic on float32 data is single precision by numpy's own rules, and the
        # double-precision bounds of the checks would call that a violation)
        return sparse.csr_matrix(P)
    if variant in ("duplicate-slots", "explicit-zeros", "unsorted-indices"):
        data, idx, ptr = [], [], [0]
        for i in range(m):
            cols = [j for j in range(n) if P[i, j] != 0 or (variant == "explicit-zeros" and (i + j) % 3 == 0)]
            if variant == "unsorted-indices":
                cols = cols[::-1]
            for j in cols:
                if variant == "duplicate-slots" and P[i, j] != 0 and abs(P[i, j]) > 1e-290:
                    data += [P[i, j] / 2, P[i, j] / 2]              # two stored slots for one entry: scipy defines them as summed
                    idx += [j, j]
                else:
                    data.append(P[i, j])
                    idx.append(j)
            ptr.append(len(data))
        M = sparse.csr_matrix((np.array(data, dtype=np.float64), np.array(idx, dtype=np.int32), np.array(ptr, dtype=np.int32)), shape=(m, n))
        return M
    return sparse.csr_matrix(P)


def sp_quat(F, variant=None):
    """float (m, n, 4) -> SparseQuaternionMatrix of the library under test.  Like the memory layout of dense arrays
    (q_from_float), the STORAGE of the four planes cycles deterministically through formats that all represent exactly
    the same matrix: CSR, CSC, COO, CSR with duplicate slots (summed by definition), with explicitly stored zeros, with
    unsorted column indices, and with int64 planes when the values are small integers (VERIF_SPARSE_VARIANTS=0: always CSR)."""
    if variant is None:
        if os.environ.get("VERIF_SPARSE_VARIANTS", "1") == "0":
            variant = "csr"
        else:
            _SPARSE_COUNTER[0] += 1
            variant = SPARSE_VARIANTS[_SPARSE_COUNTER[0] % len(SPARSE_VARIANTS)]
    F = np.asarray(F, dtype=np.float64)
    if variant == "shared-plane-objects":
        # planes with equal values are ONE scipy object passed several times (a shared zero plane, a shared pattern)
        objs, planes = {}, []
        for c in range(4):
            key = F[..., c].tobytes()
            if key not in objs:
                objs[key] = sp_plane(F[..., c], "csr")
            planes.append(objs[key])
        return lib().utils.SparseQuaternionMatrix(*planes, F.shape[:2])
    return lib().utils.SparseQuaternionMatrix(*[sp_plane(F[..., c], variant) for c in range(4)], F.shape[:2])


_FLAYOUT_COUNTER = register_counter([0])


def f_layout(a, byteorder_only=False):
    """a float array (an image, a kernel, a real plane) with the same values in a MEMORY LAYOUT that cycles through C order,
    Fortran order, a transposed-axes view, a read-only array, a negative-stride view and a non-native byte order - like q_from_float does for
    quaternion matrices (VERIF_LAYOUTS=0 switches the cycling off)"""
    a = np.array(a, dtype=np.float64, copy=True)
    if a.ndim < 2 or os.environ.get("VERIF_LAYOUTS", "1") == "0":
        return a
    if byteorder_only:
        _FLAYOUT_COUNTER[0] += 1
        return a.astype(">f8") if _FLAYOUT_COUNTER[0] % 3 == 0 else (np.asfortranarray(a) if _FLAYOUT_COUNTER[0] % 3 == 1 else a)
    _FLAYOUT_COUNTER[0] += 1
    k = _FLAYOUT_COUNTER[0] % 6
    if k == 5:
        return a.astype(">f8")                 # non-native byte order (data read from big-endian storage): same values
    if k == 1:
        return np.asfortranarray(a)
    if k == 2:
        axes = (1, 0) + tuple(range(2, a.ndim))
        return np.ascontiguousarray(a.transpose(axes)).transpose(axes)          # (W, H, ...) data viewed as (H, W, ...)
    if k == 3:
        a.flags.writeable = False
        return a
    if k == 4:
        return np.ascontiguousarray(a[::-1, ::-1])[::-1, ::-1]
    return a


# ------------------------------------------------------------ calling styles
_SIGS = None


def pinned_signature(fn):
    """[(name, default, kind), ...] of a library function as it was on the pinned tree (harness/signatures.json), or None"""
    global _SIGS
    if _SIGS is None:
        import json
        with open(os.path.join(os.path.dirname(os.path.abspath(__file__)), "signatures.json")) as fh:
            _SIGS = json.load(fh)
    key = "%s.%s" % (getattr(fn, "__module__", "?"), getattr(fn, "__qualname__", "?"))
    key = key[len("quatica."):] if key.startswith("quatica.") else key
    return _SIGS.get(key)


def as_pinned_positional(fn, a, kw):
    """the same call written by a user of the PINNED API who passes every parameter positionally, in the pinned order
    (explicit values where the call has them, pinned defaults elsewhere) -> (args, {}) or None.  A parameter inserted
    in front of existing ones misbinds such a call."""
    sig = pinned_signature(fn)
    if not sig or any(k not in ("POSITIONAL_OR_KEYWORD", "POSITIONAL_ONLY") for _, _, k in sig):
        return None
    names = [n for n, _, _ in sig]
    if any(k not in names for k in kw) or len(a) > len(names):
        return None
    out = []
    for i, (n, d, _) in enumerate(sig):
        if i < len(a):
            out.append(a[i])
        elif n in kw:
            out.append(kw[n])
        elif d in ("__required__", "__unrepresentable__"):
            return None
        else:
            out.append(d)
    return tuple(out), {}


def as_all_keyword(fn, a, kw):
    """the same call with every argument passed by its pinned name -> ((), kwargs) or None"""
    sig = pinned_signature(fn)
    if not sig or len(a) > len(sig) or any(k not in ("POSITIONAL_OR_KEYWORD",) for _, _, k in sig[:len(a)]):
        return None
    k2 = {sig[i][0]: v for i, v in enumerate(a)}
    if set(k2) & set(kw):
        return None
    k2.update(kw)
    return (), k2


_CARRIER = register_counter([0])


def numpy_carriers(a, kw, zero_d=False):
    """numeric OPTIONS held the numpy way: Python ints as numpy integers or 0-d arrays, floats as numpy floats or 0-d arrays,
    bools as numpy bools (matrices and solver objects are left alone) -> (args, kwargs)"""
    def conv(v):
        _CARRIER[0] += 1
        if isinstance(v, bool):
            return np.bool_(v)
        if isinstance(v, int):
            return np.array(v) if zero_d else (np.int64(v), np.int32(v))[_CARRIER[0] % 2]
        if isinstance(v, float) and math.isfinite(v):
            return np.array(v) if zero_d else np.float64(v)
        return v
    return tuple(conv(v) for v in a), {k: conv(v) for k, v in kw.items()}


def to_int_lists(F):
    """float array (m,n,4) with integer values -> nested int lists; None if not integral."""
    R = np.rint(F)
    if not np.all(np.isfinite(F)) or not np.array_equal(R, F):
        return None
    return [[[int(v) for v in R[i, j]] for j in range(F.shape[1])] for i in range(F.shape[0])]


def sha(*arrays):
    h = hashlib.sha256()
    for a in arrays:
        if a is None:
            h.update(b"None")
            continue
        if hasattr(a, "toarray"):
            a = a.toarray()
        a = np.asarray(a)
        if a.dtype == np.quaternion:
            a = quaternion.as_float_array(a)
        h.update(str(a.shape).encode())
        h.update(str(a.dtype).encode())
        h.update(np.ascontiguousarray(a).tobytes())
    return h.hexdigest()


# ---------------------------------------------------------------- oracle
# structure constants e_a e_b = sum_c T[a,b,c] e_c, from i^2=j^2=k^2=ijk=-1
_T = np.zeros((4, 4, 4))
for _a in range(4):
    _T[0, _a, _a] = 1.0
    _T[_a, 0, _a] = 1.0
for _a in (1, 2, 3):
    _T[_a, _a, 0] = -1.0
_T[1, 2, 3] = 1.0
_T[2, 1, 3] = -1.0   # ij = k, ji = -k
_T[2, 3, 1] = 1.0
_T[3, 2, 1] = -1.0   # jk = i, kj = -i
_T[3, 1, 2] = 1.0
_T[1, 3, 2] = -1.0   # ki = j, ik = -j


def omul(A, B):
    """Hamilton matrix product of float arrays (m,k,4) x (k,n,4) -> (m,n,4)."""
    return np.einsum("ika,kjb,abc->ijc", A, B, _T)


def oherm(A):
    H = np.transpose(A, (1, 0, 2)).copy()
    H[..., 1:] *= -1.0
    return H


def oeye(n):
    E = np.zeros((n, n, 4))
    for i in range(n):
        E[i, i, 0] = 1.0
    return E


def ofro(A):
    return float(np.sqrt(np.sum(np.asarray(A, dtype=np.float64) ** 2)))


def oadj(A):
    """complex adjoint of float array (m,n,4): [[C, D], [-conj D, conj C]]."""
    C = A[..., 0] + 1j * A[..., 1]
    D = A[..., 2] + 1j * A[..., 3]
    return np.block([[C, D], [-np.conj(D), np.conj(C)]])


def osvals(A):
    """quaternion singular values of float array (m,n,4), descending."""
    if A.shape[0] == 0 or A.shape[1] == 0:
        return np.zeros(0)
    s = np.linalg.svd(oadj(A), compute_uv=False)
    return s[0::2]


def opinv(A):
    """Moore-Penrose inverse through the complex adjoint."""
    m, n = A.shape[:2]
    P = np.linalg.pinv(oadj(A))
    # P is adjoint of n x m quaternion matrix
    C = P[:n, :m]
    D = P[:n, m:]
    out = np.zeros((n, m, 4))
    out[..., 0] = C.real
    out[..., 1] = C.imag
    out[..., 2] = D.real
    out[..., 3] = D.imag
    return out


EPS = 2.0 ** -52


def units(err, scale, size):
    """error in units of 2^-52 * scale * size, as an integer capped at 2^30."""
    if not math.isfinite(err):
        return 2 ** 30
    den = EPS * max(scale, 1e-300) * max(size, 1)
    u = err / den
    if u >= 2 ** 30:
        return 2 ** 30
    return int(math.ceil(u))


def lg(x):
    """round(64*log2 x); -100000 for zero; 100000 for inf/nan."""
    if x != x or x == float("inf"):
        return 100000
    if x <= 0:
        return -100000
    return int(round(64.0 * math.log2(x)))
