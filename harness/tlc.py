"""Run TLC / SANY and parse what they print.

Only the standard library is used.  TLC writes its scratch files into a
temporary metadir that is removed afterwards; nothing is written next to the
specifications.
"""
import json
import os
import re
import shutil
import subprocess
import tempfile
import time

VERIF = os.path.dirname(os.path.dirname(os.path.abspath(__file__)))
SPEC_DIR = os.path.join(VERIF, "spec")
JARS = "/opt/veriftools/tla/tla2tools.jar:/opt/veriftools/tla/CommunityModules-deps.jar"


class TLCFailure(Exception):
    """Machinery failure (exit code 2 of bin/check), never a verdict."""


# --------------------------------------------------------------------------
# TLA+ value parser (for -dump files and PrintT output)
# --------------------------------------------------------------------------
class _P:
    def __init__(self, s, i=0):
        self.s = s
        self.i = i

    def ws(self):
        s = self.s
        n = len(s)
        while self.i < n and s[self.i] in " \t\r\n":
            self.i += 1

    def peek(self, k=1):
        return self.s[self.i:self.i + k]

    def expect(self, tok):
        self.ws()
        if not self.s.startswith(tok, self.i):
            raise ValueError("expected %r at %d: %r" % (tok, self.i, self.s[self.i:self.i + 40]))
        self.i += len(tok)

    def value(self):
        self.ws()
        s = self.s
        c = s[self.i]
        if s.startswith("<<", self.i):
            self.i += 2
            out = []
            self.ws()
            if s.startswith(">>", self.i):
                self.i += 2
                return out
            while True:
                out.append(self.value())
                self.ws()
                if s.startswith(">>", self.i):
                    self.i += 2
                    return out
                self.expect(",")
        if c == "{":
            self.i += 1
            out = []
            self.ws()
            if s[self.i] == "}":
                self.i += 1
                return {"__set__": out}
            while True:
                out.append(self.value())
                self.ws()
                if s[self.i] == "}":
                    self.i += 1
                    return {"__set__": out}
                self.expect(",")
        if c == "[":
            self.i += 1
            out = {}
            self.ws()
            if s[self.i] == "]":
                self.i += 1
                return out
            while True:
                self.ws()
                m = re.compile(r"[A-Za-z_][A-Za-z0-9_]*").match(s, self.i)
                key = m.group(0)
                self.i = m.end()
                self.expect("|->")
                out[key] = self.value()
                self.ws()
                if s[self.i] == "]":
                    self.i += 1
                    return out
                self.expect(",")
        if c == "(":
            # function  (k1 :> v1 @@ k2 :> v2)
            self.i += 1
            out = []
            while True:
                k = self.value()
                self.expect(":>")
                v = self.value()
                out.append((k, v))
                self.ws()
                if s[self.i] == ")":
                    self.i += 1
                    break
                self.expect("@@")
            if all(isinstance(k, (int, str)) for k, _ in out):
                return {("%s" % k): v for k, v in out}
            return {"__fun__": out}
        if c == '"':
            j = self.i + 1
            buf = []
            while s[j] != '"':
                if s[j] == "\\":
                    j += 1
                buf.append(s[j])
                j += 1
            self.i = j + 1
            return "".join(buf)
        m = re.compile(r"-?\d+").match(s, self.i)
        if m:
            self.i = m.end()
            return int(m.group(0))
        m = re.compile(r"[A-Za-z_][A-Za-z0-9_]*").match(s, self.i)
        if m:
            self.i = m.end()
            w = m.group(0)
            if w == "TRUE":
                return True
            if w == "FALSE":
                return False
            return w  # model value
        raise ValueError("cannot parse at %d: %r" % (self.i, s[self.i:self.i + 40]))


def parse_value(text):
    p = _P(text)
    v = p.value()
    p.ws()
    if p.i != len(text):
        raise ValueError("trailing input: %r" % text[p.i:p.i + 40])
    return v


def parse_dump(path):
    """Parse a TLC -dump file into a list of {variable: value} dicts."""
    with open(path) as f:
        text = f.read()
    states = []
    for block in re.split(r"^State \d+:\s*$", text, flags=re.M)[1:]:
        st = {}
        # conjuncts start with "/\ name = " at line start
        parts = re.split(r"^/\\ ", block.strip(), flags=re.M)
        for part in parts:
            part = part.strip()
            if not part:
                continue
            m = re.match(r"([A-Za-z_][A-Za-z0-9_]*) = ", part)
            st[m.group(1)] = parse_value(part[m.end():])
        states.append(st)
    return states


# --------------------------------------------------------------------------
# running TLC
# --------------------------------------------------------------------------
_STATS = re.compile(r"(\d+) states generated, (\d+) distinct states found, (\d+) states left on queue")
_DEPTH = re.compile(r"The depth of the complete state graph search is (\d+)")


def run_tlc(spec, cfg_text, *, workers=None, dump=False, env=None, timeout=900,
            coverage=False, simulate=None, extra=(), deadlock=True, tag=None):
    """Run TLC on spec (module name in SPEC_DIR) with the given cfg text.

    Returns dict(out, generated, distinct, depth, wall_s, states (if dump),
    coverage (if requested)).  Raises TLCFailure on anything but a clean run;
    a violated invariant is reported in the returned dict as 'error'.
    """
    work = tempfile.mkdtemp(prefix="verif-tlc-")
    try:
        # copy the spec directory (small) so TLC never writes into /verif/spec
        sdir = os.path.join(work, "spec")
        shutil.copytree(SPEC_DIR, sdir)
        cfg = os.path.join(sdir, "_run.cfg")
        with open(cfg, "w") as f:
            f.write(cfg_text)
        cmd = ["java", "-XX:+UseParallelGC", "-Xss16m", "-cp", JARS, "tlc2.TLC",
               "-metadir", os.path.join(work, "meta"), "-noGenerateSpecTE",
               "-config", cfg]
        if workers is None:
            workers = min(16, os.cpu_count() or 1)
        cmd += ["-workers", str(workers)]
        if not deadlock:
            cmd += ["-deadlock"]
        if coverage:
            cmd += ["-coverage", "1"]
        dump_path = os.path.join(work, "dump")
        if dump:
            cmd += ["-dump", dump_path]
        if simulate:
            cmd += ["-simulate", simulate]
        cmd += list(extra)
        cmd += [os.path.join(sdir, spec + ".tla")]
        e = dict(os.environ)
        if env:
            e.update({k: str(v) for k, v in env.items()})
        t0 = time.time()
        try:
            pr = subprocess.run(cmd, cwd=sdir, env=e, stdout=subprocess.PIPE,
                                stderr=subprocess.STDOUT, timeout=timeout, text=True)
        except subprocess.TimeoutExpired:
            raise TLCFailure("TLC timed out after %ss on %s" % (timeout, spec))
        out = pr.stdout
        res = {"out": out, "wall_s": time.time() - t0, "rc": pr.returncode, "spec": spec}
        m = None
        for m in _STATS.finditer(out):
            pass
        if m:
            res["generated"], res["distinct"], res["queue"] = map(int, m.groups())
        m = _DEPTH.search(out)
        if m:
            res["depth"] = int(m.group(1))
        if "Overflow when computing" in out:
            raise TLCFailure("TLC integer overflow in %s:\n%s" % (spec, out[-2000:]))
        if "Model checking completed. No error has been found." in out or \
           (simulate and pr.returncode == 0):
            res["ok"] = True
        elif re.search(r"Invariant (\S+) is violated|Action property (\S+) is violated|"
                       r"Temporal properties were violated|Assumption .* is false|"
                       r"Deadlock reached", out):
            res["ok"] = False
            res["error"] = re.search(r"(Invariant \S+ is violated|Action property \S+ is violated|"
                                     r"Temporal properties were violated|Assumption .* is false|"
                                     r"Deadlock reached)", out).group(1)
        else:
            raise TLCFailure("TLC did not finish cleanly on %s (rc=%s):\n%s"
                             % (spec, pr.returncode, out[-3000:]))
        if dump:
            p = dump_path + ".dump" if os.path.exists(dump_path + ".dump") else dump_path
            res["states"] = parse_dump(p)
            # TLC's workers write the dump in whatever order they reach the states: put them in a canonical order, so that
            # "the i-th cell" (and every seed derived from i) is the same cell in every run
            res["states"].sort(key=lambda st: json.dumps(st, sort_keys=True, default=str))
        if coverage:
            res["coverage"] = parse_coverage(out)
        return res
    finally:
        shutil.rmtree(work, ignore_errors=True)


_COV = re.compile(r"^<(\w+) line (\d+), col (\d+) to line (\d+), col (\d+) of module (\w+)>: (\d+):(\d+)", re.M)


def parse_coverage(out):
    """Per-action (distinct, generated) counts from the last coverage report."""
    cov = {}
    for m in _COV.finditer(out):
        cov[m.group(1)] = {"distinct": int(m.group(7)), "generated": int(m.group(8))}
    return cov


def printed_values(out):
    """Values printed with PrintT (one TLA+ value per line) in TLC output."""
    vals = []
    for line in out.splitlines():
        line = line.strip()
        if line.startswith("<<\"V\"") or line.startswith("[v |->"):
            try:
                vals.append(parse_value(line))
            except ValueError:
                pass
    return vals


def to_tla(v):
    """Python value -> TLA+ literal (ints, bools, strings, lists, dicts)."""
    if isinstance(v, bool):
        return "TRUE" if v else "FALSE"
    if isinstance(v, int):
        return str(v)
    if isinstance(v, str):
        return '"' + v.replace("\\", "\\\\").replace('"', '\\"') + '"'
    if isinstance(v, (list, tuple)):
        return "<<" + ", ".join(to_tla(x) for x in v) + ">>"
    if isinstance(v, dict):
        return "[" + ", ".join("%s |-> %s" % (k, to_tla(x)) for k, x in v.items()) + "]"
    raise TypeError(type(v))
