"""Check context: verdicts, known findings, evidence, TLC model / trace runs."""
import json
import os
import sys
import tempfile
import time
import traceback

from . import tlc

VERIF = tlc.VERIF
EVID = os.path.join(VERIF, "evidence")
KNOWN = os.path.join(VERIF, "known_findings.json")


class Machinery(Exception):
    pass


def load_known():
    if not os.path.exists(KNOWN):
        return []
    with open(KNOWN) as f:
        return json.load(f).get("findings", [])


class Ctx:
    def __init__(self, pid, tier, seed):
        self.pid = pid
        self.tier = tier
        self.seed = seed
        self.t0 = time.time()
        self.states = 0
        self.transitions = 0
        self.models = []          # per TLC model run: spec, distinct, generated, wall
        self.traces = 0           # trace lines consumed by trace specs
        self.replays = 0          # TLC states / behaviours replayed into the code
        self.samples = []
        self.assumptions = []
        self.violations = []      # dicts
        self.known_seen = {}      # index in known list -> count
        self.drift = []
        self.notes = {}
        self.clause_counts = {}   # clause -> number of evaluations
        self.known = [k for k in load_known() if k.get("property") == pid and k.get("status", "finding") == "finding"]
        self.case_keys = set()
        self.exhaustive = False

    # ---------------------------------------------------------------- models
    def model(self, spec, cfg, **kw):
        """Run TLC on a model; a failing invariant of the *model* is a machinery
        failure (the specification must be internally consistent)."""
        res = tlc.run_tlc(spec, cfg, **kw)
        self.models.append({"spec": spec, "distinct": res.get("distinct", 0),
                            "generated": res.get("generated", 0),
                            "depth": res.get("depth"), "wall_s": round(res["wall_s"], 2)})
        self.states += res.get("distinct", 0)
        self.transitions += res.get("generated", 0)
        if not res.get("ok"):
            raise Machinery("model %s: %s\n%s" % (spec, res.get("error"), res["out"][-3000:]))
        return res

    def trace(self, spec, events, cfg, *, timeout=900, env=None):
        """Validate recorded events (list of dicts) against a trace spec.

        The trace spec reads IOEnv.TRACE_FILE (ndjson), consumes every line and
        prints  <<"V", "bad", tid, clause>>  for failed clauses and
        <<"V", "consumed", n>> at the end.  Returns list of (tid, clause).
        """
        if not events:
            return []
        _check_ints(events)
        dump_dir = os.environ.get("VERIF_SELFTEST_DIR")
        if dump_dir:       # bin/selftest: keep the recorded trace so that it can be corrupted and re-validated
            os.makedirs(dump_dir, exist_ok=True)
            with open(os.path.join(dump_dir, "%s-%s-%d.json" % (self.pid, spec, len(self.models))), "w") as f:
                json.dump({"pid": self.pid, "spec": spec, "cfg": cfg, "events": events}, f)
        fd, path = tempfile.mkstemp(prefix="verif-trace-", suffix=".ndjson")
        try:
            with os.fdopen(fd, "w") as f:
                for e in events:
                    f.write(json.dumps(e, separators=(",", ":")) + "\n")
            e2 = {"TRACE_FILE": path}
            if env:
                e2.update(env)
            res = tlc.run_tlc(spec, cfg, workers=1, env=e2, timeout=timeout, deadlock=False)
            self.models.append({"spec": spec, "distinct": res.get("distinct", 0),
                                "generated": res.get("generated", 0),
                                "depth": res.get("depth"), "wall_s": round(res["wall_s"], 2),
                                "trace_lines": len(events)})
            if not res.get("ok"):
                raise Machinery("trace spec %s: %s\n%s" % (spec, res.get("error"), res["out"][-3000:]))
            vals = tlc.printed_values(res["out"])
            consumed = None
            bad = []
            for v in vals:
                if v[1] == "consumed":
                    consumed = v[2]
                elif v[1] == "bad":
                    bad.append((v[2], v[3]))
            if consumed != len(events):
                raise Machinery("trace spec %s consumed %s of %d lines\n%s"
                                % (spec, consumed, len(events), res["out"][-3000:]))
            self.traces += consumed
            self.states += res.get("distinct", 0)
            self.transitions += res.get("generated", 0)
            return bad
        finally:
            try:
                os.unlink(path)
            except OSError:
                pass

    # -------------------------------------------------------------- verdicts
    def count(self, clause, n=1):
        self.clause_counts[clause] = self.clause_counts.get(clause, 0) + n

    def case(self, key):
        self.case_keys.add(key)

    def fail(self, function, clause, cls, detail):
        """Record a failed property clause on the real code.

        (function, clause, cls) is the signature matched against
        known_findings.json.  detail: JSON-serialisable replay information."""
        sig = {"function": function, "clause": clause, "class": cls}
        for idx, k in enumerate(self.known):
            if k["function"] == function and k["clause"] == clause and _class_match(k.get("class"), cls):
                self.known_seen[idx] = self.known_seen.get(idx, 0) + 1
                return "known"
        self.violations.append({"signature": sig, "detail": detail})
        return "violation"

    def sample(self, s):
        if len(self.samples) < 6:
            self.samples.append(s)

    # ---------------------------------------------------------------- finish
    def finish(self, level="model_checking"):
        wall = time.time() - self.t0
        if os.environ.get("VERIF_ALT"):
            # this is the second interpreter of harness/altinterp.py: hand the verdicts back, write nothing else
            import importlib
            with open(os.environ["VERIF_ALT"], "w") as f:
                json.dump({"optimized": not __debug__, "import_style": os.environ.get("VERIF_IMPORT_STYLE", "flat"),
                           "violations": self.violations, "drift": self.drift[:20], "traces": self.traces, "replays": self.replays,
                           "cases": len(self.case_keys), "known_seen": sum(self.known_seen.values()), "wall_s": round(wall, 2)}, f, default=str)
            return 0
        os.makedirs(EVID, exist_ok=True)
        rdir = os.path.join(EVID, "replays")
        lines = []
        # group violations by signature: one replay file per signature
        import glob
        for old in glob.glob(os.path.join(rdir, "%s-*.json" % self.pid)):
            try:
                os.unlink(old)
            except OSError:
                pass
        by_sig = {}
        for v in self.violations:
            key = json.dumps(v["signature"], sort_keys=True)
            by_sig.setdefault(key, []).append(v)
        n = 0
        for key, vs in sorted(by_sig.items()):
            n += 1
            os.makedirs(rdir, exist_ok=True)
            path = os.path.join(rdir, "%s-%d.json" % (self.pid, n))
            with open(path, "w") as f:
                json.dump({"property": self.pid, "signature": vs[0]["signature"],
                           "count": len(vs), "first": vs[0]["detail"],
                           "others": [x["detail"] for x in vs[1:4]],
                           "replay_cmd": "bin/check %s --replay %s" % (self.pid, path)},
                          f, indent=1, default=str)
            lines.append("VIOLATION property=%s replay=%s  (%s; %d case(s))"
                         % (self.pid, path, _sigtxt(vs[0]["signature"]), len(vs)))
        for idx, cnt in sorted(self.known_seen.items()):
            k = self.known[idx]
            lines.append("KNOWN-FINDING: property=%s %s [%s/%s/%s] seen %d time(s)"
                         % (self.pid, k["what"], k["function"], k["clause"], k.get("class"), cnt))
        for d in self.drift[:10]:
            lines.append("DRIFT: property=%s %s" % (self.pid, d))
        ev = {
            "property_id": self.pid,
            "tier": self.tier,
            "seed": self.seed,
            "level": level,
            "coverage": {
                "states": self.states,
                "transitions": self.transitions,
                "traces_validated_against_impl": self.traces,
                "replays_into_impl": self.replays,
                "evaluations": self.traces + self.replays,
                "distinct_nontrivial": len(self.case_keys),
                "rule": "distinct = distinct abstract case keys (TLC state or trace id) exercised against the implementation; trivial cases (empty/zero-size) are not keyed",
                "samples": self.samples if self.samples else ["(no sample recorded)"],
                "models": self.models,
                "clause_evaluations": self.clause_counts,
                "exhaustive": self.exhaustive,
                "drift": self.drift[:20],
                "known_findings_seen": [self.known[i]["what"] for i in sorted(self.known_seen)],
                "notes": self.notes,
            },
            "assumptions": self.assumptions,
            "wall_s": round(wall, 2),
            "violations": len(by_sig),
        }
        with open(os.path.join(EVID, "%s.json" % self.pid), "w") as f:
            json.dump(ev, f, indent=1, default=str)
        for ln in lines:
            print(ln)
        print("%s tier=%s seed=%d: states=%d transitions=%d trace_lines=%d replays=%d cases=%d "
              "violations=%d known=%d wall=%.1fs"
              % (self.pid, self.tier, self.seed, self.states, self.transitions, self.traces,
                 self.replays, len(self.case_keys), len(by_sig), len(self.known_seen), wall))
        return 1 if by_sig else 0


def _check_ints(v):
    """TLC integers are 32 bit and Json mangles larger values: refuse them."""
    if isinstance(v, bool):
        return
    if isinstance(v, int):
        if not -2 ** 31 < v < 2 ** 31:
            raise Machinery("trace integer out of TLC range: %r" % v)
    elif isinstance(v, float):
        raise Machinery("float in trace event: %r" % v)
    elif isinstance(v, dict):
        for x in v.values():
            _check_ints(x)
    elif isinstance(v, (list, tuple)):
        for x in v:
            _check_ints(x)


def _class_match(pat, cls):
    if pat is None or pat == "*":
        return True
    if isinstance(pat, list):
        return cls in pat
    return pat == cls


def _sigtxt(sig):
    return "%s/%s/%s" % (sig["function"], sig["clause"], sig["class"])


def main(run_fn_by_pid, argv):
    import argparse
    ap = argparse.ArgumentParser()
    ap.add_argument("pid")
    ap.add_argument("--tier", default=os.environ.get("VERIF_TIER", "quick"))
    ap.add_argument("--replay", default=None)
    a = ap.parse_args(argv)
    seed = int(os.environ.get("VERIF_SEED", "0") or 0)
    tier = a.tier if a.tier in ("quick", "thorough") else "quick"
    if a.replay and __debug__:
        # a violation that was handed back by the second interpreter is replayed under that interpreter
        try:
            with open(a.replay) as fh:
                first = json.load(fh).get("first")
        except (OSError, ValueError):
            first = None
        if isinstance(first, dict) and first.get("second_interpreter"):
            env = dict(os.environ, VERIF_IMPORT_STYLE="package")
            os.execve(sys.executable, [sys.executable, "-O", "-m", "harness.run", a.pid, "--tier", tier, "--replay", a.replay], env)
    ctx = Ctx(a.pid, tier, seed)
    try:
        fn = run_fn_by_pid(a.pid)
        level = fn(ctx, replay=a.replay) or "model_checking"
        if not a.replay and os.environ.get("VERIF_NO_SUITE_TRACES") != "1":
            from . import suitetrace
            suitetrace.stage(ctx, quick=(tier == "quick"))       # traces of the repository's own tests, validated by TLC
            from . import apptrace
            apptrace.stage(ctx, quick=(tier == "quick"))         # traces of the repository's applications (same recorder)
        if not a.replay and os.environ.get("VERIF_NO_SIZE_SWEEP") != "1":
            from . import sizesweep
            sizesweep.stage(ctx, quick=(tier == "quick"))        # routines on sizes beyond the exact families
        if not a.replay and not os.environ.get("VERIF_ALT") and os.environ.get("VERIF_NO_ALT") != "1":
            from . import altinterp
            altinterp.stage(ctx)                                 # the whole check again under python -O with package-style imports
        return ctx.finish(level)
    except Exception as e:
        from . import par
        lib_tb = None
        if isinstance(e, par.LibraryRaised):
            lib_tb, item = e.tb, e.item
        elif not isinstance(e, (Machinery, tlc.TLCFailure)) and par.innermost_in_repo(sys.exc_info()[2]):
            lib_tb, item = traceback.format_exc(), None
        INTERP = (ValueError, IndexError, TypeError, KeyError, AttributeError, ZeroDivisionError, FloatingPointError, OverflowError, AssertionError)
        if lib_tb is None and (isinstance(e, par.JudgeError) or (isinstance(e, INTERP + (__import__("numpy").linalg.LinAlgError,))
                                                                  and not isinstance(e, (Machinery, tlc.TLCFailure)))):
            # the harness could not interpret what the library returned (see par.JudgeError)
            tbs = e.tb if isinstance(e, par.JudgeError) else traceback.format_exc()
            last = [ln for ln in tbs.strip().splitlines() if ln.strip()][-1]
            ctx.fail("library", "OutputNotInterpretable", "exception",
                     {"error": last, "traceback": tbs[-3000:], "case": getattr(e, "item", None),
                      "meaning": "the check's judging code raised on a value returned by the library; this does not happen on the unchanged tree"})
            return ctx.finish("model_checking")
        if lib_tb is None:
            raise_again = e
        else:
            # the library raised on arguments the harness passes as in-domain
            last = [ln for ln in lib_tb.strip().splitlines() if ln.strip()][-1]
            where = [ln.strip() for ln in lib_tb.splitlines() if ln.strip().startswith("File ")][-1]
            ctx.fail("library", "InDomainNoException", "exception", {"error": last, "where": where, "traceback": lib_tb[-3000:], "case": item})
            return ctx.finish("model_checking")
        try:
            raise raise_again
        except (Machinery, tlc.TLCFailure) as e2:
            print("MACHINERY-FAILURE property=%s: %s" % (a.pid, e2), file=sys.stderr)
            return 2
        except Exception:
            traceback.print_exc()
            print("MACHINERY-FAILURE property=%s: unexpected exception" % a.pid, file=sys.stderr)
            return 2
    except (Machinery, tlc.TLCFailure) as e:
        print("MACHINERY-FAILURE property=%s: %s" % (a.pid, e), file=sys.stderr)
        return 2
    except Exception:
        traceback.print_exc()
        print("MACHINERY-FAILURE property=%s: unexpected exception" % a.pid, file=sys.stderr)
        return 2
