"""Trace validation of the repository's own tests: run selected test files of the tree under test in a scratch
mirror (tests copied, quatica/ and applications/ linked, so nothing is written into the repository), with
harness.suiteplugin recording and judging every call the tests make to a public routine; the recorded events
of one property are then validated by TLC against MeasureTrace.tla exactly like the property's own measurements."""
import json
import os
import shutil
import subprocess
import sys
import tempfile

from . import spectral as S
from .qlib import REPO

VERIF = os.path.dirname(os.path.dirname(os.path.abspath(__file__)))

# test files whose calls bear on each property (all run in well under a minute; tests/QGMRES/test_qgmres_large.py and the
# plotting tests are left out)
FILES = {
    "C01": ["tests/unit/test_basic_algebra.py", "tests/unit/test_qgmres_basics.py"],
    "C03": ["tests/unit/test_higher_order_ns.py", "tests/unit/test_basic_algebra.py"],
    "C04": ["tests/QGMRES/test_qgmres_solver.py", "tests/unit/test_qgmres_accuracy.py", "tests/unit/test_qgmres_simple.py", "tests/unit/test_qgmres_debug.py", "tests/unit/test_qgmres_preconditioner.py"],
    "C05": ["tests/decomp/test_qsvd.py", "tests/unit/test_qsvd_reconstruction_analysis.py"],
    "C06": ["tests/decomp/test_qsvd.py", "tests/unit/test_rand_unitary.py"],
    "C07": ["tests/decomp/test_LU.py", "tests/unit/test_qgmres_preconditioner.py"],
    "C08": ["tests/decomp/test_eigen.py", "tests/decomp/test_tridiagonalize.py"],
    "C09": ["tests/decomp/test_hessenberg.py"],
    "C10": ["tests/decomp/test_schur.py", "tests/unit/test_schur_synthetic.py", "tests/unit/test_schur_power_synthetic.py"],
    "C11": ["tests/unit/test_rank.py", "tests/unit/test_kernel_null_space.py", "tests/unit/test_det_demonstration.py", "tests/unit/test_basic_algebra.py"],
    "C12": ["tests/unit/test_rand_qsvd.py", "tests/unit/test_pass_eff_qsvd.py"],
    "C14": ["tests/unit/test_basic_algebra.py", "tests/decomp/test_LU.py", "tests/decomp/test_qsvd.py", "tests/decomp/test_eigen.py", "tests/decomp/test_hessenberg.py",
            "tests/unit/test_rank.py", "tests/unit/test_kernel_null_space.py", "tests/QGMRES/test_qgmres_solver.py", "tests/unit/test_tensor_quaternion_basics.py"],
    "C15": ["tests/unit/test_basic_algebra.py", "tests/unit/test_normQsparse.py", "tests/unit/test_qgmres_basics.py"],
    "C16": ["tests/unit/test_qgmres_basics.py"],
    "C18": ["tests/unit/test_tensor_quaternion_basics.py"],
    "C19": ["tests/unit/test_power_iteration_simple.py", "tests/unit/test_power_iteration_synthetic.py", "tests/unit/test_power_iteration_nonhermitian_validation.py",
            "tests/unit/test_schur_power_synthetic.py"],
}


def record(files, timeout=1500):
    """-> (records, pytest summary line).  Runs in a scratch mirror that is removed afterwards."""
    root = tempfile.mkdtemp(prefix="suite_")
    try:
        shutil.copytree(os.path.join(REPO, "tests"), os.path.join(root, "tests"),
                        ignore=shutil.ignore_patterns("__pycache__", "*.png", "*.pdf", "validation_output", "output*"))
        for d in ("quatica", "applications"):
            if os.path.isdir(os.path.join(REPO, d)):
                os.symlink(os.path.join(REPO, d), os.path.join(root, d))
        for f in ("pyproject.toml", "pytest.ini", "setup.cfg", "conftest.py"):
            if os.path.exists(os.path.join(REPO, f)):
                shutil.copy(os.path.join(REPO, f), os.path.join(root, f))
        out = os.path.join(root, "trace.ndjson")
        env = dict(os.environ, PYTHONPATH=VERIF, SUITE_ROOT=root, SUITE_TRACE_OUT=out, VERIF_REPO=REPO, PYTHONDONTWRITEBYTECODE="1",
                   MPLBACKEND="Agg", PYTHONWARNINGS="ignore")
        present = [f for f in files if os.path.exists(os.path.join(root, f))]
        cmd = [sys.executable, "-m", "pytest", "-q", "-p", "no:cacheprovider", "-p", "harness.suiteplugin", "--timeout=900", "-x", "--no-header"] + present
        p = subprocess.run(cmd, cwd=root, env=env, stdout=subprocess.PIPE, stderr=subprocess.STDOUT, timeout=timeout)
        tail = p.stdout.decode(errors="replace").strip().splitlines()[-1:] or [""]
        recs = []
        if os.path.exists(out):
            with open(out) as fh:
                recs = [json.loads(line) for line in fh if line.strip()]
        return recs, "rc=%d %s" % (p.returncode, tail[0]), present
    finally:
        shutil.rmtree(root, ignore_errors=True)


CORE = ["tests/unit/test_basic_algebra.py", "tests/decomp/test_qsvd.py", "tests/decomp/test_LU.py", "tests/decomp/test_eigen.py", "tests/decomp/test_hessenberg.py",
        "tests/decomp/test_tridiagonalize.py", "tests/unit/test_rank.py", "tests/unit/test_kernel_null_space.py", "tests/QGMRES/test_qgmres_solver.py",
        "tests/unit/test_tensor_quaternion_basics.py", "tests/unit/test_qgmres_basics.py", "tests/unit/test_normQsparse.py", "tests/unit/test_rand_unitary.py"]
for _p in ("C01", "C14", "C15"):      # products, norms and argument integrity occur in nearly every test file
    FILES[_p] = CORE
ALLFAST = sorted({f for fs in FILES.values() for f in fs})
SLOW = {"tests/unit/test_schur_synthetic.py", "tests/unit/test_schur_power_synthetic.py"}      # thorough tier only (20 s, 6 s)


def stage(ctx, prop=None, quick=False):
    """record the property's test files, validate the property's events with TLC, report through ctx"""
    prop = prop or ctx.pid
    files = [f for f in (FILES.get(prop, []) if quick or prop not in ("C01", "C14", "C15") else ALLFAST) if not (quick and f in SLOW)]
    if not files:
        return
    if not os.path.isdir(os.path.join(REPO, "tests")):
        ctx.notes["repo_test_traces"] = "no tests/ directory in the tree under test: stage skipped"
        return
    recs, summary, present = record(files)
    end = [r for r in recs if r["prop"] == "END"]
    errs = [r for r in recs if r["prop"] == "ERR"]
    for r in errs[:3]:
        # a judge raised on what the routine returned to the test (see par.JudgeError): a verdict, not a machinery failure
        ctx.fail(r["fn"], "OutputNotInterpretable", "repo-test", r["detail"])
    if not end:
        # the test run itself broke down (possible on a changed tree): what was recorded until then is still validated
        ctx.drift.append("repo-test recording did not reach the end of the pytest session (%s)" % summary)
        end = [{"detail": {}}]
    mine = [r for r in recs if r["prop"] == prop]
    rec = S.Rec()
    for r in mine:
        t = rec.new(r["fn"], r["cls"], r["detail"])
        for e in r["events"]:
            rec.events.append(dict(e, tid=t))
    ctx.notes["repo_test_traces"] = {"files": present, "pytest": summary, "calls_judged_for_this_property": len(mine),
                                     "calls_recorded_all_properties": end[0]["detail"].get("n", 0)}
    if not rec.events:
        return
    S.judge(ctx, rec.events, rec.info)
    ctx.count("repo-test traces (calls)", len(mine))
    ctx.sample({"direction": "B", "repo_test_call": mine[0]})
